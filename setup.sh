#!/bin/sh
# Build the framework from files on disk only (offline): full .vo build of the Coq development,
# extraction + modelrun, the harness against /repo's working tree (hooks on).
set -e
cd "$(dirname "$0")"
export CARGO_NET_OFFLINE=true
exec ./check build
