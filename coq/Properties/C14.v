(* C14 - no operation or stream hangs once the Context is gone.
   Partial: that dropping a Context drops the senders it stores (message queue, awaiting_ack,
   subscriptions) and that a dropped sender resolves its receiver is futures / Drop behaviour,
   assumed by the model (drop_ctx, cancel, close_stream_sender) and exercised by the harness. *)
From Poster Require Import Model.Client Proofs.ClientP.

(* an operation waiting on a oneshot whose sender was dropped completes ContextExited at its
   next poll *)
Theorem C14_pending_phase1 : forall (s : sys) (i : N) (o : op),
  alookup i (ops s) = Some o -> o_phase o = Wait1 -> o_ch1 o = CGone ->
  snd (poll_op s i) = [ODone i RErrExited].
Proof. exact poll_after_cancel1. Qed.
Print Assumptions C14_pending_phase1.
Theorem C14_pending_phase2 : forall (s : sys) (i : N) (o : op),
  alookup i (ops s) = Some o -> o_phase o = Wait2 -> o_ch2 o = CGone ->
  snd (poll_op s i) = [ODone i RErrExited].
Proof. exact poll_after_cancel2. Qed.
Print Assumptions C14_pending_phase2.

(* an operation first polled after the Context is gone fails in that very poll *)
Theorem C14_later : forall (s : sys) (i : N) (o : op), ctx_alive s = false ->
  exists r, snd (first_poll s i o) = [ODone i r] /\ (r = RErrExited \/ r = RErrCodec \/ r = RPanic).
Proof. exact first_poll_after_drop. Qed.
Print Assumptions C14_later.

(* a stream whose sender is gone yields what it had buffered, then ends *)
Theorem C14_streams : forall (s : sys) (j : N) (st : strm),
  alookup j (streams s) = Some st -> st_taken st = true -> st_sender st = false ->
  snd (poll_stream s j) = match st_buf st with p :: _ => [OItem j p] | [] => [OEnd j] end.
Proof. exact stream_after_drop. Qed.
Print Assumptions C14_streams.

