(* C07 - inbound messages reach exactly their subscription's stream, in order, intact.
   Known finding K1 (KNOWN_FINDINGS.txt): the decoder keeps only the LAST subscription identifier of a
   PUBLISH (pub_subid = plast 11), so a PUBLISH carrying two or more identifiers reaches one stream
   only; the theorems below are about the identifier the context dispatches on. *)
From Poster Require Import Model.Sim Proofs.ClientP Proofs.HandshakeP Proofs.StreamP Proofs.QuotaP Proofs.ResumeP Proofs.SimInvP Proofs.SettleP Proofs.RefineP Proofs.OwnP Proofs.TraceP Proofs.BoundaryP.

(* dispatch: the packet value itself (topic, payload, QoS, flags, properties untouched) is appended
   to the buffer of the stream registered under the identifier; no other stream changes; the
   context state does not change (whatever SUBACK / stream() timing: registration happens when the
   SUBSCRIBE message is taken, C07_registered_on_send) *)
Theorem C07_delivery : forall (s : sys) (sid : N) (p : rxpkt) (j : N) (st : strm),
  alookup sid (subs (c s)) = Some j -> alookup j (streams s) = Some st -> st_recv st = true ->
  alookup j (streams (dispatch s sid p)) = Some (mkst (st_buf st ++ [p]) (st_sender st) true (st_taken st)) /\
  (forall k, k <> j -> alookup k (streams (dispatch s sid p)) = alookup k (streams s)) /\
  c (dispatch s sid p) = c s.
Proof. exact dispatch_delivers. Qed.
Print Assumptions C07_delivery.

Theorem C07_unknown_id : forall (s : sys) (sid : N) (p : rxpkt),
  alookup sid (subs (c s)) = None -> dispatch s sid p = s.
Proof. exact dispatch_unknown. Qed.
Print Assumptions C07_unknown_id.

(* the stream hands out its buffer in arrival order, one item per poll, exactly once *)
Theorem C07_in_order : forall (s : sys) (j : N) (st : strm) (p : rxpkt) (r : list rxpkt),
  alookup j (streams s) = Some st -> st_taken st = true -> st_buf st = p :: r ->
  snd (poll_stream s j) = [OItem j p] /\
  alookup j (streams (fst (poll_stream s j))) = Some (mkst r (st_sender st) (st_recv st) (st_taken st)).
Proof. exact poll_stream_item. Qed.
Print Assumptions C07_in_order.

(* the subscription is registered when the SUBSCRIBE message is taken by the context - before
   the packet is even written - so nothing arriving after the SUBSCRIBE can be missed *)
Theorem C07_registered_on_send : forall (s : sys) (i a sid : N) (pkt : bytes),
  size_ok (c s) pkt = true ->
  subs (c (fst (handle_message s (MSub i a sid pkt)))) = subs (c s) ++ [(sid, i)].
Proof.
  intros s i a sid pkt H. unfold handle_message. rewrite H. cbn [negb]. cbv zeta. cbn [fst].
  rewrite write_c. reflexivity.
Qed.
Print Assumptions C07_registered_on_send.

(* the recorded finding, machine-checked: with two identifiers only the last is dispatched on *)
Example C07_K1_witness :
  pub_subid (mkrx KPublish false false false 0 0 0 [(11, VV 1 1); (11, VV 2 1)] [97] [65] []) = Some 2.
Proof. reflexivity. Qed.

(* ---- every sequence of inbound packets ---------------------------------------------------------------------
   `spec_deliveries aw sid ps` (Proofs/StreamP.v, written from C07/C09) = the PUBLISH packets of ps that carry
   subscription identifier sid and are not QoS 2 re-deliveries, in arrival order.  From ANY state in which the
   stream of sid is registered and its receiver alive, after ANY sequence ps of inbound packets (other
   subscriptions' messages, acknowledgements, messages for dropped or unknown streams, PUBRELs - anything),
   the stream's buffer has grown by exactly those packets: unchanged, in order, each exactly once; the
   stream stays registered (nothing ends it) and no other identifier ever maps to it. *)
Theorem C07_history : forall (ps : list rxpkt) (s : sys) (sid j : N) (st : strm),
  stream_state s sid j st -> sub_inj s sid j -> wbudget s = None ->
  let s' := take_packets s ps in
  stream_state s' sid j (mkst (st_buf st ++ spec_deliveries (await_rel (c s)) sid ps) (st_sender st) true (st_taken st)) /\
  await_rel (c s') = fold_left spec_aw_step ps (await_rel (c s)).
Proof. exact stream_history. Qed.
Print Assumptions C07_history.

Example C07_nonvacuous :
  let pk q pid sid pl := mkrx KPublish false false false q pid 0 [(11, VV sid 1)] [116] pl [] in
  let s := set_streams (set_c sys_init (mkctx [] [(1, 10); (2, 20)] [] [] 5 5 None 0 None))
                       [(10, mkst [] true true true); (20, mkst [] true false true)] in
  stream_state s 1 10 (mkst [] true true true) /\ sub_inj s 1 10 /\
  spec_deliveries [] 1 [pk 0 0 1 [1]; pk 1 5 2 [2]; pk 2 6 1 [3]; pk 2 6 1 [3]; pk 0 0 9 [4]; pk 1 7 1 [5]]
    = [pk 0 0 1 [1]; pk 2 6 1 [3]; pk 1 7 1 [5]].
Proof.
  cbv zeta. split; [repeat split|]. split; [|vm_compute; reflexivity].
  intros a b Hin Hb. cbn in Hin. destruct Hin as [H|[H|[]]]; inversion H; subst; [reflexivity|discriminate].
Qed.

(* ---- with requests of other operations in between, and for a whole poll of the Context task ---------------------------------
   C07_history over mixed histories: requests (of operations other than the subscribe that owns the stream) interleaved
   with the inbound packets in any way change nothing; pkts = the inbound packets of the history. *)
Theorem C07_history_mixed : forall (evs : list qev) (s : sys) (sid j : N) (st : strm),
  stream_state s sid j st -> sub_inj s sid j -> wbudget s = None ->
  (forall m, In m (msgs evs) -> fst (msg_op m) <> j) ->
  let s' := run_q s evs in
  stream_state s' sid j (mkst (st_buf st ++ spec_deliveries (await_rel (c s)) sid (pkts evs)) (st_sender st) true (st_taken st)) /\
  await_rel (c s') = fold_left spec_aw_step (pkts evs) (await_rel (c s)).
Proof. exact stream_history_mixed. Qed.
Print Assumptions C07_history_mixed.

(* one poll of the Context task of the script layer, from any running state: the stream has grown by exactly the
   messages among the packets the framing layer yielded (TraceP.trace; C08_end_to_end ties them to the bytes) that carry
   its identifier and are not QoS 2 re-deliveries - in order, each once *)
Theorem C07_after_poll : forall (s : sys) (sid j : N) (st : strm),
  cph s = CRunning -> hold s = false -> ctx_alive s = true -> wbudget s = None ->
  stream_state s sid j st -> sub_inj s sid j -> (forall m, In m (msgq s) -> fst (msg_op m) <> j) ->
  let evs := trace (settle_fuel s) s in
  stream_state (settle s) sid j
    (mkst (st_buf st ++ spec_deliveries (await_rel (c s)) sid (pkts evs)) (st_sender st) true (st_taken st)) /\
  await_rel (c (settle s)) = fold_left spec_aw_step (pkts evs) (await_rel (c s)).
Proof. exact stream_after_poll. Qed.
Print Assumptions C07_after_poll.

(* ---- the boundaries of a connection (Proofs/BoundaryP.v): what ends a connection does not end a stream. Handling the user's
   DISCONNECT (any request that awaits no acknowledgement; refused, failed or written), run() returning with any result, and
   set_up() installing the next transport leave the subscription table and every stream - buffer, sender, receiver - exactly
   as they were; a CONNACK leaves the subscription table alone. What does close stream senders: the Context's departure
   (C14_drop_closes_streams) and the expiry of the session found by the next run() (C17_expired). *)
Theorem C07_streams_survive_user_disconnect : forall (s : sys) (i : N) (pkt : bytes),
  subs (c (fst (handle_message s (MFire i pkt)))) = subs (c s) /\ streams (fst (handle_message s (MFire i pkt))) = streams s.
Proof. exact fire_keeps_streams. Qed.
Print Assumptions C07_streams_survive_user_disconnect.
Theorem C07_streams_survive_run_exit : forall (s : sys) (r : runres),
  subs (c (exit_run s r)) = subs (c s) /\ streams (exit_run s r) = streams s.
Proof. exact exit_keeps_streams. Qed.
Print Assumptions C07_streams_survive_run_exit.
Theorem C07_streams_survive_set_up : forall s : sys,
  subs (c (fst (step s EReconnect))) = subs (c s) /\ streams (fst (step s EReconnect)) = streams s.
Proof. exact set_up_keeps_streams. Qed.
Print Assumptions C07_streams_survive_set_up.
Theorem C07_connack_keeps_subscriptions : forall (x : ctx) (p : rxpkt), subs (handle_connack x p) = subs x.
Proof. exact connack_keeps_subs. Qed.
Print Assumptions C07_connack_keeps_subscriptions.
