(* C12 - the server's Maximum Packet Size is honoured exactly. *)
From Poster Require Import Model.Client Proofs.ClientP Proofs.QuotaP Proofs.ResumeP Proofs.WireP.

(* M is the value announced by the CONNACK of this connection; a CONNACK that announces none leaves no limit, whatever
   an earlier connection of the same Context had announced (finding F20, fixed in f454533) *)
Theorem C12_from_connack : forall (x : ctx) (p : rxpkt),
  maxpkt (handle_connack x p) = pnum 39 (r_props p).
Proof. reflexivity. Qed.
Print Assumptions C12_from_connack.

Theorem C12_size_ok_spec : forall (x : ctx) (pkt : bytes),
  size_ok x pkt = true <-> (maxpkt x = None \/ exists m, maxpkt x = Some m /\ lenN pkt <= m).
Proof. exact size_ok_spec. Qed.
Print Assumptions C12_size_ok_spec.

(* L > M: for every request kind and every state, only the request's own oneshot is filled, with
   MaximumPacketSizeExceeded; the run loop continues; the whole Context state (quota, awaiting
   acknowledgements, subscriptions, retransmit queue), the wire, the transport and the queue
   are exactly as before *)
Theorem C12_reject : forall (s : sys) (m : cmsg),
  size_ok (c s) (msg_pkt m) = false ->
  let s' := fst (handle_message s m) in
  snd (handle_message s m) = Continue /\ c s' = c s /\ wire_ev s' = wire_ev s /\
  wbudget s' = wbudget s /\ msgq s' = msgq s /\
  ops s' = ops (complete s (fst (msg_op m)) (snd (msg_op m)) CTooBig).
Proof. exact too_big_rejected. Qed.
Print Assumptions C12_reject.

(* L <= M or no M: the packet is written in full (QoS>0 PUBLISH: if the send quota allows) *)
Theorem C12_accept : forall (s : sys) (m : cmsg),
  size_ok (c s) (msg_pkt m) = true -> wbudget s = None ->
  (forall i ph a p, m = MAwait i ph a p -> ptype_of p = 3 -> quota (c s) <> 0) ->
  wire_ev (fst (handle_message s m)) = wire_ev s ++ msg_pkt m.
Proof. exact fits_written. Qed.
Print Assumptions C12_accept.

(* over every history of Context steps (WireP; refused = too big for M, or a QoS>0 PUBLISH at quota 0): the wire is the
   concatenation of exactly the packets that are not refused, each in full, and of the acknowledgements due - so not
   one byte of a refused request is ever written, and every accepted one is written whole, exactly once *)
Theorem C12_wire_history : forall (evs : list qev) (s : sys), wbudget s = None ->
  wire_ev (run_q s evs) = wire_ev s ++ spec_wire s evs.
Proof. exact wire_history. Qed.
Print Assumptions C12_wire_history.

Example C12_nonvacuous :
  let s := set_c sys_init (mkctx [] [] [] [] 5 5 (Some 3) 0 None) in
  size_ok (c s) [192; 0] = true /\ size_ok (c s) [48; 2; 0; 0] = false.
Proof. vm_compute. auto. Qed.
