(* C08 - every inbound QoS>0 PUBLISH and PUBREL is acknowledged exactly once, with its
   identifier, in arrival order; nothing is written for QoS 0 or any other packet. *)
From Poster Require Import Model.Sim Proofs.ClientP Proofs.QuotaP Proofs.ResumeP Proofs.WireP Proofs.FramingMainP Proofs.SimInvP Proofs.SettleP Proofs.RefineP Proofs.TraceP Proofs.AckFailP.

(* what the property says must be written for one inbound packet (written from the statement) *)
Definition C08_ack_for (p : rxpkt) : bytes :=
  match rk p with
  | KPublish => if r_qos p =? 0 then []
                else if r_qos p =? 1 then [64; 2] ++ enc_u16 (r_pid p)      (* PUBACK  *)
                else [80; 2] ++ enc_u16 (r_pid p)                            (* PUBREC  *)
  | KPubrel => [112; 2] ++ enc_u16 (r_pid p)                                 (* PUBCOMP *)
  | _ => []
  end.

(* one packet, any context state (subscription known or not, stream alive or not, re-delivery or
   not): exactly its acknowledgement is appended to the wire, and the transport stays healthy *)
Theorem C08_one_packet : forall (s : sys) (p : rxpkt), wbudget s = None ->
  wire_ev (fst (handle_packet s p)) = wire_ev s ++ C08_ack_for p /\
  wbudget (fst (handle_packet s p)) = None.
Proof.
  intros s p Hb. pose proof (handle_packet_wire s p Hb) as H. unfold wb in H.
  injection H as H1 H2. split; [exact H1|exact H2].
Qed.
Print Assumptions C08_one_packet.

(* any sequence of inbound packets from any state: the wire grows by exactly the due
   acknowledgements, one per packet that needs one, same identifier, in arrival order *)
Theorem C08_acks : forall (ps : list rxpkt) (s : sys), wbudget s = None ->
  wire_ev (take_packets s ps) = wire_ev s ++ concat (map C08_ack_for ps).
Proof.
  intros ps s Hb. pose proof (acks_in_order ps s Hb) as H. unfold wb in H.
  injection H as H1 _. exact H1.
Qed.
Print Assumptions C08_acks.

Example C08_nonvacuous :
  wire_ev (take_packets sys_init
    [mkrx KPublish false false false 1 7 0 [] [116] [1] [];
     mkrx KPublish false true false 2 9 0 [] [116] [2] [];
     mkrx KPublish false false false 0 0 0 [] [116] [3] [];
     mkrx KPubrel false false false 0 9 0 [] [] [] []])
  = [64; 2; 0; 7; 80; 2; 0; 9; 112; 2; 0; 9].
Proof. vm_compute. reflexivity. Qed.

(* ---- from the transport's bytes to the acknowledgements on the wire -------------------------------------------------------
   TraceP.trace fuel s: the history one poll of the Context task takes - inbound packets and queued requests in the
   order the run loop handles them. (1) The loop is the run of Context steps over exactly that history, so with a
   healthy writer what it adds to the wire is WireP.spec_wire of it: for every packet handled, the acknowledgement
   C08_ack_for says, in order, and the requests that are not refused. (2) The packets in it are exactly the frames the
   framing layer cuts from the bytes available (FramingMainP.drain; they are the reference frames of the byte stream:
   C03_drain), in order, decoded. *)
Theorem C08_end_to_end : forall s : sys, cph s = CRunning -> hold s = false -> ctx_alive s = true -> wbudget s = None ->
  let evs := trace (settle_fuel s) s in
  wire_ev (settle s) = wire_ev s ++ spec_wire s evs /\
  exists n, Forall2 (fun p bs => dec_packet bs = Ok p) (pkts evs) (firstn (length (pkts evs)) (fst (drain n (fr s) (rd s)))).
Proof.
  intros s Hc Hh Ha Hb. cbv zeta. split.
  - unfold settle. rewrite Hh, Ha. cbn [orb negb]. destruct (settle_loop_trace (settle_fuel s) s Hc) as [Hv _].
    assert (Hw : wire_ev (settle_loop (settle_fuel s) s) = wire_ev (run_q s (trace (settle_fuel s) s))) by (unfold view in Hv; congruence).
    rewrite Hw. apply wire_history. exact Hb.
  - apply trace_frames. exact Hc.
Qed.
Print Assumptions C08_end_to_end.
Check (eq_refl : pkts = fun evs => flat_map (fun e => match e with QPkt p => [p] | QMsg _ => [] end) evs).

(* two packets in one read, a QoS 2 PUBLISH split over two reads behind them, a request queued meanwhile *)
Example C08_end_to_end_nonvacuous :
  let s0 := final_state sys_init
    [EConnect (Build_connect_opts [99] 0 None None None None None None None None [] 0 false false
                 None None None None None None [] None None None None);
     EDeliver [32; 3; 0; 0; 0]; ERun; EHold;
     EDeliver [48; 4; 0; 1; 116; 0; 50; 6; 0; 1; 116; 0; 7; 0; 52; 6; 0]; EDeliver [1; 116; 0; 9; 0; 98; 2; 0; 9]] in
  let s := set_hold (begin_ev s0) false in
  cph s = CRunning /\ wbudget s = None /\ lenN (pkts (trace (settle_fuel s) s)) = 4 /\
  wire_ev (settle s) = [64; 2; 0; 7; 80; 2; 0; 9; 112; 2; 0; 9].
Proof. vm_compute. auto. Qed.

(* with a failing writer (Proofs/AckFailP.v): an acknowledgement the transport does not accept in full - fewer than its four
   bytes - ends run() with SocketClosed, at each of the three acknowledgement sites (PUBACK, PUBREC, PUBCOMP) alike; run()
   never goes on serving with an acknowledgement owed and unwritten *)
Theorem C08_ack_write_failure_ends_run : forall (s : sys) (p : rxpkt) (b : N), wbudget s = Some b -> b < 4 ->
  (rk p = KPublish /\ r_qos p <> 0) \/ rk p = KPubrel ->
  snd (handle_packet s p) = Exit RunSocketClosed.
Proof. exact ack_write_failure_exits. Qed.
Print Assumptions C08_ack_write_failure_ends_run.
