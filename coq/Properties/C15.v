(* C15 - a cancelled operation never disturbs the connection or other callers.
   Known finding K2 (KNOWN_FINDINGS.txt): a QoS 2 publish() future dropped before its PUBREC - the
   PUBREL is sent by the future, so it is never sent and that publish's quota slot never returns. *)
From Poster Require Import Model.Client Proofs.ClientP Proofs.RunP Proofs.QuotaP Proofs.HandshakeP Proofs.ResumeP Proofs.OwnP Proofs.DropP.

(* the late acknowledgement of a dropped future is absorbed: completing a dropped operation changes
   nothing at all *)
Theorem C15_absorbed : forall (s : sys) (i ph : N) (v : cval),
  alookup i (ops s) = None -> complete s i ph v = s.
Proof. exact complete_dropped. Qed.
Print Assumptions C15_absorbed.

(* it never makes run() return: the only packets that end the loop are a server DISCONNECT and
   a CONNACK/AUTH out of place - whatever futures or streams were dropped *)
Theorem C15_run_survives : forall (s : sys) (p : rxpkt) (r : runres),
  wbudget s = None -> snd (handle_packet s p) = Exit r ->
  (rk p = KDisconnect /\ r = (if r_reason p =? 0 then RunOk else RunDisconnected p)) \/
  ((rk p = KConnack \/ rk p = KAuth) /\ r = RunCodec).
Proof. exact handle_packet_exit. Qed.
Print Assumptions C15_run_survives.

(* and it still frees the flow-control slot: the effect of an inbound packet on (quota, R)
   depends on the packet only - not on whether anybody still waits for it *)
Theorem C15_slot_freed : forall (s : sys) (p : rxpkt),
  qr (c (fst (handle_packet s p))) =
  match completes p with Some _ => qr (bump_quota (c s)) | None => qr (c s) end.
Proof. exact handle_packet_qr. Qed.
Print Assumptions C15_slot_freed.

(* dropping a future touches only that future's entry (and its un-taken stream receiver) *)
Theorem C15_drop_local : forall (s : sys) (i : N),
  c (drop_op s i) = c s /\ msgq (drop_op s i) = msgq s /\ wire_ev (drop_op s i) = wire_ev s /\
  forall j, j <> i -> alookup j (ops (drop_op s i)) = alookup j (ops s).
Proof. exact drop_op_local. Qed.
Print Assumptions C15_drop_local.

(* ---- over every history of Context steps --------------------------------------------------------------------------------
   DropP.rm i s: the operation table without future i (what dropping a future does; C15_drop_is_rm). Removing the
   future commutes with every step the Context ever takes afterwards: requests of other callers, inbound packets, the
   late acknowledgements of the abandoned operation itself. Uniq (operation keys distinct) holds in every reachable
   state (C14_ownership's invariant OI = Own /\ Uniq). *)
Theorem C15_drop_commutes : forall (evs : list qev) (i : N) (s : sys), Uniq s ->
  run_q (rm i s) evs = rm i (run_q s evs).
Proof. exact drop_commutes. Qed.
Print Assumptions C15_drop_commutes.

(* so after any history the Context state (quota, awaiting acknowledgements, subscriptions, retransmit queue), the wire,
   the transport, the queue, every stream and every other operation's channels are exactly what they would have been
   had the future been kept *)
Theorem C15_drop_invisible : forall (evs : list qev) (i : N) (s : sys), Uniq s ->
  let a := run_q (rm i s) evs in let b := run_q s evs in
  c a = c b /\ wire_ev a = wire_ev b /\ wbudget a = wbudget b /\ msgq a = msgq b /\ streams a = streams b /\
  (forall j, j <> i -> alookup j (ops a) = alookup j (ops b)) /\ alookup i (ops a) = None.
Proof. exact drop_invisible. Qed.
Print Assumptions C15_drop_invisible.

(* and at every step the Context decides the same (keep running / leave run() and with what) *)
Theorem C15_same_decision : forall (i : N) (s : sys), Uniq s ->
  (forall m, snd (handle_message (rm i s) m) = snd (handle_message s m)) /\
  (forall p, snd (handle_packet (rm i s) p) = snd (handle_packet s p)).
Proof. exact drop_same_decision. Qed.
Print Assumptions C15_same_decision.

Theorem C15_drop_is_rm : forall (s : sys) (i : N) (o : op), alookup i (ops s) = Some o ->
  (forall so, o_kind o = OSub so -> match alookup i (streams s) with Some st => st_taken st = true | None => True end) ->
  drop_op s i = rm i s.
Proof. exact drop_op_rm. Qed.
Print Assumptions C15_drop_is_rm.
Check (eq_refl : rm = fun i s => set_ops s (aremove i (ops s))).

(* a QoS 1 publish (op 0) and a ping (op 1) in flight; op 0 is dropped; its PUBACK still frees the slot, the ping completes *)
Example C15_nonvacuous :
  let o0 := mkop (OPub (Build_publish_opts 1 false (Some [116]) None None None None None None None [])) Wait1 CEmpty CEmpty 1 in
  let o1 := mkop OPing Wait1 CEmpty CEmpty 0 in
  let s := set_ops (set_c sys_init (mkctx [(aid 4 1, (0, 1)); (aid 13 0, (1, 1))] [] [] [] 0 1 None 0 None)) [(0, o0); (1, o1)] in
  let evs := [QPkt (mkrx KPuback false false false 0 1 0 [] [] [] []); QPkt (mkrx KPingresp false false false 0 0 0 [] [] [] [])] in
  Uniq s /\ drop_op s 0 = rm 0 s /\ quota (c (run_q (rm 0 s) evs)) = 1 /\
  match alookup 1 (ops (run_q (rm 0 s) evs)) with Some o => o_ch1 o <> CEmpty | None => False end.
Proof.
  cbv zeta. split; [repeat constructor; cbn; intuition discriminate|]. split; [reflexivity|]. split; [vm_compute; reflexivity|].
  vm_compute. discriminate.
Qed.
