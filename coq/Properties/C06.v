(* C06 - outbound QoS 1/2 publishes follow the MQTT handshake and report its outcome. *)
From Poster Require Import Model.Sim Proofs.ClientP Proofs.HandshakeP Proofs.QuotaP Proofs.ResumeP Proofs.WireP Proofs.SimInvP Proofs.SettleP Proofs.RefineP Proofs.OwnP Proofs.OnceP Proofs.RelOnceP.

(* the first poll of publish(): one request reaches the context, carrying a PUBLISH whose first
   byte is 0x30 | qos<<1 | retain (DUP = 0), fire-and-forget for QoS 0, awaiting PUBACK (type 4)
   for QoS 1 / PUBREC (type 5) for QoS 2 under the freshly allocated identifier; nothing is
   written by the future itself; a request that cannot be built never reaches the queue *)
Theorem C06_first_poll : forall (s : sys) (i : N) (o : op) (po : publish_opts),
  o_kind o = OPub po -> ctx_alive s = true ->
  let pid := if po_qos po =? 0 then 0 else fst (alloc_pid (pid_ctr s)) in
  match enc_publish po pid with
  | Ok pkt =>
    msgq (fst (first_poll s i o)) =
      msgq s ++ [if po_qos po =? 0 then MFire i pkt
                 else MAwait i 1 (aid (if po_qos po =? 1 then 4 else 5) pid) pkt] /\
    snd (first_poll s i o) = [OPend i] /\
    wire_ev (fst (first_poll s i o)) = wire_ev s /\
    hd 0 pkt = 48 + po_qos po * 2 + b2n (po_retain po)
  | Err => snd (first_poll s i o) = [ODone i RErrCodec] /\ msgq (fst (first_poll s i o)) = msgq s
  | Panic => snd (first_poll s i o) = [ODone i RPanic] /\ msgq (fst (first_poll s i o)) = msgq s
  end.
Proof. exact first_poll_publish. Qed.
Print Assumptions C06_first_poll.

(* the context writes that packet exactly once, unchanged (C12_accept), and keeps a copy with
   DUP set only in its retransmit queue (C17_queue_publish) *)

Theorem C06_qos0 : forall (s : sys) (i : N) (o : op) (po : publish_opts),
  o_kind o = OPub po -> o_ch1 o = CFull CUnit -> snd (poll_wait1 s i o) = [ODone i ROk].
Proof. exact publish_qos0_done. Qed.
Print Assumptions C06_qos0.

(* QoS 1: completes on its PUBACK: reason < 0x80 is success, >= 0x80 PubackError with the packet;
   nothing further is sent *)
Theorem C06_qos1 : forall (s : sys) (i : N) (o : op) (po : publish_opts) (p : rxpkt),
  o_kind o = OPub po -> po_qos po = 1 -> o_ch1 o = CFull (CPkt p) -> rk p = KPuback ->
  snd (poll_wait1 s i o) = [ODone i (if 128 <=? r_reason p then RErrPuback p else ROk)] /\
  msgq (fst (poll_wait1 s i o)) = msgq s /\ wire_ev (fst (poll_wait1 s i o)) = wire_ev s.
Proof. exact publish_qos1_done. Qed.
Print Assumptions C06_qos1.

(* QoS 2 on PUBREC: reason >= 0x80 fails with PubrecError and requests no PUBREL; a smaller
   reason requests exactly one PUBREL 0x62 0x02 <same id> and keeps waiting *)
Theorem C06_qos2_pubrec : forall (s : sys) (i : N) (o : op) (po : publish_opts) (p : rxpkt),
  o_kind o = OPub po -> po_qos po = 2 -> o_ch1 o = CFull (CPkt p) -> rk p = KPubrec -> ctx_alive s = true ->
  if 128 <=? r_reason p
  then snd (poll_wait1 s i o) = [ODone i (RErrPubrec p)] /\ msgq (fst (poll_wait1 s i o)) = msgq s
  else snd (poll_wait1 s i o) = [OPend i] /\
       msgq (fst (poll_wait1 s i o)) = msgq s ++ [MAwait i 2 (aid 7 (r_pid p)) (enc_pubrel (r_pid p))].
Proof. exact publish_qos2_pubrec. Qed.
Print Assumptions C06_qos2_pubrec.
Theorem C06_pubrel_bytes : forall pid, enc_pubrel pid = [98; 2; (pid / 256) mod 256; pid mod 256].
Proof. exact enc_pubrel_bytes. Qed.
Print Assumptions C06_pubrel_bytes.

(* QoS 2 completes on the PUBCOMP: Ok below 0x80, PubcompError otherwise *)
Theorem C06_qos2_pubcomp : forall (s : sys) (i : N) (o : op) (p : rxpkt),
  o_ch2 o = CFull (CPkt p) -> rk p = KPubcomp ->
  snd (poll_wait2 s i o) = [ODone i (if 128 <=? r_reason p then RErrPubcomp p else ROk)].
Proof. exact publish_qos2_done. Qed.
Print Assumptions C06_qos2_pubcomp.

(* ---- over every history of Context steps --------------------------------------------------------------------------------
   WireP.refused s m : the request is larger than the server's Maximum Packet Size, or it is a QoS>0 PUBLISH and the
   send quota is 0 - the two local refusals the property names. WireP.spec_wire: every request's packet that is not
   refused, unchanged, and for every inbound packet the acknowledgement it is due (ClientP.ack_due = C08_ack_for), in
   the order the Context took them. With a healthy writer the wire after ANY sequence of requests and inbound packets,
   from ANY state, is exactly that: one PUBLISH per accepted publish() (never a second copy, never an altered one, DUP
   as built by the future: 0), one PUBREL per PUBREL request, nothing for a refused request, nothing else. *)
Theorem C06_wire_history : forall (evs : list qev) (s : sys), wbudget s = None ->
  wire_ev (run_q s evs) = wire_ev s ++ spec_wire s evs.
Proof. exact wire_history. Qed.
Print Assumptions C06_wire_history.
Check (eq_refl : refused = fun s m =>
  negb (size_ok (c s) (msg_pkt m)) ||
  match m with MAwait _ _ _ pkt => (ptype_of pkt =? 3) && (quota (c s) =? 0) | _ => false end).
Check (eq_refl : spec_wire = fix spec_wire (s : sys) (evs : list qev) : bytes :=
  match evs with
  | [] => []
  | QMsg m :: r => (if refused s m then [] else msg_pkt m) ++ spec_wire (qstep s (QMsg m)) r
  | QPkt p :: r => ack_due p ++ spec_wire (qstep s (QPkt p)) r
  end).

(* a refused request leaves the Context and the wire untouched and run() going *)
Theorem C06_refused_untouched : forall (s : sys) (m : cmsg), refused s m = true ->
  c (fst (handle_message s m)) = c s /\ wire_ev (fst (handle_message s m)) = wire_ev s /\ snd (handle_message s m) = Continue.
Proof. exact refused_untouched. Qed.
Print Assumptions C06_refused_untouched.

(* quota 1: a QoS 0 publish, two QoS 2 publishes of which the second is refused, PUBREC, PUBREL request, an inbound
   QoS 1 PUBLISH in between, PUBCOMP, then a QoS 1 publish that fits again *)
Example C06_history_nonvacuous :
  let s0 := set_c sys_init (mkctx [] [] [] [] 1 1 (Some 8) 0 None) in
  let p0 := [48; 4; 0; 1; 116; 0] in let p1 := [52; 6; 0; 1; 116; 0; 1; 0] in let p2 := [52; 6; 0; 1; 116; 0; 2; 0] in
  let big := [48; 7; 0; 1; 116; 0; 1; 2; 3] in let rel1 := [98; 2; 0; 1] in let p3 := [50; 6; 0; 1; 116; 0; 3; 0] in
  spec_wire s0
    [QMsg (MFire 0 p0); QMsg (MAwait 1 1 (aid 5 1) p1); QMsg (MAwait 2 1 (aid 5 2) p2); QMsg (MFire 3 big);
     QPkt (mkrx KPubrec false false false 0 1 0 [] [] [] []); QMsg (MAwait 1 2 (aid 7 1) rel1);
     QPkt (mkrx KPublish false false false 1 9 0 [] [116] [1] []);
     QPkt (mkrx KPubcomp false false false 0 1 0 [] [] [] []); QMsg (MAwait 4 1 (aid 4 3) p3)]
  = p0 ++ p1 ++ rel1 ++ [64; 2; 0; 9] ++ p3.
Proof. vm_compute. reflexivity. Qed.

(* ---- from the script layer down to the wire ---------------------------------------------------------------------------------
   The run loop of the script layer (settle: the Context task polled until it rests) is a run of Context steps over a
   history whose requests are exactly the queued ones, each once, in queue order (RefineP). With C06_first_poll (one
   request per publish()) and C06_wire_history this is the property end to end: while run() keeps going and the writer
   is healthy, what one poll of the Context task adds to the wire is spec_wire of a history containing every queued
   request exactly once - one PUBLISH per accepted publish(), unchanged. *)
Theorem C06_end_to_end : forall s : sys, FInv s -> SZs s -> cph s = CRunning -> hold s = false -> ctx_alive s = true ->
  wbudget s = None -> cph (settle s) = CRunning ->
  exists evs : list qev, msgs evs = msgq s /\ msgq (settle s) = [] /\
    wire_ev (settle s) = wire_ev s ++ spec_wire s evs.
Proof.
  intros s HF Hs Hc Hh Ha Hb Hc'. destruct (settle_takes_all s HF Hs Hc Hh Ha Hc') as (evs & Hm & Hv & Hq).
  exists evs. split; [exact Hm|]. split; [exact Hq|]. assert (Hw : wire_ev (settle s) = wire_ev (run_q s evs)) by (unfold view in Hv; congruence).
  rewrite Hw. apply wire_history. exact Hb.
Qed.
Print Assumptions C06_end_to_end.
Check (eq_refl : msgs = fun evs => flat_map (fun e => match e with QMsg m => [m] | QPkt _ => [] end) evs).


(* a state that meets the hypotheses with a request in the queue: connected, run() going, a QoS 1 publish() polled for
   the first time and the Context task not yet polled *)
Example C06_end_to_end_nonvacuous :
  let evs := [EConnect (Build_connect_opts [99] 0 None None None None None None None None [] 0 false false
                          None None None None None None [] None None None None);
              EDeliver [32; 3; 0; 0; 0]; ERun;
              EStart 0 0 (OPub (Build_publish_opts 1 false (Some [116]) None None None None None None None []))] in
  let s0 := final_state sys_init evs in let s := fst (poll_op s0 0) in
  FInv s /\ SZs s /\ cph s = CRunning /\ hold s = false /\ ctx_alive s = true /\ wbudget s = None /\
  cph (settle s) = CRunning /\ lenN (msgq s) = 1 /\ wire_ev (settle s) = [50; 6; 0; 1; 116; 0; 1; 0].
Proof.
  cbv zeta.
  match goal with |- FInv (fst (poll_op ?x 0)) /\ _ => set (s0 := x) end.
  assert (Hr : FInv s0 /\ SZs s0).
  { apply reachable_settled; [repeat constructor; vm_compute; discriminate|apply FInv_init|apply SZs_init]. }
  destruct Hr as [HF Hs]. pose proof (io_poll_op s0 0) as Hio. pose proof (f_equal (fun t => fst (fst t)) Hio) as H1. pose proof (f_equal (fun t => snd (fst t)) Hio) as H2. cbn [io fst snd] in H1, H2.
  split; [eapply FInv_io; [exact H1|exact H2|exact HF]|]. split; [unfold SZs; rewrite H2; exact Hs|].
  vm_compute. repeat split; reflexivity.
Qed.

(* ---- the handle side over every history: the future's phases only move forward -----------------------------------------------
   rank: NotStarted 0 < Wait1 1 (PUBLISH requested, awaiting PUBACK / PUBREC) < Wait2 2 (PUBREL requested, awaiting PUBCOMP)
   < Finished 3 (< 4: future dropped). From ANY state satisfying the reachable-state invariant, over ANY events that do not
   start the label anew, the rank never decreases. The PUBLISH request is issued exactly on 0 -> 1 (C06_first_poll) and
   the PUBREL request exactly on 1 -> 2, which happens only on a PUBREC with reason < 0x80 (C06_qos2_pubrec); a failing
   PUBREC moves to Finished. Hence: at most one PUBLISH and at most one PUBREL request per publish(), the PUBREL only after
   a successful PUBREC, and none ever after a failing one. *)
Theorem C06_phases_forward : forall (evs : list event) (s : sys) (i : N), OI s -> Forall (no_restart i) evs ->
  (prank s i <= prank (final_state s evs) i)%nat.
Proof. exact phases_forward. Qed.
Print Assumptions C06_phases_forward.
Check (eq_refl : prank = fun s i => match alookup i (ops s) with
  | Some o => match o_phase o with NotStarted => 0%nat | Wait1 => 1%nat | Wait2 => 2%nat | Finished => 3%nat end
  | None => 4%nat end).

(* requests submitted while no connection is up wait in the Context's queue: installing a new transport (set_up) leaves the
   queue as it is (seeded defect C01-7B emptied it) *)
Theorem C06_queue_survives_set_up : forall s : sys, msgq (fst (step s EReconnect)) = msgq s.
Proof. intros s. reflexivity. Qed.
Print Assumptions C06_queue_survives_set_up.

(* ---- the handle side over every history, counted: the PUBREL request of one publish() -----------------------------------------
   Requests reach the Context only through the queue, and only polls of operation futures append to it (`new_reqs`: what the
   poll of the event appended). `is_rel i` recognises the second-phase request of operation i. From ANY state satisfying the
   reachable-state invariant, over ANY events that do not start the label anew: operation i's future appends at most ONE
   PUBREL request in the whole history; none at all once it has left its first wait (a failing PUBREC, an error, a finished
   or dropped future); and each one is appended by a poll of i's own future, which is a publish with QoS other than 1 waiting
   on its first oneshot, that oneshot holding a PUBREC with reason < 0x80, and it is exactly the PUBREL for that PUBREC's
   identifier. *)
Theorem C06_pubrel_request_once : forall (evs : list event) (s : sys) (i : N), OI s -> Forall (no_restart i) evs ->
  (rels i (all_reqs s evs) <= 1)%nat.
Proof. exact pubrel_le_one. Qed.
Print Assumptions C06_pubrel_request_once.
Theorem C06_no_pubrel_request_later : forall (evs : list event) (s : sys) (i : N), OI s -> Forall (no_restart i) evs ->
  (2 <= prank s i)%nat -> rels i (all_reqs s evs) = 0%nat.
Proof. exact pubrel_none_after. Qed.
Print Assumptions C06_no_pubrel_request_later.
Theorem C06_pubrel_request_from_pubrec : forall (s : sys) (e : event) (i : N) (m : cmsg),
  In m (new_reqs s e) -> is_rel i m = true ->
  exists j, e = EPoll j /\ j = i /\ exists o po p, alookup i (ops (begin_ev s)) = Some o /\ o_phase o = Wait1 /\ o_kind o = OPub po /\
    (po_qos po =? 1) = false /\ o_ch1 o = CFull (CPkt p) /\ rk p = KPubrec /\ (128 <=? r_reason p) = false /\
    m = MAwait i 2 (aid 7 (r_pid p)) (enc_pubrel (r_pid p)).
Proof. exact new_reqs_spec. Qed.
Print Assumptions C06_pubrel_request_from_pubrec.
Check (eq_refl : new_reqs = fun s e => match e with
  | EPoll j => skipn (length (msgq s)) (msgq (fst (poll_op (begin_ev s) j))) | _ => [] end).
Check (eq_refl : is_rel = fun i m => match m with MAwait k ph _ _ => (k =? i) && (ph =? 2) | _ => false end).
Check (eq_refl : all_reqs = fix all_reqs (s : sys) (evs : list event) : list cmsg :=
  match evs with [] => [] | e :: r => new_reqs s e ++ all_reqs (fst (step s e)) r end).
(* non-vacuity: a QoS 2 publish whose PUBREC (reason 0) has arrived appends exactly one PUBREL request when polled *)
Example C06_pubrel_request_happens :
  let pre := [EConnect (Build_connect_opts [99] 0 None None None None None None None None [] 0 false false
                          None None None None None None [] None None None None);
              EDeliver [32; 3; 0; 0; 0]; ERun;
              EStart 0 0 (OPub (Build_publish_opts 2 false (Some [116]) None None None None None None None []))] in
  let evs := [EPoll 0; EDeliver [80; 2; 0; 1]; EPoll 0; EPoll 0; EDeliver [80; 2; 0; 1]; EPoll 0] in
  Forall (no_restart 0) evs /\ rels 0 (all_reqs (final_state sys_init pre) evs) = 1%nat.
Proof. split; [repeat constructor|vm_compute; reflexivity]. Qed.
