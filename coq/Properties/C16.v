(* C16 - progress relies only on wakeups; spurious polls have no effect.
   Partial: waker registration inside oneshot, mpsc, select! and compiler-generated futures is
   assumed; the theorems cover the library's own poll logic as modelled. *)
From Poster Require Import Model.Sim Proofs.ClientP Proofs.FramingP Proofs.FramingMainP Proofs.SimInvP Proofs.SettleP Proofs.SweepP.

(* polling an operation whose oneshot is still empty changes nothing and reports Pending *)
Theorem C16_spurious_op : forall (s : sys) (i : N) (o : op),
  alookup i (ops s) = Some o ->
  (o_phase o = Wait1 /\ o_ch1 o = CEmpty) \/ (o_phase o = Wait2 /\ o_ch2 o = CEmpty) ->
  poll_op s i = (s, [OPend i]).
Proof. exact spurious_op_poll. Qed.
Print Assumptions C16_spurious_op.

(* polling a stream with nothing buffered and a live sender changes nothing *)
Theorem C16_spurious_stream : forall (s : sys) (j : N) (st : strm),
  alookup j (streams s) = Some st -> st_taken st = true -> st_buf st = [] -> st_sender st = true ->
  poll_stream s j = (s, [ONone j]).
Proof. exact spurious_stream_poll. Qed.
Print Assumptions C16_spurious_stream.

(* the hand-written RxPacketStream::poll_next returns Pending only straight after the transport's
   poll_read returned Pending (which registered the waker): for every state, script and fuel, at a
   Pending the transport has nothing available (every delivered byte was consumed) and has not ended *)
Theorem C16_pending_has_waker : forall (fuel : nat) (x : rx) (rd : reader) (x' : rx) (rd' : reader),
  fpoll fuel x rd = (FPending, x', rd') ->
  segs rd' = [] /\ r_eof rd' = false /\ r_err rd' = false /\ fstate x' = Idle.
Proof. exact fpoll_pending_registered. Qed.
Print Assumptions C16_pending_has_waker.

(* a spurious poll of the packet stream in that situation returns Pending again and leaves the
   framing state exactly as it was: nothing emitted, nothing lost *)
Theorem C16_spurious_ctx : forall (fuel : nat) (x : rx) (rd : reader) (x' : rx) (rd' : reader),
  fpoll fuel x rd = (FPending, x', rd') ->
  forall n : nat, fpoll (S n) x' rd' = (FPending, x', rd').
Proof. exact fpoll_pending_idempotent. Qed.
Print Assumptions C16_spurious_ctx.

(* ---- the Context task as a whole, over every reachable state ---------------------------------------------------------------
   settle (Model/Client.v) polls the Context task (connect()/authorize() or run()) until it returns Pending or
   finishes; the model runs it after every event that can wake the task. SettleP.Stopped: the task is not running
   (CIdle), or it is asleep in connect() with the transport's last answer Pending, or asleep in run() with the request
   queue empty, a handle still alive and the transport's last answer Pending. *)
Check (eq_refl : Stopped = fun s =>
  match cph s with CIdle => True | CConnecting => AsleepConn s | CRunning => Asleep s end).
Check (eq_refl : Asleep = fun s =>
  msgq s = [] /\ live_senders s <> 0 /\ exists fuel x r, fpoll fuel x r = (FPending, fr s, rd s)).
Check (eq_refl : AsleepConn = fun s => exists fuel x r, fpoll fuel x r = (FPending, fr s, rd s)).

(* the run loop returns Pending only when there is nothing left it could do: the loop of the model never ends because
   its fuel ran out, it ends because the task stopped. (FInv: framing invariant of C03/C04; SZs: the bytes the framing
   layer holds are in the buffer proper; both hold in every reachable state, C16_reachable.) *)
Theorem C16_pending_only_when_idle : forall s : sys, FInv s -> SZs s -> Stopped (settle_loop (settle_fuel s) s).
Proof. exact settle_loop_adequate. Qed.
Print Assumptions C16_pending_only_when_idle.

(* and what "asleep in run()" means for wakeups: every byte delivered has been consumed, the transport has not ended
   (its poll_read returned Pending, which registered the waker: C16_pending_has_waker), no request is queued (the
   channel's poll_next returned Pending, which registered the waker) *)
Theorem C16_asleep_registered : forall s : sys, Asleep s ->
  msgq s = [] /\ segs (rd s) = [] /\ r_eof (rd s) = false /\ r_err (rd s) = false /\ fstate (fr s) = Idle.
Proof.
  intros s (Hq & _ & fuel & x & r & Hp). destruct (fpoll_pending_registered _ _ _ _ _ Hp) as (H1 & H2 & H3 & H4). auto.
Qed.
Print Assumptions C16_asleep_registered.

(* polling a stopped Context task again - any number of times - changes nothing: no byte read or written, no request
   taken, nothing completed *)
Theorem C16_stopped_fix : forall s : sys, Stopped s -> forall n : nat, settle_loop n s = s.
Proof. exact stopped_fix. Qed.
Print Assumptions C16_stopped_fix.
Theorem C16_spurious_context_poll : forall s : sys, FInv s -> SZs s -> settle (settle s) = settle s.
Proof. exact settle_idempotent. Qed.
Print Assumptions C16_spurious_context_poll.

(* every state reachable from the initial one by script events satisfies both invariants *)
Theorem C16_reachable : forall evs : list event, Forall ev_ok evs ->
  let s := final_state sys_init evs in FInv s /\ SZs s /\ settle (settle s) = settle s.
Proof.
  intros evs H. cbv zeta. destruct (reachable_settled evs H sys_init FInv_init SZs_init) as [HF Hs].
  split; [exact HF|]. split; [exact Hs|]. apply settle_idempotent; assumption.
Qed.
Print Assumptions C16_reachable.

(* a state asleep in run() exists: after CONNACK and run() with one handle alive *)
Example C16_nonvacuous :
  let s := final_state sys_init [EConnect (Build_connect_opts [99] 0 None None None None None None None None [] 0 false false
                         None None None None None None [] None None None None); EDeliver [32; 3; 0; 0; 0]; ERun] in
  cph s = CRunning /\ msgq s = [] /\ live_senders s = 1 /\ settle s = s.
Proof. vm_compute. auto. Qed.

(* ---- spurious polls as script events ---------------------------------------------------------------------------------
   With the Context task at rest (Stopped: what every event that runs it leaves behind, C16_pending_only_when_idle), a
   poll of an operation future waiting on an empty oneshot, or of a stream with nothing buffered, is an event that
   reports Pending, writes nothing and leaves exactly the state every event starts from (begin_ev only clears the
   per-event output buffers): every later event behaves identically with or without it, wherever it is inserted. *)
Theorem C16_spurious_poll_event : forall (s : sys) (i : N) (o : op), Stopped s -> alookup i (ops s) = Some o ->
  (o_phase o = Wait1 /\ o_ch1 o = CEmpty) \/ (o_phase o = Wait2 /\ o_ch2 o = CEmpty) ->
  step s (EPoll i) = (begin_ev s, [OPend i]) /\ forall e, step (fst (step s (EPoll i))) e = step s e.
Proof. exact spurious_poll_event. Qed.
Print Assumptions C16_spurious_poll_event.
Theorem C16_spurious_stream_event : forall (s : sys) (j : N) (st : strm), Stopped s -> alookup j (streams s) = Some st ->
  st_taken st = true -> st_buf st = [] -> st_sender st = true ->
  step s (EPollStream j) = (begin_ev s, [ONone j]) /\ forall e, step (fst (step s (EPollStream j))) e = step s e.
Proof. exact spurious_stream_event. Qed.
Print Assumptions C16_spurious_stream_event.
Check (eq_refl : begin_ev = fun s => set_tail (set_wire s (wbudget s) []) []).

(* ---- whole runs: the sweeping executor and the wake-only executor (Proofs/SweepP.v) --------------------------------------
   ev_ok': any event of the case language except the harness's batch event (and CONNECT/AUTH within MQTT's packet size).
   In EVERY state a script reaches the Context task is at rest: held back by the script, gone, or Stopped - so a poll
   of it whose waker has not fired does nothing (C16_stopped_fix). *)
Theorem C16_at_rest_reachable : forall evs : list event, Forall ev_ok' evs ->
  let s := final_state sys_init evs in FInv s /\ SZs s /\ (hold s = true \/ ctx_alive s = false \/ Stopped s).
Proof. intros evs H. exact (reachable_at_rest evs H sys_init RI_init). Qed.
Print Assumptions C16_at_rest_reachable.

(* Sweep s es l: the labelled script l is the script es with extra polls inserted (label true) - anywhere, any number -
   each one of a task whose waker has not fired in the state it is inserted in (Spur: an operation future waiting on a
   oneshot nothing was sent to, a stream with nothing buffered and a live sender).
   From every reachable state, for every script and every such set of insertions:
   - every inserted poll reports Pending and nothing else (no byte written, nothing completed, nothing lost);
   - the original events print exactly what they print without the insertions - same bytes, same results, same stream
     items, same order;
   - the final states agree (up to the per-event output buffers that the next event clears). *)
Theorem C16_same_outcomes : forall (pre es : list event) (l : list (bool * event)),
  Forall ev_ok' pre -> Forall ev_ok' es ->
  let s := final_state sys_init pre in Sweep s es l ->
  real_obs (run_lab s l) = run_obs s es /\ Forall extra_pending (run_lab s l) /\
  begin_ev (final_state s (map snd l)) = begin_ev (final_state s es).
Proof. exact sweep_same_reachable. Qed.
Print Assumptions C16_same_outcomes.
Check (eq_refl : Spur = fun s e =>
  (exists i o, e = EPoll i /\ alookup i (ops s) = Some o /\
     ((o_phase o = Wait1 /\ o_ch1 o = CEmpty) \/ (o_phase o = Wait2 /\ o_ch2 o = CEmpty))) \/
  (exists j st, e = EPollStream j /\ alookup j (streams s) = Some st /\
     st_taken st = true /\ st_buf st = [] /\ st_sender st = true)).
Check (eq_refl : real_obs = fun l => map snd (filter (fun x => negb (fst (fst x))) l)).
Check (eq_refl : extra_pending = fun x => fst (fst x) = true -> snd x = pending_obs (snd (fst x))).
Check (eq_refl : pending_obs = fun e => match e with EPoll i => [OPend i] | EPollStream j => [ONone j] | _ => [] end).
Check (Sw_extra : forall s e es l, Spur s e -> Sweep s es l -> Sweep s es ((true, e) :: l)).
Check (Sw_real : forall s e es l, Sweep (fst (step s e)) es l -> Sweep s (e :: es) ((false, e) :: l)).

(* a QoS 1 publish waiting for its PUBACK and polled twice more, while its oneshot is empty, before the PUBACK arrives *)
Example C16_same_outcomes_nonvacuous :
  let pre := [EConnect (Build_connect_opts [99] 0 None None None None None None None None [] 0 false false
                          None None None None None None [] None None None None);
              EDeliver [32; 3; 0; 0; 0]; ERun;
              EStart 0 0 (OPub (Build_publish_opts 1 false (Some [116]) None None None None None None None [])); EPoll 0] in
  let es := [EDeliver [64; 2; 0; 1]; EPoll 0] in
  let l := [(true, EPoll 0); (true, EPoll 0); (false, EDeliver [64; 2; 0; 1]); (false, EPoll 0)] in
  Forall ev_ok' pre /\ Forall ev_ok' es /\ Sweep (final_state sys_init pre) es l /\
  run_obs (final_state sys_init pre) es = [[]; [ODone 0 ROk]].
Proof.
  cbv zeta. split; [repeat constructor; discriminate|]. split; [repeat constructor|]. split; [|vm_compute; reflexivity].
  apply Sw_extra; [left; eexists _, _; split; [reflexivity|]; split; [vm_compute; reflexivity|left; split; reflexivity]|].
  apply Sw_extra; [left; eexists _, _; split; [reflexivity|]; split; [vm_compute; reflexivity|left; split; reflexivity]|].
  apply Sw_real. apply Sw_real. apply Sw_nil.
Qed.
