(* The history a poll of the Context task takes, explicitly: trace fuel s lists, in order, the inbound packets and the
   queued requests the run loop handles. The loop is the run of Context steps over exactly that history (RefineP, made
   constructive), and the packets in it are exactly the frames the framing layer cuts from the transport's bytes, in
   order, decoded - so the chain bytes in -> frames (C03) -> packets (C02) -> Context steps -> bytes out (C06/C08)
   is closed inside the model. *)
From Poster Require Import Model.Sim Spec.Frames Proofs.BytesP Proofs.ClientP Proofs.QuotaP Proofs.HandshakeP Proofs.ResumeP Proofs.WireP
  Proofs.FramingP Proofs.FramingMainP Proofs.SimInvP Proofs.SettleP Proofs.RefineP Proofs.OwnP.
Arguments N.add : simpl never. Arguments N.mul : simpl never. Arguments N.sub : simpl never.
Arguments N.ltb : simpl never. Arguments N.leb : simpl never. Arguments N.eqb : simpl never.

Fixpoint trace (fuel : nat) (s : sys) : list qev :=
  match fuel with
  | O => []
  | S fuel =>
    match cph s with
    | CRunning =>
      match fpoll (poll_fuel (rd s)) (fr s) (rd s) with
      | (FItem bs, f, r) =>
        match dec_packet bs with
        | Ok p => QPkt p :: match handle_packet (set_io s r f) p with (s1, Continue) => trace fuel s1 | _ => [] end
        | _ => []
        end
      | (FPending, f, r) =>
        match msgq (set_io s r f) with
        | m :: q => QMsg m :: match handle_message (set_msgq (set_io s r f) q) m with (s1, Continue) => trace fuel s1 | _ => [] end
        | [] => []
        end
      | _ => []
      end
    | _ => []
    end
  end.

Definition pkts (evs : list qev) : list rxpkt :=
  flat_map (fun e => match e with QPkt p => [p] | QMsg _ => [] end) evs.

(* the loop is the run over its trace; the requests in the trace are a prefix of the queue *)
Theorem settle_loop_trace fuel : forall s, cph s = CRunning ->
  view (settle_loop fuel s) = view (run_q s (trace fuel s)) /\
  exists rest, msgq s = msgs (trace fuel s) ++ rest /\ (cph (settle_loop fuel s) = CRunning -> msgq (settle_loop fuel s) = rest).
Proof.
  induction fuel as [|fuel IH]; intros s Hc; cbn [settle_loop trace].
  - split; [reflexivity|]. exists (msgq s). cbn [msgs flat_map app]. auto.
  - rewrite Hc. unfold run_turn. destruct (fpoll (poll_fuel (rd s)) (fr s) (rd s)) as [[o f] r].
    assert (Hstop : forall x res, view x = view s ->
       view (exit_run x res) = view (run_q s []) /\
       exists rest, msgq s = msgs [] ++ rest /\ (cph (exit_run x res) = CRunning -> msgq (exit_run x res) = rest)).
    { intros x res Hv. split; [rewrite view_exit; exact Hv|]. exists (msgq s). split; [reflexivity|cbn; discriminate]. }
    destruct o as [bs| | | |]; try (apply Hstop; reflexivity).
    + destruct (dec_packet bs) as [p| |]; try (apply Hstop; reflexivity).
      change (set_io s r f) with (U r f (msgq s) s). rewrite U_handle_packet.
      pose proof (cq_handle_packet s p) as Hcq. destruct (handle_packet s p) as [s1 a] eqn:Eh. cbn [fst snd] in *.
      unfold cq in Hcq. injection Hcq as Hc1 Hm1. cbn [run_q qstep msgs flat_map app]. rewrite Eh. cbn [fst].
      destruct a.
      * assert (Hc2 : cph (U r f (msgq s) s1) = CRunning) by (cbn; congruence).
        destruct (IH (U r f (msgq s) s1) Hc2) as [Hv (rest & Hq & Hr)]. split.
        -- rewrite Hv. apply view_run_U.
        -- exists rest. split; [exact Hq|exact Hr].
      * cbn [fst snd run_q]. split; [reflexivity|]. exists (msgq s). split; [reflexivity|cbn; discriminate].
    + change (set_io s r f) with (U r f (msgq s) s). change (msgq (U r f (msgq s) s)) with (msgq s).
      destruct (msgq s) as [|m q] eqn:Eq.
      * destruct (live_senders _ =? 0); [apply Hstop; reflexivity|]. cbn [fst run_q msgs flat_map app].
        split; [reflexivity|]. exists []. split; [reflexivity|]. intros _. reflexivity.
      * change (set_msgq (U r f (m :: q) s) q) with (U r f q s). rewrite U_handle_message.
        pose proof (cq_handle_message s m) as Hcq. destruct (handle_message s m) as [s1 a] eqn:Eh. cbn [fst snd] in *.
        unfold cq in Hcq. injection Hcq as Hc1 Hm1. cbn [run_q qstep msgs flat_map app]. rewrite Eh. cbn [fst].
        destruct a.
        -- assert (Hc2 : cph (U r f q s1) = CRunning) by (cbn; congruence).
           destruct (IH (U r f q s1) Hc2) as [Hv (rest & Hq & Hr)]. split.
           ++ rewrite Hv. apply view_run_U.
           ++ exists rest. split; [|exact Hr]. cbn [msgq U set_msgq] in Hq. cbn [app]. f_equal. exact Hq.
        -- cbn [fst snd run_q]. split; [reflexivity|]. exists q. split; [reflexivity|cbn; discriminate].
Qed.

(* the packets of the trace are the frames the framing layer yields, in order, decoded *)
Lemma drain_pending x rd x' rd' fuel n : fpoll fuel x rd = (FPending, x', rd') -> fst (drain n x' rd') = [].
Proof.
  intros Hp. destruct n as [|n]; [reflexivity|]. cbn [drain]. destruct (poll_fuel_S rd') as [k Hk].
  rewrite Hk, (fpoll_pending_idempotent _ _ _ _ _ Hp k). reflexivity.
Qed.
Theorem trace_frames fuel : forall s, cph s = CRunning ->
  exists n, Forall2 (fun p bs => dec_packet bs = Ok p) (pkts (trace fuel s))
                    (firstn (length (pkts (trace fuel s))) (fst (drain n (fr s) (rd s)))).
Proof.
  induction fuel as [|fuel IH]; intros s Hc; cbn [trace]; [exists O; constructor|].
  rewrite Hc. destruct (fpoll (poll_fuel (rd s)) (fr s) (rd s)) as [[o f] r] eqn:Ef.
  destruct o as [bs| | | |]; try (exists O; constructor).
  - destruct (dec_packet bs) as [p| |] eqn:Ed; try (exists O; constructor).
    pose proof (cq_handle_packet (set_io s r f) p) as Hcq. pose proof (io_handle_packet (set_io s r f) p) as Hio.
    destruct (handle_packet (set_io s r f) p) as [s1 a]. cbn [fst] in *.
    unfold cq in Hcq. injection Hcq as Hc1 _. unfold io in Hio. injection Hio as Hr1 Hf1 _.
    destruct a.
    + assert (Hc2 : cph s1 = CRunning) by (cbn in Hc1; congruence).
      destruct (IH s1 Hc2) as [n Hn]. exists (S n). cbn [pkts flat_map app length firstn drain]. rewrite Ef.
      destruct (drain n f r) as [ps e] eqn:Edr. cbn [fst firstn]. constructor; [exact Ed|].
      cbn [rd fr set_io] in Hr1, Hf1. rewrite Hr1, Hf1, Edr in Hn. exact Hn.
    + exists 1%nat. cbn [pkts flat_map app length firstn drain]. rewrite Ef. cbn [drain fst firstn]. constructor; [exact Ed|constructor].
  - destruct (msgq (set_io s r f)) as [|m q]; [exists O; constructor|].
    pose proof (cq_handle_message (set_msgq (set_io s r f) q) m) as Hcq. pose proof (io_handle_message (set_msgq (set_io s r f) q) m) as Hio.
    destruct (handle_message (set_msgq (set_io s r f) q) m) as [s1 a]. cbn [fst] in *.
    unfold cq in Hcq. injection Hcq as Hc1 _. unfold io in Hio. injection Hio as Hr1 Hf1 _.
    cbn [pkts flat_map app]. destruct a; [|exists O; constructor].
    assert (Hc2 : cph s1 = CRunning) by (cbn in Hc1; congruence).
    destruct (IH s1 Hc2) as [n Hn]. cbn [rd fr set_io set_msgq] in Hr1, Hf1. rewrite Hr1, Hf1 in Hn.
    rewrite (drain_pending _ _ _ _ _ n Ef) in Hn. fold (pkts (trace fuel s1)) in *.
    destruct (pkts (trace fuel s1)); [exists O; constructor|]. cbn in Hn. inversion Hn.
Qed.

(* ---- run() on a Context that recorded a disconnection (C17) ----------------------------------------------------------------- *)
Lemma settle_wire_grows s : wbudget s = None -> cph s = CRunning ->
  wire_ev (settle s) = wire_ev s ++ (if hold s || negb (ctx_alive s) then [] else spec_wire s (trace (settle_fuel s) s)).
Proof.
  intros Hb Hc. unfold settle. destruct (hold s || negb (ctx_alive s)); [rewrite app_nil_r; reflexivity|].
  destruct (settle_loop_trace (settle_fuel s) s Hc) as [Hv _].
  assert (Hw : wire_ev (settle_loop (settle_fuel s) s) = wire_ev (run_q s (trace (settle_fuel s) s))) by (unfold view in Hv; congruence).
  rewrite Hw. apply WireP.wire_history. exact Hb.
Qed.

(* the session has not expired: before anything else - before any request queued meanwhile, before any answer to what the
   server sends - run() writes the retransmit queue, in order *)
Theorem start_run_resumes s t : wbudget s = None -> disc_ts (c s) = Some t -> session_expired (c s) t = false ->
  exists tail, wire_ev (start_run s) = wire_ev s ++ concat (map snd (retx (c s))) ++ tail.
Proof.
  intros Hb Hd He. unfold start_run. cbv zeta. cbn [c set_cph]. rewrite Hd, He.
  set (s2 := set_c (set_cph s CIdle) (with_sei_ts (c (set_cph s CIdle)) (sei (c (set_cph s CIdle))) None)).
  assert (Hb2 : wbudget s2 = None) by exact Hb.
  destruct (retransmit_wire (retx (c s2)) s2 Hb2) as (Hw & Hok & _ & _ & _).
  destruct (retransmit s2 (retx (c s2))) as [s3 ok] eqn:Er. cbn [fst snd] in Hw, Hok. subst ok.
  assert (Hb3 : wbudget (set_cph s3 CRunning) = None).
  { cbn [wbudget set_cph]. pose proof (qstep_wb_none) as _. 
    assert (H : wbudget (fst (retransmit s2 (retx (c s2)))) = None).
    { generalize (retx (c s2)) as l. generalize s2 Hb2. clear. intros s0 H0 l. revert s0 H0.
      induction l as [|[a pkt] l IH]; intros s0 H0; cbn [retransmit]; [exact H0|].
      rewrite write_nofault_snd, write_nofault_fst by exact H0. apply IH. reflexivity. }
    rewrite Er in H. exact H. }
  rewrite (settle_wire_grows (set_cph s3 CRunning) Hb3 eq_refl). cbn [wire_ev set_cph]. rewrite Hw.
  change (wire_ev s2) with (wire_ev s). change (retx (c s2)) with (retx (c s)). rewrite <- app_assoc. eexists. reflexivity.
Qed.

(* the session has expired: the retransmit queue and the awaited acknowledgements are dropped - nothing of the old session
   is re-sent - and every operation that was awaiting an acknowledgement is resolved (its next poll reports ContextExited) *)
Theorem start_run_expired s t : disc_ts (c s) = Some t -> session_expired (c s) t = true ->
  let s1 := reset_session (set_cph s CIdle) in
  retx (c s1) = [] /\ awaiting (c s1) = [] /\ subs (c s1) = [] /\
  (forall a i ph, In (a, (i, ph)) (awaiting (c s)) -> ~ unresolved s1 i (nph ph)) /\
  start_run s = settle (set_cph (set_c s1 (with_sei_ts (c s1) (sei (c s1)) None)) CRunning).
Proof.
  intros Hd He. cbv zeta. split; [reflexivity|]. split; [reflexivity|]. split; [reflexivity|]. split.
  - intros a i ph Hin. destruct (reset_session_sum (set_cph s CIdle)) as (_ & _ & _ & _ & _ & Hn). apply (Hn a i ph). exact Hin.
  - unfold start_run. cbv zeta. cbn [c set_cph]. rewrite Hd, He. cbn [retransmit]. reflexivity.
Qed.
