(* Invariants of every state reachable through script events (Model/Sim.v step), stage A: the
   framing state stays well formed, so the model's own failure values are unreachable and the
   client never reports a panic from the framing / decoding path. *)
From Poster Require Import Model.Sim Spec.Frames Proofs.BytesP Proofs.ListP Proofs.RxP Proofs.FramingP
  Proofs.FramingMainP Proofs.ClientP.
From Coq Require Import ZArith ZifyN ZifyBool ZifyNat.
Arguments N.add : simpl never. Arguments N.mul : simpl never. Arguments N.sub : simpl never.
Arguments N.ltb : simpl never. Arguments N.leb : simpl never. Arguments N.eqb : simpl never.

(* ---- the transport/framing component of the state is touched only by set_io ----------------- *)
Definition io (s : sys) : reader * rx * list obs := (rd s, fr s, tail_ev s).

Lemma io_complete s i ph v : io (complete s i ph v) = io s.
Proof. unfold complete. destruct (alookup i (ops s)); reflexivity. Qed.
Lemma io_cancel s i ph : io (cancel s i ph) = io s.
Proof. unfold cancel. destruct (alookup i (ops s)); reflexivity. Qed.
Lemma io_close s j : io (close_stream_sender s j) = io s.
Proof. unfold close_stream_sender. destruct (alookup j (streams s)); reflexivity. Qed.
Lemma io_write s p : io (fst (write s p)) = io s.
Proof. unfold write. destruct (wbudget s); [destruct (_ <=? _)|]; reflexivity. Qed.
Lemma io_ack_waiter s a p : io (ack_waiter s a p) = io s.
Proof. unfold ack_waiter. destruct (alookup a (awaiting (c s))) as [[i ph]|]; [|reflexivity]. rewrite io_complete. reflexivity. Qed.
Lemma io_dispatch s sid p : io (dispatch s sid p) = io s.
Proof.
  unfold dispatch. destruct (alookup sid (subs (c s))) as [j|]; [|reflexivity].
  destruct (alookup j (streams s)) as [st|]; [destruct (st_recv st)|]; rewrite ?io_close; reflexivity.
Qed.
Lemma io_handle_packet s p : io (fst (handle_packet s p)) = io s.
Proof.
  unfold handle_packet. cbv zeta. destruct (rk p); cbn [fst]; rewrite ?io_ack_waiter, ?io_write; try reflexivity.
  destruct (r_qos p =? 0); cbn [fst]; rewrite ?io_write;
    repeat match goal with
    | |- context [if ?b then _ else _] => destruct b
    | |- context [match pub_subid p with _ => _ end] => destruct (pub_subid p)
    end; rewrite ?io_dispatch; reflexivity.
Qed.
Lemma io_set_c s x : io (set_c s x) = io s. Proof. reflexivity. Qed.
Ltac io_simpl := repeat (rewrite ?io_set_c, ?io_cancel, ?io_write, ?io_complete, ?io_close).
Lemma io_handle_message s m : io (fst (handle_message s m)) = io s.
Proof.
  unfold handle_message. cbv zeta. destruct m as [i p|i ph a p|i a sid p].
  - destruct (negb (size_ok (c s) p)); cbn [fst]; [apply io_complete|].
    destruct (negb (snd (write s p))); cbn [fst]; io_simpl; reflexivity.
  - destruct (negb (size_ok (c s) p)); cbn [fst]; [apply io_complete|].
    destruct (ptype_of p =? 3).
    + destruct (quota (c s) =? 0); cbn [fst]; [apply io_complete|].
      destruct (negb (snd (write _ p))); cbn [fst]; io_simpl; reflexivity.
    + destruct (ptype_of p =? 6); destruct (negb (snd (write s p))); cbn [fst]; io_simpl; reflexivity.
  - destruct (negb (size_ok (c s) p)); cbn [fst]; io_simpl; reflexivity.
Qed.

Lemma io_fold {A} (f : sys -> A -> sys) (l : list A) : (forall s a, io (f s a) = io s) ->
  forall s, io (fold_left f l s) = io s.
Proof. intros H. induction l as [|a l IH]; intros s; cbn [fold_left]; [reflexivity|]. rewrite IH. apply H. Qed.

Definition FInv (s : sys) : Prop := (exists W, Inv (fr s) W) /\ nonempty_segs (rd s).
Definition clean (l : list obs) : Prop := ~ In (ORun RunPanic) l /\ ~ In (OConn ConnPanic) l.
Definition Good (s : sys) : Prop := FInv s /\ clean (tail_ev s).

Lemma Good_io s s' : io s' = io s -> Good s -> Good s'.
Proof. unfold io, Good, FInv. intros H. inversion H as [[H1 H2 H3]]. rewrite H1, H2, H3. auto. Qed.

Lemma clean_app l o : clean l -> o <> ORun RunPanic -> o <> OConn ConnPanic -> clean (l ++ [o]).
Proof.
  unfold clean. intros [H1 H2] Ha Hb. split; intros Hin; apply in_app_or in Hin; destruct Hin as [Hin|[Hin|[]]]; auto.
Qed.
Lemma clean_nil : clean []. Proof. split; intros []. Qed.

(* what one framing poll leaves behind, from a good state *)
Lemma fpoll_good s : FInv s ->
  match fpoll (poll_fuel (rd s)) (fr s) (rd s) with
  | (FItem bs, f, r) => bs <> [] /\ (exists W, Inv f W) /\ nonempty_segs r
  | (FPending, f, r) | (FEnd, f, r) => (exists W, Inv f W) /\ nonempty_segs r
  | _ => False
  end.
Proof.
  intros [[W HI] Hne].
  pose proof (poll_spec (poll_fuel (rd s)) (fr s) (rd s) W HI Hne (poll_fuel_enough _ _)) as Hp.
  destruct (fpoll (poll_fuel (rd s)) (fr s) (rd s)) as [[o f] r]. destruct o as [bs| | | |]; try contradiction.
  - destruct Hp as [W' [H1 [H2 [_ Hf]]]]. apply frame1_split in Hf. destruct Hf as [_ Hl].
    split; [|eauto]. intros ->. rewrite lenN_nil in Hl. lia.
  - destruct Hp as [H1 [_ [Hs _]]]. split; [eauto|]. unfold nonempty_segs. rewrite Hs. constructor.
  - destruct Hp as [[H1 [_ [Hs _]]]|[_ [_ [H2 [W' H3]]]]]; [|eauto].
    split; [eauto|]. unfold nonempty_segs. rewrite Hs. constructor.
Qed.

Lemma io_exit_run s r : rd (exit_run s r) = rd s /\ fr (exit_run s r) = fr s /\ tail_ev (exit_run s r) = tail_ev s ++ [ORun r].
Proof. unfold exit_run. auto. Qed.
Lemma Good_exit s r : Good s -> r <> RunPanic -> Good (exit_run s r).
Proof.
  intros [HF Hc] Hr. destruct (io_exit_run s r) as [H1 [H2 H3]]. unfold Good, FInv. rewrite H1, H2, H3.
  split; [exact HF|]. apply clean_app; [exact Hc| |discriminate]. intros H. inversion H. contradiction.
Qed.
Lemma Good_set_io s r f : (exists W, Inv f W) -> nonempty_segs r -> clean (tail_ev s) -> Good (set_io s r f).
Proof. intros H1 H2 H3. unfold Good, FInv. cbn. auto. Qed.

Lemma handle_packet_exit_np s p r : snd (handle_packet s p) = Exit r -> r <> RunPanic.
Proof.
  unfold handle_packet. cbv zeta. destruct (rk p); cbn [snd]; try discriminate;
    try (intros H; inversion H; discriminate).
  - destruct (r_qos p =? 0); cbn [snd]; [discriminate|]. destruct (snd (write _ _)); [discriminate|].
    intros H; inversion H; discriminate.
  - destruct (snd (write _ _)); [discriminate|]. intros H; inversion H; discriminate.
  - intros H. inversion H. destruct (r_reason p =? 0); discriminate.
Qed.
Lemma handle_message_exit_np s m r : snd (handle_message s m) = Exit r -> r <> RunPanic.
Proof.
  unfold handle_message. cbv zeta. destruct m as [i p|i ph a p|i a sid p].
  - destruct (negb (size_ok (c s) p)); cbn [snd]; [discriminate|].
    destruct (negb (snd (write s p))); cbn [snd]; [intros H; inversion H; discriminate|].
    destruct (ptype_of p =? 14); [intros H; inversion H; discriminate|discriminate].
  - destruct (negb (size_ok (c s) p)); cbn [snd]; [discriminate|].
    destruct (ptype_of p =? 3).
    + destruct (quota (c s) =? 0); cbn [snd]; [discriminate|].
      destruct (negb (snd (write _ p))); cbn [snd]; [intros H; inversion H; discriminate|discriminate].
    + destruct (ptype_of p =? 6); destruct (negb (snd (write s p))); cbn [snd];
        try discriminate; intros H; inversion H; discriminate.
  - destruct (negb (size_ok (c s) p)); cbn [snd]; [discriminate|].
    destruct (snd (write _ p)); [discriminate|]. intros H; inversion H; discriminate.
Qed.

Lemma run_turn_good s : Good s -> Good (fst (run_turn s)).
Proof.
  intros [HF Hc]. pose proof (fpoll_good s HF) as Hp. unfold run_turn.
  destruct (fpoll (poll_fuel (rd s)) (fr s) (rd s)) as [[o f] r]. destruct o as [bs| | | |]; try contradiction.
  - destruct Hp as [Hne [HI Hs]]. pose proof (Good_set_io s r f HI Hs Hc) as Hg.
    destruct (dec_packet bs) as [p| |] eqn:Ed.
    + destruct (handle_packet (set_io s r f) p) as [s1 a] eqn:Eh.
      assert (Hg1 : Good s1).
      { eapply Good_io; [|exact Hg]. replace s1 with (fst (handle_packet (set_io s r f) p)) by (rewrite Eh; reflexivity).
        apply io_handle_packet. }
      destruct a as [|res]; cbn [fst]; [exact Hg1|]. apply Good_exit; [exact Hg1|].
      eapply handle_packet_exit_np. rewrite Eh. reflexivity.
    + cbn [fst]. apply Good_exit; [exact Hg|discriminate].
    + exfalso. exact (dec_packet_np bs Hne Ed).
  - destruct Hp as [HI Hs]. pose proof (Good_set_io s r f HI Hs Hc) as Hg.
    destruct (msgq (set_io s r f)) as [|m q] eqn:Eq.
    + destruct (live_senders (set_io s r f) =? 0); cbn [fst]; [apply Good_exit; [exact Hg|discriminate]|exact Hg].
    + destruct (handle_message (set_msgq (set_io s r f) q) m) as [s1 a] eqn:Eh.
      assert (Hg1 : Good s1).
      { eapply Good_io; [|exact Hg]. replace s1 with (fst (handle_message (set_msgq (set_io s r f) q) m)) by (rewrite Eh; reflexivity).
        rewrite io_handle_message. reflexivity. }
      destruct a as [|res]; cbn [fst]; [exact Hg1|]. apply Good_exit; [exact Hg1|].
      eapply handle_message_exit_np. rewrite Eh. reflexivity.
  - destruct Hp as [HI Hs]. cbn [fst]. apply Good_exit; [apply Good_set_io; assumption|discriminate].
Qed.

Lemma conn_turn_good s : Good s -> Good (conn_turn s).
Proof.
  intros [HF Hc]. pose proof (fpoll_good s HF) as Hp. unfold conn_turn.
  destruct (fpoll (poll_fuel (rd s)) (fr s) (rd s)) as [[o f] r]. destruct o as [bs| | | |]; try contradiction.
  - destruct Hp as [Hne [HI Hs]].
    assert (Hfin : forall s0 r0, Good s0 -> r0 <> ConnPanic ->
              Good (set_tail (set_cph s0 CIdle) (tail_ev s0 ++ [OConn r0]))).
    { intros s0 r0 [[HI0 Hs0] Hc0] Hr. split; [split; assumption|]. cbn [tail_ev set_tail].
      apply clean_app; [exact Hc0|discriminate|]. intros H. inversion H. contradiction. }
    pose proof (Good_set_io s r f HI Hs Hc) as Hg.
    destruct (dec_packet bs) as [p| |] eqn:Ed.
    + destruct (rk p); try (apply Hfin; [exact Hg|discriminate]).
      apply Hfin; [eapply Good_io; [|exact Hg]; reflexivity|].
      unfold conn_result. destruct (128 <=? r_reason p); [discriminate|].
      destruct (pnum 41 (r_props p)) as [[|?]|]; discriminate.
    + apply Hfin; [exact Hg|discriminate].
    + exfalso. exact (dec_packet_np bs Hne Ed).
  - destruct Hp as [HI Hs]. apply Good_set_io; assumption.
  - destruct Hp as [HI Hs]. pose proof (Good_set_io s r f HI Hs Hc) as [[HI0 Hs0] Hc0].
    split; [split; assumption|]. cbn [tail_ev set_tail set_cph]. apply clean_app; [exact Hc0|discriminate|discriminate].
Qed.

Lemma settle_loop_good fuel : forall s, Good s -> Good (settle_loop fuel s).
Proof.
  induction fuel as [|fuel IH]; intros s Hg; cbn [settle_loop]; [exact Hg|].
  destruct (cph s); [exact Hg|apply conn_turn_good; exact Hg|].
  pose proof (run_turn_good s Hg) as H. destruct (run_turn s) as [s1 t]. cbn [fst] in H.
  destruct t; [exact H|apply IH; exact H].
Qed.
Lemma settle_good s : Good s -> Good (settle s).
Proof. intros Hg. unfold settle. destruct (hold s || negb (ctx_alive s)); [exact Hg|apply settle_loop_good; exact Hg]. Qed.

(* ---- the handle side never touches the transport ------------------------------------------------- *)
Lemma io_put_op s i o : io (put_op s i o) = io s. Proof. reflexivity. Qed.
Lemma io_drop_recv s j : io (drop_recv s j) = io s.
Proof. unfold drop_recv. destruct (alookup j (streams s)); reflexivity. Qed.
Lemma io_send s m s' : send s m = Some s' -> io s' = io s.
Proof. unfold send. destruct (ctx_alive s); [|discriminate]. intros H. inversion H. reflexivity. Qed.
Lemma io_first_poll s i o : io (fst (first_poll s i o)) = io s.
Proof.
  unfold first_poll. cbv zeta.
  assert (Henq : forall s0 pid m, io s0 = io s ->
     io (fst (match send s0 m with Some s1 => pending s1 i o Wait1 pid | None => finish s0 i o RErrExited end)) = io s).
  { intros s0 pid m H0. destruct (send s0 m) as [s1|] eqn:Es; cbn [fst pending finish]; rewrite ?io_put_op;
      [rewrite (io_send _ _ _ Es)|]; exact H0. }
  destruct (o_kind o) as [po|so|uo| |d].
  - destruct (po_qos po =? 0).
    + destruct (enc_publish po 0); [apply Henq; reflexivity|reflexivity|reflexivity].
    + destruct (alloc_pid (pid_ctr s)) as [pid ctr].
      destruct (enc_publish po pid); [apply Henq; reflexivity|reflexivity|reflexivity].
  - destruct (alloc_pid (pid_ctr s)) as [pid ctr]. destruct (alloc_subid (sub_ctr s)) as [sid sctr].
    destruct (enc_subscribe so pid sid); [|reflexivity|reflexivity].
    match goal with |- context [send ?s0 ?m] => destruct (send s0 m) as [s1|] eqn:Es end;
      cbn [fst pending finish]; rewrite ?io_put_op; [rewrite (io_send _ _ _ Es)|]; reflexivity.
  - destruct (alloc_pid (pid_ctr s)) as [pid ctr].
    destruct (enc_unsubscribe uo pid); [apply Henq; reflexivity|reflexivity|reflexivity].
  - apply Henq; reflexivity.
  - destruct (enc_disconnect d); [apply Henq; reflexivity|reflexivity|reflexivity].
Qed.
Lemma io_finish s i o r : io (fst (finish s i o r)) = io s. Proof. reflexivity. Qed.
Lemma io_poll_wait1 s i o : io (fst (poll_wait1 s i o)) = io s.
Proof.
  unfold poll_wait1. destruct (o_ch1 o) as [|v|]; [reflexivity| |].
  - destruct (o_kind o) as [po|so|uo| |d]; destruct v as [|p| |]; cbn [fst finish]; rewrite ?io_put_op, ?io_drop_recv;
      try reflexivity; try (destruct (rk p); reflexivity).
    destruct (po_qos po =? 1); destruct (rk p); cbn [fst finish]; try reflexivity;
      try (destruct (128 <=? r_reason p); reflexivity).
    destruct (128 <=? r_reason p); [reflexivity|].
    match goal with |- context [send ?s0 ?m] => destruct (send s0 m) as [s1|] eqn:Es end;
      cbn [fst pending finish]; rewrite ?io_put_op; [rewrite (io_send _ _ _ Es)|]; reflexivity.
  - destruct (o_kind o); cbn [fst finish]; rewrite ?io_put_op, ?io_drop_recv; reflexivity.
Qed.
Lemma io_poll_wait2 s i o : io (fst (poll_wait2 s i o)) = io s.
Proof.
  unfold poll_wait2. destruct (o_ch2 o) as [|v|]; [reflexivity| |reflexivity].
  destruct v as [|p| |]; try reflexivity. destruct (rk p); reflexivity.
Qed.
Lemma io_poll_op s i : io (fst (poll_op s i)) = io s.
Proof.
  unfold poll_op. destruct (alookup i (ops s)) as [o|]; [|reflexivity].
  destruct (o_phase o); [apply io_first_poll|apply io_poll_wait1|apply io_poll_wait2|reflexivity].
Qed.
Lemma io_set_ops s o : io (set_ops s o) = io s. Proof. reflexivity. Qed.
Lemma io_drop_op s i : io (drop_op s i) = io s.
Proof.
  unfold drop_op. destruct (alookup i (ops s)) as [o|]; [|reflexivity].
  destruct (o_kind o); try reflexivity.
  destruct (match alookup i (streams s) with Some st => negb (st_taken st) | None => false end);
    rewrite io_set_ops, ?io_drop_recv; reflexivity.
Qed.
Lemma io_poll_stream s j : io (fst (poll_stream s j)) = io s.
Proof.
  unfold poll_stream. destruct (alookup j (streams s)) as [st|]; [|reflexivity].
  destruct (negb (st_taken st)); [reflexivity|]. destruct (st_buf st); [destruct (st_sender st)|]; reflexivity.
Qed.
Lemma io_reset_session s : io (reset_session s) = io s.
Proof.
  unfold reset_session. cbv zeta. rewrite io_set_c.
  rewrite io_fold by (intros; apply io_close). rewrite io_fold by (intros; apply io_cancel). reflexivity.
Qed.
Lemma io_drop_msg s m : io (drop_msg s m) = io s.
Proof. destruct m; cbn [drop_msg]; rewrite ?io_close, ?io_cancel; reflexivity. Qed.
Lemma drop_ctx_rd s : rd (drop_ctx s) = rd s /\ fr (drop_ctx s) = fr s /\ tail_ev (drop_ctx s) = tail_ev s.
Proof.
  unfold drop_ctx. cbv zeta. cbn [rd fr tail_ev].
  pose proof (io_fold drop_msg (msgq (reset_session s)) io_drop_msg (reset_session s)) as H.
  rewrite io_reset_session in H. unfold io in H. inversion H as [[H1 H2 H3]]. auto.
Qed.
Lemma io_retransmit l : forall s, io (fst (retransmit s l)) = io s.
Proof.
  induction l as [|[a pkt] l IH]; intros s; cbn [retransmit]; [reflexivity|].
  destruct (snd (write s pkt)); [rewrite IH|cbn [fst]]; apply io_write.
Qed.

(* ---- every script event ------------------------------------------------------------------------------ *)
Definition ev_ok (e : event) : Prop :=
  match e with
  | EConnect o => enc_connect o <> Panic     (* CONNECT within MQTT's 268435455-byte packet limit *)
  | EAuth o => enc_auth o <> Panic
  | _ => True
  end.

Lemma Good_begin s : FInv s -> Good (begin_ev s).
Proof. intros H. split; [exact H|apply clean_nil]. Qed.
Lemma FInv_io s s' : rd s' = rd s -> fr s' = fr s -> FInv s -> FInv s'.
Proof. unfold FInv. intros -> ->. auto. Qed.

Lemma Good_fin_conn s r : Good s -> r <> ConnPanic -> Good (set_tail (set_cph s CIdle) (tail_ev s ++ [OConn r])).
Proof.
  intros [[HI0 Hs0] Hc0] Hr. split; [split; assumption|]. cbn [tail_ev set_tail].
  apply clean_app; [exact Hc0|discriminate|]. intros H. inversion H. contradiction.
Qed.
Lemma start_conn_good s pkt sei : Good s -> pkt <> Panic -> Good (start_conn s pkt sei).
Proof.
  intros Hg Hp. unfold start_conn. cbv zeta. destruct pkt as [b| |]; [|apply Good_fin_conn; [exact Hg|discriminate]|contradiction].
  set (s1 := match sei with Some v => set_c s (with_sei_ts (c s) v (disc_ts (c s))) | None => s end).
  assert (Hg1 : Good s1) by (subst s1; destruct sei; [eapply Good_io; [|exact Hg]; reflexivity|exact Hg]).
  assert (Hg2 : Good (fst (write s1 b))) by (eapply Good_io; [apply io_write|exact Hg1]).
  destruct (snd (write s1 b)).
  - apply settle_good. eapply Good_io; [|exact Hg2]. reflexivity.
  - apply Good_fin_conn; [exact Hg2|discriminate].
Qed.
Lemma start_run_good s : Good s -> Good (start_run s).
Proof.
  intros Hg. unfold start_run. cbv zeta.
  assert (Hg0 : Good (set_cph s CIdle)) by (eapply Good_io; [|exact Hg]; reflexivity).
  destruct (disc_ts (c (set_cph s CIdle))) as [t|].
  - set (s1 := if session_expired (c (set_cph s CIdle)) t then reset_session (set_cph s CIdle) else set_cph s CIdle).
    assert (Hg1 : Good s1) by (subst s1; destruct (session_expired _ _); [eapply Good_io; [apply io_reset_session|exact Hg0]|exact Hg0]).
    set (s2 := set_c s1 (with_sei_ts (c s1) (sei (c s1)) None)).
    assert (Hg2 : Good s2) by (eapply Good_io; [|exact Hg1]; reflexivity).
    pose proof (io_retransmit (retx (c s2)) s2) as Hr.
    destruct (retransmit s2 (retx (c s2))) as [s3 ok]. cbn [fst] in Hr.
    assert (Hg3 : Good s3) by (eapply Good_io; [exact Hr|exact Hg2]).
    destruct ok.
    + apply settle_good. eapply Good_io; [|exact Hg3]. reflexivity.
    + apply Good_exit; [exact Hg3|discriminate].
  - apply settle_good. eapply Good_io; [|exact Hg0]. reflexivity.
Qed.

Lemma nonempty_snoc rd0 b : nonempty_segs rd0 -> b <> [] ->
  nonempty_segs (mkrd (segs rd0 ++ [b]) (r_eof rd0) (r_err rd0)).
Proof. unfold nonempty_segs. cbn [segs]. intros H Hb. apply Forall_app. split; [exact H|]. constructor; [exact Hb|constructor]. Qed.

Lemma Good_deliver s b : Good s -> b <> [] ->
  Good (set_io s (mkrd (segs (rd s) ++ [b]) (r_eof (rd s)) (r_err (rd s))) (fr s)).
Proof.
  intros [[HI Hs] Hc] Hb. split; [|exact Hc]. split; [exact HI|]. cbn [rd set_io]. apply nonempty_snoc; assumption.
Qed.

Lemma spin_one_good s i kind ack : Good s -> Good (fst (spin_one s i kind ack)).
Proof.
  intros Hg. unfold spin_one. destruct (negb (memN 0 (handles s))); [exact Hg|]. cbv zeta.
  set (s1 := put_op (set_wire s (wbudget s) []) i (mkop (spin_opts kind) NotStarted CEmpty CEmpty 0)).
  assert (Hg1 : Good s1) by (eapply Good_io; [|exact Hg]; reflexivity).
  pose proof (io_poll_op s1 i) as Hio. destruct (poll_op s1 i) as [s2 o1]. cbn [fst] in Hio.
  assert (Hg2 : Good (settle s2)) by (apply settle_good; eapply Good_io; [exact Hio|exact Hg1]).
  set (pid := match kind, wire_ev (settle s2) with
             | 1, _ :: _ :: _ :: _ :: _ :: a :: b :: _ | 2, _ :: _ :: _ :: _ :: _ :: a :: b :: _ => Some (a * 256 + b)
             | 3, _ :: _ :: a :: b :: _ | 4, _ :: _ :: a :: b :: _ => Some (a * 256 + b)
             | _, _ => None
             end).
  destruct ack; [|destruct pid; exact Hg2]. destruct pid as [p|]; [|exact Hg2]. cbn [fst].
  eapply Good_io; [apply io_set_ops|].
  assert (Hfold : forall l s0, Forall (fun pk : bytes => pk <> []) l -> Good s0 ->
     Good (fold_left (fun s pk =>
               let s := settle (set_io s (mkrd (segs (rd s) ++ [pk]) (r_eof (rd s)) (r_err (rd s))) (fr s)) in
               settle (fst (poll_op s i))) l s0)).
  { induction l as [|pk l IH]; intros s0 Hl Hg0; cbn [fold_left]; [exact Hg0|].
    inversion Hl; subst. apply IH; [assumption|]. cbv zeta. apply settle_good.
    eapply Good_io; [apply io_poll_op|]. apply settle_good. apply Good_deliver; assumption. }
  apply Hfold; [|exact Hg2].
  unfold spin_acks. repeat match goal with |- context [match ?k with _ => _ end] => destruct k end; repeat constructor; discriminate.
Qed.
Lemma spin_good fuel : forall s i kind ack, Good s -> Good (fst (spin fuel s i kind ack)).
Proof.
  induction fuel as [|fuel IH]; intros s i kind ack Hg; cbn [spin]; [exact Hg|].
  pose proof (spin_one_good s i kind ack Hg) as H1. destruct (spin_one s i kind ack) as [s1 o1]. cbn [fst] in H1.
  pose proof (IH s1 (i + 1) kind ack H1) as H2. destruct (spin fuel s1 (i + 1) kind ack) as [s2 o2]. exact H2.
Qed.

(* observations produced by polling an operation or a stream are never run()/connect() results *)
Definition op_obs (o : obs) : Prop := match o with ORun _ | OConn _ => False | _ => True end.
Lemma first_poll_obs s i o : Forall op_obs (snd (first_poll s i o)).
Proof.
  unfold first_poll. cbv zeta.
  assert (Henq : forall s0 pid m, Forall op_obs
     (snd (match send s0 m with Some s1 => pending s1 i o Wait1 pid | None => finish s0 i o RErrExited end))).
  { intros s0 pid m. destruct (send s0 m); repeat constructor. }
  destruct (o_kind o) as [po|so|uo| |d].
  - destruct (po_qos po =? 0).
    + destruct (enc_publish po 0); [apply Henq|repeat constructor|repeat constructor].
    + destruct (alloc_pid (pid_ctr s)) as [pid ctr].
      destruct (enc_publish po pid); [apply Henq|repeat constructor|repeat constructor].
  - destruct (alloc_pid (pid_ctr s)) as [pid ctr]. destruct (alloc_subid (sub_ctr s)) as [sid sctr].
    destruct (enc_subscribe so pid sid); [|repeat constructor|repeat constructor].
    match goal with |- context [send ?s0 ?m] => destruct (send s0 m) end; repeat constructor.
  - destruct (alloc_pid (pid_ctr s)) as [pid ctr].
    destruct (enc_unsubscribe uo pid); [apply Henq|repeat constructor|repeat constructor].
  - apply Henq.
  - destruct (enc_disconnect d); [apply Henq|repeat constructor|repeat constructor].
Qed.
Lemma poll_wait1_obs s i o : Forall op_obs (snd (poll_wait1 s i o)).
Proof.
  unfold poll_wait1. destruct (o_ch1 o) as [|v|]; [repeat constructor| |].
  - destruct (o_kind o) as [po|so|uo| |d]; destruct v as [|p| |]; try (repeat constructor; fail);
      try (destruct (rk p); repeat constructor; fail).
    destruct (po_qos po =? 1); destruct (rk p); try (repeat constructor; fail).
    destruct (128 <=? r_reason p); [repeat constructor|].
    match goal with |- context [send ?s0 ?m] => destruct (send s0 m) end; repeat constructor.
  - destruct (o_kind o); repeat constructor.
Qed.
Lemma poll_wait2_obs s i o : Forall op_obs (snd (poll_wait2 s i o)).
Proof.
  unfold poll_wait2. destruct (o_ch2 o) as [|v|]; try (repeat constructor; fail).
  destruct v as [|p| |]; try (repeat constructor; fail). destruct (rk p); repeat constructor.
Qed.
Lemma poll_op_obs s i : Forall op_obs (snd (poll_op s i)).
Proof.
  unfold poll_op. destruct (alookup i (ops s)) as [o|]; [|repeat constructor].
  destruct (o_phase o); [apply first_poll_obs|apply poll_wait1_obs|apply poll_wait2_obs|repeat constructor].
Qed.
Lemma poll_stream_obs s j : Forall op_obs (snd (poll_stream s j)).
Proof.
  unfold poll_stream. destruct (alookup j (streams s)) as [st|]; [|repeat constructor].
  destruct (negb (st_taken st)); [repeat constructor|]. destruct (st_buf st); [destruct (st_sender st)|]; repeat constructor.
Qed.
Lemma spin_one_obs s i kind ack : Forall op_obs (snd (spin_one s i kind ack)).
Proof.
  unfold spin_one. destruct (negb (memN 0 (handles s))); [constructor|]. cbv zeta.
  destruct (poll_op _ i) as [s2 o1].
  set (pid := match kind, wire_ev (settle s2) with
             | 1, _ :: _ :: _ :: _ :: _ :: a :: b :: _ | 2, _ :: _ :: _ :: _ :: _ :: a :: b :: _ => Some (a * 256 + b)
             | 3, _ :: _ :: a :: b :: _ | 4, _ :: _ :: a :: b :: _ => Some (a * 256 + b)
             | _, _ => None
             end). clearbody pid. revert pid.
  intros pid. destruct ack; [|destruct pid; repeat constructor]. destruct pid; [|repeat constructor].
  cbn [snd]. constructor; [exact I|]. match goal with |- context [if ?b then _ else _] => destruct b end; repeat constructor.
Qed.
Lemma spin_obs fuel : forall s i kind ack, Forall op_obs (snd (spin fuel s i kind ack)).
Proof.
  induction fuel as [|fuel IH]; intros s i kind ack; cbn [spin]; [constructor|].
  pose proof (spin_one_obs s i kind ack) as H1. destruct (spin_one s i kind ack) as [s1 o1]. cbn [snd] in H1.
  pose proof (IH s1 (i + 1) kind ack) as H2. destruct (spin fuel s1 (i + 1) kind ack) as [s2 o2]. cbn [snd] in *.
  apply Forall_app. auto.
Qed.

Definition no_panic_obs (l : list obs) : Prop := ~ In (ORun RunPanic) l /\ ~ In (OConn ConnPanic) l.

Lemma end_ev_clean s pre : Forall op_obs pre -> clean (tail_ev s) -> no_panic_obs (end_ev s pre).
Proof.
  intros Hp [H1 H2]. unfold end_ev, no_panic_obs. rewrite Forall_forall in Hp.
  split; intros Hin; apply in_app_or in Hin; destruct Hin as [Hin|Hin].
  - apply Hp in Hin. exact Hin.
  - apply in_app_or in Hin. destruct Hin as [Hin|Hin]; [|auto]. destruct (wire_ev s); [destruct Hin|destruct Hin as [Hin|[]]; discriminate].
  - apply Hp in Hin. exact Hin.
  - apply in_app_or in Hin. destruct Hin as [Hin|Hin]; [|auto]. destruct (wire_ev s); [destruct Hin|destruct Hin as [Hin|[]]; discriminate].
Qed.

(* every event, from every state whose framing component is well formed: the framing component
   stays well formed and the event reports no panic of connect() or run() *)
Theorem step_good s e : FInv s -> ev_ok e ->
  FInv (fst (step s e)) /\ no_panic_obs (snd (step s e)).
Proof.
  intros HF Hok. pose proof (Good_begin s HF) as Hg. unfold step. cbv zeta.
  set (s0 := begin_ev s) in *.
  assert (Hfin : forall s1 pre, Good s1 -> Forall op_obs pre -> FInv (fst (s1, end_ev s1 pre)) /\ no_panic_obs (snd (s1, end_ev s1 pre))).
  { intros s1 pre [H1 H2] Hp. cbn [fst snd]. split; [exact H1|apply end_ev_clean; assumption]. }
  destruct e; cbn [ev_ok] in Hok.
  - destruct (negb (ctx_alive s0)); (apply Hfin; [|constructor]); [exact Hg|]. apply start_conn_good; assumption.
  - destruct (negb (ctx_alive s0)); (apply Hfin; [|constructor]); [exact Hg|]. apply start_conn_good; assumption.
  - destruct (negb (ctx_alive s0)); (apply Hfin; [|constructor]); [exact Hg|]. apply start_run_good; exact Hg.
  - destruct b as [|b0 b]; (apply Hfin; [|constructor]); apply settle_good; [exact Hg|].
    apply Good_deliver; [exact Hg|discriminate].
  - apply Hfin; [|constructor]. apply settle_good. destruct Hg as [[HI Hs] Hc]. split; [split; [exact HI|exact Hs]|exact Hc].
  - apply Hfin; [|constructor]. apply settle_good. destruct Hg as [[HI Hs] Hc]. split; [split; [exact HI|exact Hs]|exact Hc].
  - apply Hfin; [|constructor]. eapply Good_io; [|exact Hg]. reflexivity.
  - apply Hfin; [exact Hg|constructor].
  - destruct (memN h (handles s0)); (apply Hfin; [|repeat constructor]); [|exact Hg].
    eapply Good_io; [|exact Hg]. reflexivity.
  - pose proof (io_poll_op s0 i) as Hio. pose proof (poll_op_obs s0 i) as Hob.
    destruct (poll_op s0 i) as [s1 o]. cbn [fst snd] in *. apply Hfin; [|exact Hob].
    apply settle_good. eapply Good_io; [exact Hio|exact Hg].
  - apply Hfin; [|constructor]. apply settle_good. eapply Good_io; [apply io_drop_op|exact Hg].
  - destruct (alookup i (streams s0)) as [st|]; [|apply Hfin; [exact Hg|repeat constructor]].
    destruct (op_phase_of s0 i) as [[| | |]|]; try (apply Hfin; [exact Hg|repeat constructor]).
    destruct (st_recv st && negb (st_taken st)); (apply Hfin; [|repeat constructor]); [|exact Hg].
    eapply Good_io; [|exact Hg]. reflexivity.
  - pose proof (io_poll_stream s0 j) as Hio. pose proof (poll_stream_obs s0 j) as Hob.
    destruct (poll_stream s0 j) as [s1 o]. cbn [fst snd] in *. apply Hfin; [|exact Hob].
    apply settle_good. eapply Good_io; [exact Hio|exact Hg].
  - assert (Hdr : Good (set_streams (drop_recv s0 j) (aremove j (streams (drop_recv s0 j))))).
    { eapply Good_io; [|exact Hg]. pose proof (io_drop_recv s0 j) as H. unfold io in *. inversion H as [[H1 H2 H3]].
      cbn [rd fr tail_ev set_streams]. rewrite H1, H2, H3. reflexivity. }
    destruct (op_phase_of s0 j) as [[| | |]|]; (apply Hfin; [|constructor]); apply settle_good; assumption.
  - destruct (memN h (handles s0) && negb (memN h2 (handles s0))); (apply Hfin; [|constructor]); [|exact Hg].
    eapply Good_io; [|exact Hg]. reflexivity.
  - apply Hfin; [|constructor]. apply settle_good. eapply Good_io; [|exact Hg]. reflexivity.
  - apply Hfin; [|constructor]. destruct (drop_ctx_rd s0) as [H1 [H2 H3]]. destruct Hg as [HFg Hc].
    split; [eapply FInv_io; eassumption|rewrite H3; exact Hc].
  - apply Hfin; [|constructor]. eapply Good_io; [|exact Hg]. reflexivity.
  - apply Hfin; [|constructor]. apply settle_good. eapply Good_io; [|exact Hg]. reflexivity.
  - destruct (ctx_alive s0); (apply Hfin; [|constructor]); [|exact Hg]. eapply Good_io; [|exact Hg]. reflexivity.
  - apply Hfin; [|constructor]. destruct Hg as [_ Hc]. split; [|exact Hc]. split; [exists []; apply Inv_init|constructor].
  - pose proof (spin_good (N.to_nat n) s0 base kind ack Hg) as H1. pose proof (spin_obs (N.to_nat n) s0 base kind ack) as H2.
    destruct (spin (N.to_nat n) s0 base kind ack) as [s1 o]. cbn [fst snd] in *. destruct H1 as [H1 _].
    split; [eapply FInv_io; [| |exact H1]; reflexivity|].
    rewrite Forall_forall in H2. split; intros Hin; apply H2 in Hin; exact Hin.
Qed.

(* all states reachable by script events from the initial state *)
Fixpoint final_state (s : sys) (evs : list event) : sys :=
  match evs with [] => s | e :: r => final_state (fst (step s e)) r end.
Lemma FInv_init : FInv sys_init.
Proof. split; [exists []; apply Inv_init|constructor]. Qed.

Theorem run_events_no_panic evs : Forall ev_ok evs -> forall s k, FInv s ->
  forall j o, In (j, o) (run_events s k evs) -> o <> ORun RunPanic /\ o <> OConn ConnPanic.
Proof.
  induction 1 as [|e evs He Hevs IH]; intros s k HF j o Hin; cbn [run_events] in Hin; [destruct Hin|].
  destruct (step_good s e HF He) as [HF1 [Hn1 Hn2]]. destruct (step s e) as [s1 ob]. cbn [fst snd] in *.
  apply in_app_or in Hin. destruct Hin as [Hin|Hin].
  - apply in_map_iff in Hin. destruct Hin as [x [Hx Hi]]. inversion Hx; subst.
    split; intros ->; contradiction.
  - eapply IH; eassumption.
Qed.
Corollary run_script_no_panic evs : Forall ev_ok evs ->
  forall j o, In (j, o) (run_script evs) -> o <> ORun RunPanic /\ o <> OConn ConnPanic.
Proof. intros H. apply run_events_no_panic; [exact H|apply FInv_init]. Qed.
