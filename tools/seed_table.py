#!/usr/bin/env python3
"""prints the seeded-defect table of DESIGN.md 11.5 from seeded/*/meta.json"""
import json, glob, os, re
rows = []
for d in sorted(glob.glob('/verif/seeded/*')):
    m = json.load(open(d + '/meta.json'))
    p = m['property']
    det = (m.get('detail') or {}).get(p)
    own = 'no' if not det else ('yes, input' if not det.get('no_failing_input') else 'yes')
    what = ''
    pd = open(d + '/patch.diff').read()
    files = sorted(set(re.findall(r'^\+\+\+ b/(\S+)', pd, flags=re.M)))
    notes = ''
    if os.path.exists(d + '/notes.md'):
        for l in open(d + '/notes.md'):
            l = l.strip()
            if l and not l.startswith('#'):
                notes = l
                break
    rows.append('| %s | %s | %s | %s | %s |' % (os.path.basename(d), p, ', '.join(f.replace('src/', '') for f in files), own,
                                            ' '.join(m.get('detected_by') or [])))
print('| seed | written against | file | own check | all checks that report it |')
print('|---|---|---|---|---|')
print('\n'.join(rows))
