(* Step lemmas about the Context handlers and the operation futures (Model/Client.v). *)
From Poster Require Import Model.Client Proofs.BytesP.
From Coq Require Import ZArith ZifyN ZifyBool ZifyNat.
Ltac Zify.zify_post_hook ::= Z.div_mod_to_equations.
Arguments N.add : simpl never. Arguments N.mul : simpl never. Arguments N.sub : simpl never.
Arguments N.ltb : simpl never. Arguments N.leb : simpl never. Arguments N.eqb : simpl never.
Arguments N.shiftr : simpl never. Arguments N.lor : simpl never.

Definition msg_pkt (m : cmsg) : bytes :=
  match m with MFire _ p => p | MAwait _ _ _ p => p | MSub _ _ _ p => p end.
Definition msg_op (m : cmsg) : N * N :=
  match m with MFire i _ => (i, 1) | MAwait i ph _ _ => (i, ph) | MSub i _ _ _ => (i, 1) end.

(* ---- projections of the small state updates --------------------------------------------- *)
Lemma complete_c s i ph v : c (complete s i ph v) = c s.
Proof. unfold complete. destruct (alookup i (ops s)); reflexivity. Qed.
Lemma complete_wire s i ph v : wire_ev (complete s i ph v) = wire_ev s.
Proof. unfold complete. destruct (alookup i (ops s)); reflexivity. Qed.
Lemma complete_streams s i ph v : streams (complete s i ph v) = streams s.
Proof. unfold complete. destruct (alookup i (ops s)); reflexivity. Qed.
Lemma complete_msgq s i ph v : msgq (complete s i ph v) = msgq s.
Proof. unfold complete. destruct (alookup i (ops s)); reflexivity. Qed.
Lemma complete_wbudget s i ph v : wbudget (complete s i ph v) = wbudget s.
Proof. unfold complete. destruct (alookup i (ops s)); reflexivity. Qed.
Lemma cancel_c s i ph : c (cancel s i ph) = c s.
Proof. unfold cancel. destruct (alookup i (ops s)); reflexivity. Qed.
Lemma cancel_wire s i ph : wire_ev (cancel s i ph) = wire_ev s.
Proof. unfold cancel. destruct (alookup i (ops s)); reflexivity. Qed.
Lemma close_c s j : c (close_stream_sender s j) = c s.
Proof. unfold close_stream_sender. destruct (alookup j (streams s)); reflexivity. Qed.
Lemma close_wire s j : wire_ev (close_stream_sender s j) = wire_ev s.
Proof. unfold close_stream_sender. destruct (alookup j (streams s)); reflexivity. Qed.
Lemma close_ops s j : ops (close_stream_sender s j) = ops s.
Proof. unfold close_stream_sender. destruct (alookup j (streams s)); reflexivity. Qed.

(* a dropped future: completing it changes nothing at all (C15) *)
Lemma complete_dropped s i ph v : alookup i (ops s) = None -> complete s i ph v = s.
Proof. unfold complete. intros ->. reflexivity. Qed.

Lemma write_c s p : c (fst (write s p)) = c s.
Proof. unfold write. destruct (wbudget s); [destruct (_ <=? _)|]; reflexivity. Qed.
Lemma write_ops s p : ops (fst (write s p)) = ops s.
Proof. unfold write. destruct (wbudget s); [destruct (_ <=? _)|]; reflexivity. Qed.
Lemma write_streams s p : streams (fst (write s p)) = streams s.
Proof. unfold write. destruct (wbudget s); [destruct (_ <=? _)|]; reflexivity. Qed.
(* a transport without a scripted fault accepts every packet whole: write_all *)
Lemma write_nofault s p : wbudget s = None ->
  write s p = (set_wire s None (wire_ev s ++ p), true).
Proof. unfold write. intros ->. reflexivity. Qed.

(* ---- C12: Maximum Packet Size ----------------------------------------------------------- *)
Lemma size_ok_spec x pkt :
  size_ok x pkt = true <-> (maxpkt x = None \/ exists m, maxpkt x = Some m /\ lenN pkt <= m).
Proof.
  unfold size_ok. destruct (maxpkt x) as [m|]; split; intros H.
  - right. exists m. split; [reflexivity|]. apply N.leb_le. exact H.
  - destruct H as [H|[m' [H1 H2]]]; [discriminate|]. inversion H1; subst. apply N.leb_le. exact H2.
  - left; reflexivity.
  - reflexivity.
Qed.

(* too large: only the request's own oneshot is filled, with MaximumPacketSizeExceeded; the
   context state, the wire, the streams' buffers and the queue are untouched *)
Lemma too_big_rejected s m :
  size_ok (c s) (msg_pkt m) = false ->
  let s' := fst (handle_message s m) in
  snd (handle_message s m) = Continue /\ c s' = c s /\ wire_ev s' = wire_ev s /\
  wbudget s' = wbudget s /\ msgq s' = msgq s /\
  ops s' = ops (complete s (fst (msg_op m)) (snd (msg_op m)) CTooBig).
Proof.
  intros H. destruct m as [i p|i ph a p|i a sid p]; cbn [msg_pkt msg_op fst snd] in *;
    unfold handle_message; rewrite H; cbn [negb fst snd].
  - rewrite complete_c, complete_wire, complete_wbudget, complete_msgq. repeat split; reflexivity.
  - rewrite complete_c, complete_wire, complete_wbudget, complete_msgq. repeat split; reflexivity.
  - rewrite close_c, close_wire, close_ops, complete_c, complete_wire.
    unfold close_stream_sender. destruct (alookup i (streams (complete s i 1 CTooBig)));
      cbn; rewrite ?complete_wbudget, ?complete_msgq; repeat split; reflexivity.
Qed.

Lemma write_nofault_fst s p : wbudget s = None -> fst (write s p) = set_wire s None (wire_ev s ++ p).
Proof. intros H. rewrite write_nofault by exact H. reflexivity. Qed.
Lemma write_nofault_snd s p : wbudget s = None -> snd (write s p) = true.
Proof. intros H. rewrite write_nofault by exact H. reflexivity. Qed.

(* fits (or no limit), no transport fault: the whole packet goes out, except a QoS>0 PUBLISH
   when the send quota is exhausted *)
Lemma fits_written s m :
  size_ok (c s) (msg_pkt m) = true -> wbudget s = None ->
  (forall i ph a p, m = MAwait i ph a p -> ptype_of p = 3 -> quota (c s) <> 0) ->
  wire_ev (fst (handle_message s m)) = wire_ev s ++ msg_pkt m.
Proof.
  intros H Hb Hq. destruct m as [i p|i ph a p|i a sid p]; cbn [msg_pkt] in *; unfold handle_message;
    rewrite H; cbn [negb]; cbv zeta.
  - rewrite write_nofault_snd, write_nofault_fst by exact Hb. cbn [negb fst]. rewrite complete_wire. reflexivity.
  - destruct (ptype_of p =? 3) eqn:E3.
    + apply N.eqb_eq in E3. specialize (Hq i ph a p eq_refl E3).
      replace (quota (c s) =? 0) with false by (symmetry; apply N.eqb_neq; exact Hq).
      rewrite write_nofault_snd, write_nofault_fst by exact Hb. reflexivity.
    + destruct (ptype_of p =? 6); rewrite write_nofault_snd, write_nofault_fst by exact Hb; reflexivity.
  - rewrite write_nofault_snd, write_nofault_fst by exact Hb. reflexivity.
Qed.

(* ---- C10: the send quota stays within 0 .. Receive Maximum, unconditionally -------------- *)
Definition quota_ok (x : ctx) : Prop := quota x <= rmax x.
Definition qr (x : ctx) : N * N := (quota x, rmax x).

Lemma bump_quota_ok x : quota_ok x -> quota_ok (bump_quota x).
Proof.
  unfold quota_ok, bump_quota. intros H. destruct (quota x =? rmax x) eqn:E; [exact H|].
  apply N.eqb_neq in E. cbn. lia.
Qed.
Lemma ack_waiter_qr s a p : qr (c (ack_waiter s a p)) = qr (c s).
Proof.
  unfold ack_waiter. destruct (alookup a (awaiting (c s))) as [[i ph]|]; [|reflexivity].
  rewrite complete_c. reflexivity.
Qed.
Lemma dispatch_qr s sid p : qr (c (dispatch s sid p)) = qr (c s).
Proof.
  unfold dispatch. destruct (alookup sid (subs (c s))) as [j|]; [|reflexivity].
  destruct (alookup j (streams s)) as [st|]; [destruct (st_recv st)|]; cbn; rewrite ?close_c; reflexivity.
Qed.
Lemma qr_ok x y : qr x = qr y -> quota_ok y -> quota_ok x.
Proof. unfold qr, quota_ok. intros H. inversion H. lia. Qed.

Theorem handle_packet_quota_ok s p : quota_ok (c s) -> quota_ok (c (fst (handle_packet s p))).
Proof.
  intros H. unfold handle_packet. cbv zeta.
  destruct (rk p); cbn [fst].
  - exact H.
  - (* publish *)
    eapply qr_ok; [|exact H].
    destruct (r_qos p =? 0); cbn [fst]; rewrite ?write_c;
      repeat match goal with
      | |- context [if ?b then _ else _] => destruct b
      | |- context [match pub_subid p with _ => _ end] => destruct (pub_subid p)
      end; rewrite ?dispatch_qr; reflexivity.
  - eapply qr_ok; [apply ack_waiter_qr|]. cbn. apply bump_quota_ok. exact H.
  - eapply qr_ok; [apply ack_waiter_qr|]. cbn. destruct (128 <=? r_reason p); [apply bump_quota_ok|]; exact H.
  - rewrite write_c. exact H.
  - eapply qr_ok; [apply ack_waiter_qr|]. cbn. apply bump_quota_ok. exact H.
  - eapply qr_ok; [apply ack_waiter_qr|]. exact H.
  - eapply qr_ok; [apply ack_waiter_qr|]. exact H.
  - eapply qr_ok; [apply ack_waiter_qr|]. exact H.
  - exact H.
  - exact H.
Qed.

Theorem handle_message_quota_ok s m : quota_ok (c s) -> quota_ok (c (fst (handle_message s m))).
Proof.
  intros H. unfold quota_ok in *. unfold handle_message. cbv zeta.
  destruct m as [i p|i ph a p|i a sid p].
  - destruct (negb (size_ok (c s) p)); cbn [fst]; [rewrite complete_c; exact H|].
    destruct (negb (snd (write s p))); cbn [fst]; rewrite ?cancel_c, ?complete_c, ?write_c; exact H.
  - destruct (negb (size_ok (c s) p)); cbn [fst]; [rewrite complete_c; exact H|].
    destruct (ptype_of p =? 3).
    + destruct (quota (c s) =? 0) eqn:E; cbn [fst]; [rewrite complete_c; exact H|].
      apply N.eqb_neq in E.
      destruct (negb (snd (write _ p))); cbn [fst]; rewrite ?cancel_c, ?write_c; cbn; lia.
    + destruct (ptype_of p =? 6); destruct (negb (snd (write s p))); cbn [fst];
        rewrite ?cancel_c, ?write_c; cbn; exact H.
  - destruct (negb (size_ok (c s) p)); cbn [fst]; [rewrite close_c, complete_c; exact H|].
    rewrite write_c. cbn. exact H.
Qed.

(* handle_connack sets quota = rmax = the CONNACK's Receive Maximum (65535 when absent) *)
Lemma handle_connack_quota x p :
  quota (handle_connack x p) = rmax (handle_connack x p) /\
  rmax (handle_connack x p) = match pnum 33 (r_props p) with Some v => v | None => 65535 end.
Proof. unfold handle_connack. cbn. auto. Qed.

(* ---- C08: what the context writes for an inbound packet ------------------------------------ *)
Definition ack_due (p : rxpkt) : bytes :=
  match rk p with
  | KPublish => if r_qos p =? 0 then [] else if r_qos p =? 1 then enc_puback (r_pid p) else enc_pubrec (r_pid p)
  | KPubrel => enc_pubcomp (r_pid p)
  | _ => []
  end.

Definition wb (s : sys) : bytes * option N := (wire_ev s, wbudget s).
Lemma ack_waiter_wb s a p : wb (ack_waiter s a p) = wb s.
Proof.
  unfold ack_waiter, wb. destruct (alookup a (awaiting (c s))) as [[i ph]|]; [|reflexivity].
  rewrite complete_wire, complete_wbudget. reflexivity.
Qed.
Lemma close_wb s j : wb (close_stream_sender s j) = wb s.
Proof. unfold close_stream_sender, wb. destruct (alookup j (streams s)); reflexivity. Qed.
Lemma dispatch_wb s sid p : wb (dispatch s sid p) = wb s.
Proof.
  unfold dispatch. destruct (alookup sid (subs (c s))) as [j|]; [|reflexivity].
  destruct (alookup j (streams s)) as [st|]; [destruct (st_recv st)|]; rewrite ?close_wb; reflexivity.
Qed.
Lemma wb_write s s0 p : wb s = wb s0 -> wbudget s0 = None ->
  wb (fst (write s p)) = (wire_ev s0 ++ p, None) /\ snd (write s p) = true.
Proof.
  unfold wb. intros H Hb. inversion H as [[H1 H2]]. rewrite Hb in H2.
  rewrite write_nofault by exact H2. cbn. rewrite H1. auto.
Qed.

Theorem handle_packet_wire s p : wbudget s = None ->
  wb (fst (handle_packet s p)) = (wire_ev s ++ ack_due p, None).
Proof.
  intros Hb. unfold handle_packet, ack_due. cbv zeta.
  destruct (rk p); cbn [fst]; rewrite ?ack_waiter_wb; unfold wb at 1; cbn [wire_ev wbudget set_c];
    rewrite ?app_nil_r, ?Hb; try reflexivity.
  - (* publish *)
    match goal with |- context [write ?s0 _] => assert (Hs : wb s0 = wb s) end.
    { repeat match goal with
      | |- context [if ?b then _ else _] => destruct b
      | |- context [match pub_subid p with _ => _ end] => destruct (pub_subid p)
      end; rewrite ?dispatch_wb; reflexivity. }
    destruct (r_qos p =? 0).
    + cbn [fst]. change (wire_ev ?x, wbudget ?x) with (wb x). rewrite Hs. unfold wb. rewrite Hb, app_nil_r. reflexivity.
    + cbn [fst]. change (wire_ev ?x, wbudget ?x) with (wb x).
      destruct (r_qos p =? 1); apply wb_write; assumption.
  - (* pubrel *)
    change (wire_ev ?x, wbudget ?x) with (wb x). apply wb_write; [reflexivity|exact Hb].
Qed.

(* the wire after any sequence of inbound packets: one acknowledgement per packet that needs
   one, same identifier, in arrival order, nothing else *)
Definition take_packets (s : sys) (ps : list rxpkt) : sys :=
  fold_left (fun s p => fst (handle_packet s p)) ps s.
Theorem acks_in_order ps : forall s, wbudget s = None ->
  wb (take_packets s ps) = (wire_ev s ++ concat (map ack_due ps), None).
Proof.
  induction ps as [|p ps IH]; intros s Hb; cbn [take_packets fold_left map concat].
  - unfold wb. rewrite app_nil_r, Hb. reflexivity.
  - assert (H := handle_packet_wire s p Hb). unfold wb in H. injection H as H1 H2.
    unfold take_packets in IH. rewrite IH by exact H2. rewrite H1, <- app_assoc. reflexivity.
Qed.

(* ---- C13 / C15: why the run loop ends ---------------------------------------------------------- *)
Theorem handle_packet_exit s p r : wbudget s = None -> snd (handle_packet s p) = Exit r ->
  (rk p = KDisconnect /\ r = (if r_reason p =? 0 then RunOk else RunDisconnected p)) \/
  ((rk p = KConnack \/ rk p = KAuth) /\ r = RunCodec).
Proof.
  intros Hb. unfold handle_packet. cbv zeta.
  destruct (rk p) eqn:K; cbn [snd]; intros H; try discriminate.
  - right. inversion H. auto.
  - (* publish: only a write fault exits *)
    destruct (r_qos p =? 0); cbn [snd] in H; [discriminate|].
    match type of H with context [write ?s0 ?b] =>
      assert (Hs : wb s0 = wb s);
      [| destruct (wb_write s0 s b Hs Hb) as [_ Hok]; rewrite Hok in H; discriminate ] end.
    repeat match goal with
      | |- context [if ?b then _ else _] => destruct b
      | |- context [match pub_subid p with _ => _ end] => destruct (pub_subid p)
      end; rewrite ?dispatch_wb; reflexivity.
  - (* pubrel *)
    match type of H with context [write ?s0 ?b] =>
      destruct (wb_write s0 s b eq_refl Hb) as [_ Hok]; rewrite Hok in H; discriminate end.
  - left. inversion H. auto.
  - right. inversion H. auto.
Qed.
Theorem handle_message_exit s m r : wbudget s = None -> snd (handle_message s m) = Exit r ->
  exists i pkt, m = MFire i pkt /\ ptype_of pkt = 14 /\ r = RunOk /\
                wire_ev (fst (handle_message s m)) = wire_ev s ++ pkt.
Proof.
  intros Hb. unfold handle_message. cbv zeta.
  destruct m as [i p|i ph a p|i a sid p].
  - destruct (negb (size_ok (c s) p)); cbn [snd]; [discriminate|].
    rewrite write_nofault_snd, write_nofault_fst by exact Hb. cbn [negb snd fst].
    destruct (ptype_of p =? 14) eqn:E; [|discriminate]. intros H. inversion H.
    exists i, p. apply N.eqb_eq in E. rewrite complete_wire. auto.
  - destruct (negb (size_ok (c s) p)); cbn [snd]; [discriminate|].
    destruct (ptype_of p =? 3).
    + destruct (quota (c s) =? 0); cbn [snd]; [discriminate|].
      rewrite write_nofault_snd by exact Hb. cbn [negb snd]. discriminate.
    + destruct (ptype_of p =? 6); rewrite write_nofault_snd by exact Hb; cbn [negb snd]; discriminate.
  - destruct (negb (size_ok (c s) p)); cbn [snd]; [discriminate|].
    rewrite write_nofault_snd by exact Hb. discriminate.
Qed.
(* the outcomes that are causes do exit *)
Lemma server_disconnect_exits s p : rk p = KDisconnect ->
  snd (handle_packet s p) = Exit (if r_reason p =? 0 then RunOk else RunDisconnected p).
Proof. intros K. unfold handle_packet. rewrite K. reflexivity. Qed.
Lemma user_disconnect_exits s i pkt : wbudget s = None -> size_ok (c s) pkt = true -> ptype_of pkt = 14 ->
  snd (handle_message s (MFire i pkt)) = Exit RunOk.
Proof.
  intros Hb Hs Ht. unfold handle_message. cbv zeta. rewrite Hs. cbn [negb].
  rewrite write_nofault_snd by exact Hb. cbn [negb snd]. rewrite Ht. reflexivity.
Qed.

(* ---- C05: an acknowledgement completes the operation registered under its action id -------- *)
(* (expected ack type << 24) | (packet id << 8) is injective on types < 256 and u16 ids *)
Lemma aid_inj t1 p1 t2 p2 : p1 < 65536 -> p2 < 65536 -> aid t1 p1 = aid t2 p2 -> t1 = t2 /\ p1 = p2.
Proof. unfold aid. intros. lia. Qed.

Lemma ack_waiter_none s a p : alookup a (awaiting (c s)) = None -> ack_waiter s a p = s.
Proof. unfold ack_waiter. intros ->. reflexivity. Qed.
Lemma ack_waiter_some s a p i ph : alookup a (awaiting (c s)) = Some (i, ph) ->
  ops (ack_waiter s a p) = ops (complete s i ph (CPkt p)) /\
  awaiting (c (ack_waiter s a p)) = aremove a (awaiting (c s)).
Proof.
  unfold ack_waiter. intros ->. rewrite complete_c. split; [|reflexivity].
  unfold complete. cbn [ops set_c]. destruct (alookup i (ops s)); reflexivity.
Qed.
(* completing fills exactly one oneshot of exactly one operation, and only if it is empty *)
Lemma complete_other s i ph v j : j <> i -> alookup j (ops (complete s i ph v)) = alookup j (ops s).
Proof.
  intros Hne. unfold complete. destruct (alookup i (ops s)) as [o|]; [|reflexivity].
  cbn [ops set_ops]. generalize (ops s). intros l. induction l as [|[k x] l IH]; cbn [aset alookup].
  - replace (i =? j) with false by (symmetry; apply N.eqb_neq; congruence). reflexivity.
  - destruct (k =? i) eqn:E; cbn [alookup].
    + apply N.eqb_eq in E. subst k. replace (i =? j) with false by (symmetry; apply N.eqb_neq; congruence). reflexivity.
    + destruct (k =? j); [reflexivity|exact IH].
Qed.
Lemma fill_chan_full ch v w : ch = CFull w -> fill_chan ch v = CFull w.
Proof. intros ->. reflexivity. Qed.

(* awaiting operations stay pending: a poll while the oneshot is empty changes nothing (C05, C16) *)
Lemma poll_wait1_empty s i o : o_ch1 o = CEmpty -> poll_wait1 s i o = (s, [OPend i]).
Proof. unfold poll_wait1. intros ->. reflexivity. Qed.
Lemma poll_wait2_empty s i o : o_ch2 o = CEmpty -> poll_wait2 s i o = (s, [OPend i]).
Proof. unfold poll_wait2. intros ->. reflexivity. Qed.
Theorem spurious_op_poll s i o :
  alookup i (ops s) = Some o ->
  (o_phase o = Wait1 /\ o_ch1 o = CEmpty) \/ (o_phase o = Wait2 /\ o_ch2 o = CEmpty) ->
  poll_op s i = (s, [OPend i]).
Proof.
  intros Hl [[Hp Hc]|[Hp Hc]]; unfold poll_op; rewrite Hl, Hp;
    [apply poll_wait1_empty|apply poll_wait2_empty]; exact Hc.
Qed.
Theorem spurious_stream_poll s j st :
  alookup j (streams s) = Some st -> st_taken st = true -> st_buf st = [] -> st_sender st = true ->
  poll_stream s j = (s, [ONone j]).
Proof. intros Hl Ht Hb Hs. unfold poll_stream. rewrite Hl, Ht, Hb, Hs. reflexivity. Qed.

(* ---- C14: after the senders are gone nothing stays pending ------------------------------------- *)
Theorem poll_after_cancel1 s i o : alookup i (ops s) = Some o -> o_phase o = Wait1 -> o_ch1 o = CGone ->
  snd (poll_op s i) = [ODone i RErrExited].
Proof.
  intros Hl Hp Hc. unfold poll_op. rewrite Hl, Hp. unfold poll_wait1. rewrite Hc.
  destruct (o_kind o); reflexivity.
Qed.
Theorem poll_after_cancel2 s i o : alookup i (ops s) = Some o -> o_phase o = Wait2 -> o_ch2 o = CGone ->
  snd (poll_op s i) = [ODone i RErrExited].
Proof. intros Hl Hp Hc. unfold poll_op. rewrite Hl, Hp. unfold poll_wait2. rewrite Hc. reflexivity. Qed.
(* an operation first polled once the Context is gone fails at once with ContextExited (or with
   its own build error), never Pending *)
Theorem first_poll_after_drop s i o : ctx_alive s = false ->
  exists r, snd (first_poll s i o) = [ODone i r] /\ (r = RErrExited \/ r = RErrCodec \/ r = RPanic).
Proof.
  intros Ha. unfold first_poll, send. cbv zeta.
  destruct (o_kind o) as [po|so|uo| |d].
  - destruct (po_qos po =? 0).
    + destruct (enc_publish po 0); cbn [ctx_alive]; rewrite ?Ha; eexists; split; try reflexivity; auto.
    + destruct (alloc_pid (pid_ctr s)) as [pid ctr].
      destruct (enc_publish po pid); cbn [ctx_alive set_ctrs]; rewrite ?Ha; eexists; split; try reflexivity; auto.
  - destruct (alloc_pid (pid_ctr s)) as [pid ctr]. destruct (alloc_subid (sub_ctr s)) as [sid sctr].
    destruct (enc_subscribe so pid sid); cbn [ctx_alive set_ctrs set_streams]; rewrite ?Ha;
      eexists; split; try reflexivity; auto.
  - destruct (alloc_pid (pid_ctr s)) as [pid ctr].
    destruct (enc_unsubscribe uo pid); cbn [ctx_alive set_ctrs]; rewrite ?Ha; eexists; split; try reflexivity; auto.
  - rewrite Ha. eexists; split; try reflexivity; auto.
  - destruct (enc_disconnect d); rewrite ?Ha; eexists; split; try reflexivity; auto.
Qed.
(* a stream whose sender is gone yields what it had buffered, then ends *)
Theorem stream_after_drop s j st : alookup j (streams s) = Some st -> st_taken st = true -> st_sender st = false ->
  snd (poll_stream s j) = match st_buf st with p :: _ => [OItem j p] | [] => [OEnd j] end.
Proof.
  intros Hl Ht Hs. unfold poll_stream. rewrite Hl, Ht, Hs. destruct (st_buf st); reflexivity.
Qed.
