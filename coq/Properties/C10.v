(* C10 - Receive Maximum is never exceeded; the send quota neither leaks nor overflows. *)
From Poster Require Import Proofs.IndepP Model.Sim Proofs.BytesP Proofs.ClientP Proofs.QuotaP Proofs.HandshakeP Proofs.SimInvP Proofs.SettleP Proofs.RefineP Proofs.OwnP Proofs.TraceP Proofs.KindP.

(* unconditional, any broker: 0 <= quota <= Receive Maximum is preserved by every handler, so
   the u16 quota can neither underflow nor grow beyond R *)
Theorem C10_range_packet : forall (s : sys) (p : rxpkt),
  quota (c s) <= rmax (c s) -> quota (c (fst (handle_packet s p))) <= rmax (c (fst (handle_packet s p))).
Proof. exact handle_packet_quota_ok. Qed.
Print Assumptions C10_range_packet.
Theorem C10_range_message : forall (s : sys) (m : cmsg),
  quota (c s) <= rmax (c s) -> quota (c (fst (handle_message s m))) <= rmax (c (fst (handle_message s m))).
Proof. exact handle_message_quota_ok. Qed.
Print Assumptions C10_range_message.

(* the CONNACK sets quota = R = its Receive Maximum, 65535 when absent *)
Theorem C10_from_connack : forall (x : ctx) (p : rxpkt),
  quota (handle_connack x p) = rmax (handle_connack x p) /\
  rmax (handle_connack x p) = match pnum 33 (r_props p) with Some v => v | None => 65535 end.
Proof. exact handle_connack_quota. Qed.
Print Assumptions C10_from_connack.

(* the accounting identity over every history of handler steps.  `conf_run s g evs` runs the
   Context over any sequence of handle messages and inbound packets, maintaining the ghost list
   g of QoS>0 PUBLISHes written and not yet completed by PUBACK, PUBCOMP or PUBREC >= 0x80
   (Proofs/QuotaP.v, written from the property); it is None exactly when an acknowledgement
   completes something that is not in flight (a non-conformant broker).  In every state
   reachable by a conformant history: quota + in-flight = R.  Hence in-flight <= R, the quota
   is 0 (refusal) exactly at in-flight = R, and every completion frees exactly one slot. *)
Theorem C10_exact : forall (evs : list qev) (s : sys) (g : list key) (s' : sys) (g' : list key),
  wbudget s = None -> quota (c s) + lenN g = rmax (c s) ->
  conf_run s g evs = Some (s', g') ->
  quota (c s') + lenN g' = rmax (c s') /\ rmax (c s') = rmax (c s) /\ wbudget s' = None.
Proof. exact conf_run_inv. Qed.
Print Assumptions C10_exact.

Theorem C10_bound : forall (evs : list qev) (s : sys) (g : list key) (s' : sys) (g' : list key),
  wbudget s = None -> quota (c s) + lenN g = rmax (c s) ->
  conf_run s g evs = Some (s', g') -> lenN g' <= rmax (c s).
Proof. exact inflight_bound. Qed.
Print Assumptions C10_bound.

(* non-vacuity: R = 1; a QoS 2 publish is sent, a second one is refused, the failing PUBREC frees
   the slot, a QoS 1 publish is then sent: conformant, and one PUBLISH in flight at the end *)
Example C10_nonvacuous :
  let s0 := set_c sys_init (mkctx [] [] [] [] 1 1 None 0 None) in
  match conf_run s0 []
          [QMsg (MAwait 0 1 (aid 5 1) [52; 5; 0; 1; 116; 0; 1; 0]);
           QMsg (MAwait 1 1 (aid 5 2) [52; 5; 0; 1; 116; 0; 2; 0]);
           QPkt (mkrx KPubrec false false false 0 1 128 [] [] [] []);
           QMsg (MAwait 2 1 (aid 4 3) [50; 5; 0; 1; 116; 0; 3; 0])] with
  | Some (s', g') => quota (c s') = 0 /\ g' = [(4, 3)] /\ wire_ev s' = [52; 5; 0; 1; 116; 0; 1; 0; 50; 5; 0; 1; 116; 0; 3; 0]
  | None => False
  end.
Proof. vm_compute. auto. Qed.

(* refusal: a QoS>0 PUBLISH taken with no quota left is answered QuotaExceeded; the wire and
   the context state are untouched *)
Theorem C10_refusal : forall (s : sys) (i ph a : N) (pkt : bytes),
  size_ok (c s) pkt = true -> ptype_of pkt = 3 -> quota (c s) = 0 ->
  let s' := fst (handle_message s (MAwait i ph a pkt)) in
  snd (handle_message s (MAwait i ph a pkt)) = Continue /\
  c s' = c s /\ wire_ev s' = wire_ev s /\ ops s' = ops (complete s i ph CQuota).
Proof. exact quota_refusal. Qed.
Print Assumptions C10_refusal.

(* QoS 0 publishes (MFire) and non-PUBLISH requests never consult or change the quota *)
Theorem C10_unlimited : forall (s : sys) (m : cmsg),
  (forall i ph a p, m = MAwait i ph a p -> ptype_of p <> 3) ->
  quota (c (fst (handle_message s m))) = quota (c s).
Proof. exact quota_untouched. Qed.
Print Assumptions C10_unlimited.

(* a resumed session (finding F21): the unfinished handshakes re-sent at the start of run() - each a QoS>0 PUBLISH of
   the previous connection not yet completed (C17_queue_is_unfinished) - take their slots out of the quota the new
   CONNACK has just set to R (C10_from_connack). So after resumption quota + re-sent = R again (when they fit), R is
   untouched, and the accounting of C10_exact carries on from there. *)
Theorem C10_resume : forall (l : list (N * bytes)) (s : sys), wbudget s = None -> quota (c s) = rmax (c s) ->
  let s' := fst (retransmit s l) in
  rmax (c s') = rmax (c s) /\ quota (c s') = rmax (c s) - lenN l /\
  (lenN l <= rmax (c s) -> quota (c s') + lenN l = rmax (c s')).
Proof.
  intros l s Hb Hq. cbv zeta. destruct (retransmit_wire l s Hb) as (_ & _ & Hs & Hquota & _).
  destruct Hs as (_ & _ & _ & _ & Hr & _). rewrite Hr, Hquota, Hq. split; [reflexivity|]. split; [reflexivity|]. intros H.
  apply N.sub_add. exact H.
Qed.
Print Assumptions C10_resume.

(* the same accounting for a whole poll of the Context task of the script layer: its history (TraceP.trace: the inbound
   packets the framing layer yields and the queued requests, in the order the run loop takes them) run through the
   ghost accounting of C10_exact - whenever it is conformant, quota + in-flight = R holds again when the task rests *)
Theorem C10_after_poll : forall (s : sys) (g : list key) (s' : sys) (g' : list key),
  cph s = CRunning -> hold s = false -> ctx_alive s = true -> wbudget s = None ->
  quota (c s) + lenN g = rmax (c s) ->
  conf_run s g (trace (settle_fuel s) s) = Some (s', g') ->
  quota (c (settle s)) + lenN g' = rmax (c (settle s)) /\ rmax (c (settle s)) = rmax (c s) /\ lenN g' <= rmax (c s).
Proof. exact quota_after_poll. Qed.
Print Assumptions C10_after_poll.

(* a PUBREC that accepts the message - any reason below 0x80, 0x10 "no matching subscribers" included - is not a
   completion: the slot stays taken until the PUBCOMP *)
Theorem C10_pubrec_success_keeps_slot : forall (s : sys) (p : rxpkt), rk p = KPubrec -> r_reason p < 128 ->
  quota (c (fst (handle_packet s p))) = quota (c s) /\ rmax (c (fst (handle_packet s p))) = rmax (c s).
Proof. exact pubrec_success_keeps_slot. Qed.
Print Assumptions C10_pubrec_success_keeps_slot.

(* the guard is keyed on the packet type in the first byte of the encoded request (Proofs/KindP.v): every PUBLISH the encoder
   builds - QoS 0..2, RETAIN set or not, whatever the other options - has type 3, so no QoS>0 publish slips past the quota
   guard; the other requests that await an acknowledgement have types 8, 10, 12 and 6 (PUBREL), so they are never counted *)
Theorem C10_every_publish_is_guarded : forall (o : publish_opts) (pid : N) (b : bytes),
  po_qos o <= 2 -> enc_publish o pid = Ok b -> ptype_of b = 3.
Proof. exact publish_type. Qed.
Print Assumptions C10_every_publish_is_guarded.
Theorem C10_only_publishes_are_guarded :
  (forall o pid sid b, enc_subscribe o pid sid = Ok b -> ptype_of b = 8) /\
  (forall o pid b, enc_unsubscribe o pid = Ok b -> ptype_of b = 10) /\
  ptype_of enc_pingreq = 12 /\ (forall pid, ptype_of (enc_pubrel pid) = 6) /\
  (forall o b, enc_disconnect o = Ok b -> ptype_of b = 14).
Proof.
  split; [exact subscribe_type|]. split; [exact unsubscribe_type|]. split; [reflexivity|]. split; [exact pubrel_type|exact disconnect_type].
Qed.
Print Assumptions C10_only_publishes_are_guarded.
