(* C05 - each operation completes exactly once, with the acknowledgement addressed to it. *)
From Poster Require Import Model.Sim Proofs.ClientP Proofs.SimInvP Proofs.OwnP Proofs.ByteRangeP Proofs.TypedP Proofs.OnceP Proofs.QuotaP Proofs.ResumeP Proofs.WireP Proofs.TraceP Proofs.AwaitP.

(* the key under which an operation waits - (expected acknowledgement type << 24) | (id << 8) -
   identifies type and identifier uniquely *)
Theorem C05_aid_injective : forall t1 p1 t2 p2 : N,
  p1 < 65536 -> p2 < 65536 -> aid t1 p1 = aid t2 p2 -> t1 = t2 /\ p1 = p2.
Proof. exact aid_inj. Qed.
Print Assumptions C05_aid_injective.

(* an acknowledgement nobody waits for is absorbed without any effect *)
Theorem C05_stray_ack : forall (s : sys) (a : N) (p : rxpkt),
  alookup a (awaiting (c s)) = None -> ack_waiter s a p = s.
Proof. exact ack_waiter_none. Qed.
Print Assumptions C05_stray_ack.

(* an acknowledgement completes the operation registered under its key with that very packet,
   and the registration is consumed (exactly once) *)
Theorem C05_own_ack : forall (s : sys) (a : N) (p : rxpkt) (i ph : N),
  alookup a (awaiting (c s)) = Some (i, ph) ->
  ops (ack_waiter s a p) = ops (complete s i ph (CPkt p)) /\
  awaiting (c (ack_waiter s a p)) = aremove a (awaiting (c s)).
Proof. exact ack_waiter_some. Qed.
Print Assumptions C05_own_ack.

(* completing one operation touches no other operation *)
Theorem C05_others_untouched : forall (s : sys) (i ph : N) (v : cval) (j : N),
  j <> i -> alookup j (ops (complete s i ph v)) = alookup j (ops s).
Proof. exact complete_other. Qed.
Print Assumptions C05_others_untouched.

(* operations whose acknowledgement has not arrived stay pending *)
Theorem C05_stays_pending : forall (s : sys) (i : N) (o : op),
  alookup i (ops s) = Some o ->
  (o_phase o = Wait1 /\ o_ch1 o = CEmpty) \/ (o_phase o = Wait2 /\ o_ch2 o = CEmpty) ->
  poll_op s i = (s, [OPend i]).
Proof. exact spurious_op_poll. Qed.
Print Assumptions C05_stays_pending.

(* a filled oneshot is never overwritten: the first completion stands *)
Theorem C05_at_most_once : forall (ch : chan) (v w : cval), ch = CFull w -> fill_chan ch v = CFull w.
Proof. exact fill_chan_full. Qed.
Print Assumptions C05_at_most_once.

(* ---- every history ---------------------------------------------------------------------------------------------
   `wf_run sys_init evs`: a script of events (Model/Sim.v) in which operations are started under fresh indices,
   the transport delivers bytes (< 256), and the harness's batch event is not used; otherwise arbitrary:
   any operations from any handle clones, any packets (expected, unexpected, stray, wrong type for a pending
   identifier, malformed) in any order and chunking, drops, faults, reconnects.

   In every state such a script reaches, whatever sits in an operation's oneshot is the acknowledgement KIND that
   operation and phase wait for - PINGRESP for a ping, SUBACK for a subscribe, UNSUBACK for an unsubscribe, PUBACK
   for a QoS 1 publish, PUBREC then PUBCOMP for a QoS 2 publish - never another operation's kind: the registration
   key (type << 24 | id << 8) separates the kinds, and identifiers decoded from bytes are u16. *)
Theorem C05_completion_typed : forall (evs : list event) (i : N) (o : op) (p : rxpkt), wf_run sys_init evs ->
  let s := final_state sys_init evs in
  alookup i (ops s) = Some o ->
  (o_ch1 o = CFull (CPkt p) -> expect (o_kind o) 1 = Some (rk p)) /\
  (o_ch2 o = CFull (CPkt p) -> expect (o_kind o) 2 = Some (rk p)).
Proof. exact completion_typed. Qed.
Print Assumptions C05_completion_typed.

(* ... so polling a started operation future never reaches the unreachable!() arms of handle.rs *)
Theorem C05_no_unreachable : forall (evs : list event) (i : N) (o : op), wf_run sys_init evs ->
  let s := final_state sys_init evs in
  alookup i (ops s) = Some o -> o_phase o <> NotStarted -> ~ In (ODone i RPanic) (snd (poll_op s i)).
Proof. exact no_unreachable. Qed.
Print Assumptions C05_no_unreachable.

Example C05_nonvacuous :
  let evs := [EConnect (Build_connect_opts [99] 0 None None None None None None None None [] 0 false false
                          None None None None None None [] None None None None);
              EDeliver [32; 3; 0; 0; 0]; ERun;
              EStart 0 0 (OPub (Build_publish_opts 2 false (Some [97]) None None None None None None None []));
              EPoll 0; EStart 1 0 (OUnsub (Build_unsubscribe_opts [[97]] [])); EPoll 1;
              EDeliver [176; 4; 0; 1; 0; 0];          (* UNSUBACK carrying the PUBLISH's identifier 1: wrong type, absorbed *)
              EDeliver [80; 2; 0; 1]; EPoll 0; EDeliver [112; 2; 0; 1]] in
  wf_run sys_init evs /\ snd (poll_op (final_state sys_init evs) 0) = [ODone 0 ROk] /\
  snd (poll_op (final_state sys_init evs) 1) = [OPend 1].
Proof.
  cbv zeta. split; [apply wf_runb_ok; vm_compute; reflexivity|vm_compute; auto].
Qed.

(* ---- exactly once, over every history (Proofs/OnceP.v) -------------------------------------------------------------------
   dones i l: how many results (ODone i _) of operation label i the observations l contain. all_obs s evs: every
   observation of running the events evs from s. no_restart i: the event does not start label i anew (and is not a
   batch event). From ANY state satisfying the reachable-state invariant OI, whatever else the events do - repeated,
   stray or mistyped acknowledgements, other operations, faults, reconnects, the Context dropped -: the future of
   operation i reports a result at most once; and never again once it has finished or was dropped (cap = 0). *)
Theorem C05_exactly_once : forall (evs : list event) (s : sys) (i : N), OI s -> Forall (no_restart i) evs ->
  (dones i (all_obs s evs) + cap (final_state s evs) i <= cap s i)%nat.
Proof. exact at_most_once. Qed.
Print Assumptions C05_exactly_once.
Theorem C05_exactly_once_reachable : forall (pre evs : list event) (i : N), Forall (no_restart i) evs ->
  (dones i (all_obs (final_state sys_init pre) evs) <= 1)%nat.
Proof. exact at_most_once_reachable. Qed.
Print Assumptions C05_exactly_once_reachable.
Check (eq_refl : cap = fun s i =>
  match alookup i (ops s) with Some o => match o_phase o with Finished => 0%nat | _ => 1%nat end | None => 0%nat end).
Check (eq_refl : dones = fun i l => length (filter (fun o => match o with ODone j _ => j =? i | _ => false end) l)).
Check (eq_refl : no_restart = fun i e => match e with EStart j _ _ => j <> i | ESpin _ _ _ _ => False | _ => True end).

(* a QoS 1 publish whose PUBACK is delivered three times and which is polled five times: one result *)
Example C05_once_nonvacuous :
  let pre := [EConnect (Build_connect_opts [99] 0 None None None None None None None None [] 0 false false
                          None None None None None None [] None None None None);
              EDeliver [32; 3; 0; 0; 0]; ERun;
              EStart 0 0 (OPub (Build_publish_opts 1 false (Some [116]) None None None None None None None []))] in
  let evs := [EPoll 0; EDeliver [64; 2; 0; 1]; EDeliver [64; 2; 0; 1]; EPoll 0; EPoll 0; EDeliver [64; 2; 0; 1]; EPoll 0; EPoll 0] in
  Forall (no_restart 0) evs /\ dones 0 (all_obs (final_state sys_init pre) evs) = 1%nat.
Proof. split; [repeat constructor|vm_compute; reflexivity]. Qed.

(* ---- with the acknowledgement addressed to it, over every history of Context steps (Proofs/AwaitP.v) ---------------------
   A history is any list of Context steps: requests taken from handles (QMsg) and packets from the server (QPkt),
   from ANY state with a healthy writer. Written from the property, not from the code:
   - `outstanding`: the accepted requests whose acknowledgement has not arrived - a request that is not refused
     registers (key, (operation, phase)), key = acknowledgement type and identifier; an inbound PUBACK / PUBREC /
     PUBCOMP / SUBACK / UNSUBACK / PINGRESP removes the OLDEST registration under its key;
   - `completions`: what is put into which operation's oneshot, in order - a refusal (too big / no quota), "written"
     for a request that awaits nothing, and for an inbound acknowledgement the packet itself, to the oldest
     registration under its key; nothing for an acknowledgement nobody awaits, nothing for any other packet.
   The table of awaited acknowledgements IS `outstanding` and the operations' oneshots are filled by exactly
   `completions`, in that order (`complete_ops`: a full or abandoned oneshot is left alone). So an operation is
   completed only by the acknowledgement bearing the key it registered, with that packet as content; operations whose
   acknowledgement has not arrived are untouched. *)
Theorem C05_awaiting_history : forall (evs : list qev) (s : sys), wbudget s = None ->
  awaiting (c (run_q s evs)) = outstanding s (awaiting (c s)) evs.
Proof. exact awaiting_history. Qed.
Print Assumptions C05_awaiting_history.
Theorem C05_completions_history : forall (evs : list qev) (s : sys), wbudget s = None ->
  ops (run_q s evs) = fold_left complete_ops (completions s (awaiting (c s)) evs) (ops s).
Proof. exact ops_history. Qed.
Print Assumptions C05_completions_history.
Theorem C05_completed_by_own_ack : forall (g : list reg) (p : rxpkt) (i ph : N),
  In (i, ph, CPkt p) (spec_completes_pkt g p) -> exists k, spec_acks p = Some k /\ alookup k g = Some (i, ph).
Proof. exact completion_is_first_outstanding. Qed.
Print Assumptions C05_completed_by_own_ack.
(* pings complete one per PINGRESP in issue order: the operations completed by PINGRESPs, in order, are what a FIFO
   queue of the accepted pings yields (`ping_answers`: enqueue at an accepted ping, dequeue at a PINGRESP; a PINGRESP
   on an empty queue completes nobody). Packets carry u16 identifiers (every decoded packet does, Proofs/ByteRangeP.v)
   and a subscribe request is not keyed by the ping key. *)
Theorem C05_pings_fifo : forall (evs : list qev) (s : sys) (g : list reg), Forall pid_ok evs -> Forall sub_key_ok evs ->
  pingresp_completions (completions s g evs) = ping_answers s (pings g) evs.
Proof. exact pings_fifo. Qed.
Print Assumptions C05_pings_fifo.
(* and for one poll of the Context task in the script layer, whose explicit history is `trace` (Proofs/TraceP.v) *)
Theorem C05_after_poll : forall s : sys, cph s = CRunning -> hold s = false -> ctx_alive s = true -> wbudget s = None ->
  awaiting (c (settle s)) = outstanding s (awaiting (c s)) (trace (settle_fuel s) s) /\
  ops (settle s) = fold_left complete_ops (completions s (awaiting (c s)) (trace (settle_fuel s) s)) (ops s).
Proof. exact awaiting_after_poll. Qed.
Print Assumptions C05_after_poll.
Check (eq_refl : spec_acks = fun p => match rk p with
  | KPuback => Some (aid 4 (r_pid p)) | KPubrec => Some (aid 5 (r_pid p)) | KPubcomp => Some (aid 7 (r_pid p))
  | KSuback => Some (aid 9 (r_pid p)) | KUnsuback => Some (aid 11 (r_pid p)) | KPingresp => Some (aid 13 0) | _ => None end).
Check (eq_refl : spec_registers = fun s m => if refused s m then [] else
  match m with MFire _ _ => [] | MAwait i ph a _ => [(a, (i, ph))] | MSub i a _ _ => [(a, (i, 1))] end).
Check (eq_refl : spec_completes_pkt = fun g p => match spec_acks p with
  | Some k => match alookup k g with Some (i, ph) => [(i, ph, CPkt p)] | None => [] end | None => [] end).
Check (eq_refl : pings = fun g => map snd (filter (fun r => fst r =? aid 13 0) g)).

(* two pings (operations 3 and 4) around a QoS 1 publish (operation 0, identifier 1); the server answers PINGRESP,
   a stray PUBACK for identifier 7, PUBACK 1, PINGRESP, and a third PINGRESP nobody awaits *)
Example C05_history_nonvacuous :
  let pr := mkrx KPingresp false false false 0 0 0 [] [] [] [] in
  let evs := [QMsg (MAwait 3 1 (aid 13 0) [192; 0]); QMsg (MAwait 0 1 (aid 4 1) [50; 6; 0; 1; 116; 0; 1; 0]);
              QMsg (MAwait 4 1 (aid 13 0) [192; 0]); QPkt pr;
              QPkt (mkrx KPuback false false false 0 7 0 [] [] [] []);
              QPkt (mkrx KPuback false false false 0 1 0 [] [] [] []); QPkt pr; QPkt pr] in
  Forall pid_ok evs /\ Forall sub_key_ok evs /\
  completions sys_init [] evs = [(3, 1, CPkt pr); (0, 1, CPkt (mkrx KPuback false false false 0 1 0 [] [] [] [])); (4, 1, CPkt pr)] /\
  ping_answers sys_init [] evs = [(3, 1); (4, 1)] /\ outstanding sys_init [] evs = [].
Proof. cbv zeta. split; [repeat constructor; cbn; lia|]. split; [repeat constructor|]. vm_compute. auto. Qed.
