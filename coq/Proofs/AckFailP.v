(* C08 with a failing writer: an acknowledgement that the transport does not accept in full ends run() with SocketClosed - for
   each of the three acknowledgement sites (PUBACK, PUBREC, PUBCOMP) alike; run() never goes on serving with an acknowledgement
   owed and unwritten. (Seeded defect C08-10A swallowed the write error at the PUBCOMP site.) *)
From Poster Require Import Model.Client Proofs.BytesP Proofs.ClientP.
From Coq Require Import Lia.
Arguments N.add : simpl never. Arguments N.sub : simpl never. Arguments N.leb : simpl never. Arguments N.eqb : simpl never.

Lemma write_fails s pkt b : wbudget s = Some b -> b < lenN pkt -> snd (write s pkt) = false.
Proof.
  intros Hb Hl. unfold write. rewrite Hb. replace (lenN pkt <=? b) with false by (symmetry; apply N.leb_gt; exact Hl). reflexivity.
Qed.
Lemma short_ack_len h pid : lenN (enc_short_ack h pid) = 4.
Proof. reflexivity. Qed.
Lemma dispatch_wbudget s sid p : wbudget (dispatch s sid p) = wbudget s.
Proof.
  unfold dispatch. destruct (alookup sid (subs (c s))) as [j|]; [|reflexivity].
  destruct (alookup j (streams s)) as [st|]; [|reflexivity]. destruct (st_recv st); [reflexivity|].
  unfold close_stream_sender. cbn [streams set_c]. destruct (alookup j (streams s)); reflexivity.
Qed.

Theorem ack_write_failure_exits s p b : wbudget s = Some b -> b < 4 ->
  (rk p = KPublish /\ r_qos p <> 0) \/ rk p = KPubrel ->
  snd (handle_packet s p) = Exit RunSocketClosed.
Proof.
  intros Hb Hl [[Hk Hq]|Hk]; unfold handle_packet; rewrite Hk.
  - cbv zeta. replace (r_qos p =? 0) with false by (symmetry; apply N.eqb_neq; exact Hq).
    match goal with |- snd (_, if snd (write ?X ?P) then _ else _) = _ => set (X0 := X); set (P0 := P) end.
    assert (HX : wbudget X0 = Some b).
    { subst X0. repeat match goal with
        | |- context [if ?cnd then _ else _] => destruct cnd
        | |- context [match pub_subid p with Some _ => _ | None => _ end] => destruct (pub_subid p)
        end; rewrite ?dispatch_wbudget; exact Hb. }
    assert (HP : b < lenN P0) by (subst P0; destruct (r_qos p =? 1); exact Hl).
    rewrite (write_fails X0 P0 b HX HP). reflexivity.
  - cbv zeta. match goal with |- snd (_, if snd (write ?X ?P) then _ else _) = _ => rewrite (write_fails X P b) end; [reflexivity|exact Hb|exact Hl].
Qed.
