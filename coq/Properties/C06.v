(* C06 - outbound QoS 1/2 publishes follow the MQTT handshake and report its outcome. *)
From Poster Require Import Model.Client Proofs.ClientP Proofs.HandshakeP.

(* the first poll of publish(): one request reaches the context, carrying a PUBLISH whose first
   byte is 0x30 | qos<<1 | retain (DUP = 0), fire-and-forget for QoS 0, awaiting PUBACK (type 4)
   for QoS 1 / PUBREC (type 5) for QoS 2 under the freshly allocated identifier; nothing is
   written by the future itself; a request that cannot be built never reaches the queue *)
Theorem C06_first_poll : forall (s : sys) (i : N) (o : op) (po : publish_opts),
  o_kind o = OPub po -> ctx_alive s = true ->
  let pid := if po_qos po =? 0 then 0 else fst (alloc_pid (pid_ctr s)) in
  match enc_publish po pid with
  | Ok pkt =>
    msgq (fst (first_poll s i o)) =
      msgq s ++ [if po_qos po =? 0 then MFire i pkt
                 else MAwait i 1 (aid (if po_qos po =? 1 then 4 else 5) pid) pkt] /\
    snd (first_poll s i o) = [OPend i] /\
    wire_ev (fst (first_poll s i o)) = wire_ev s /\
    hd 0 pkt = 48 + po_qos po * 2 + b2n (po_retain po)
  | Err => snd (first_poll s i o) = [ODone i RErrCodec] /\ msgq (fst (first_poll s i o)) = msgq s
  | Panic => snd (first_poll s i o) = [ODone i RPanic] /\ msgq (fst (first_poll s i o)) = msgq s
  end.
Proof. exact first_poll_publish. Qed.
Print Assumptions C06_first_poll.

(* the context writes that packet exactly once, unchanged (C12_accept), and keeps a copy with
   DUP set only in its retransmit queue (C17_queue_publish) *)

Theorem C06_qos0 : forall (s : sys) (i : N) (o : op) (po : publish_opts),
  o_kind o = OPub po -> o_ch1 o = CFull CUnit -> snd (poll_wait1 s i o) = [ODone i ROk].
Proof. exact publish_qos0_done. Qed.
Print Assumptions C06_qos0.

(* QoS 1: completes on its PUBACK: reason < 0x80 is success, >= 0x80 PubackError with the packet;
   nothing further is sent *)
Theorem C06_qos1 : forall (s : sys) (i : N) (o : op) (po : publish_opts) (p : rxpkt),
  o_kind o = OPub po -> po_qos po = 1 -> o_ch1 o = CFull (CPkt p) -> rk p = KPuback ->
  snd (poll_wait1 s i o) = [ODone i (if 128 <=? r_reason p then RErrPuback p else ROk)] /\
  msgq (fst (poll_wait1 s i o)) = msgq s /\ wire_ev (fst (poll_wait1 s i o)) = wire_ev s.
Proof. exact publish_qos1_done. Qed.
Print Assumptions C06_qos1.

(* QoS 2 on PUBREC: reason >= 0x80 fails with PubrecError and requests no PUBREL; a smaller
   reason requests exactly one PUBREL 0x62 0x02 <same id> and keeps waiting *)
Theorem C06_qos2_pubrec : forall (s : sys) (i : N) (o : op) (po : publish_opts) (p : rxpkt),
  o_kind o = OPub po -> po_qos po = 2 -> o_ch1 o = CFull (CPkt p) -> rk p = KPubrec -> ctx_alive s = true ->
  if 128 <=? r_reason p
  then snd (poll_wait1 s i o) = [ODone i (RErrPubrec p)] /\ msgq (fst (poll_wait1 s i o)) = msgq s
  else snd (poll_wait1 s i o) = [OPend i] /\
       msgq (fst (poll_wait1 s i o)) = msgq s ++ [MAwait i 2 (aid 7 (r_pid p)) (enc_pubrel (r_pid p))].
Proof. exact publish_qos2_pubrec. Qed.
Print Assumptions C06_qos2_pubrec.
Theorem C06_pubrel_bytes : forall pid, enc_pubrel pid = [98; 2; (pid / 256) mod 256; pid mod 256].
Proof. exact enc_pubrel_bytes. Qed.
Print Assumptions C06_pubrel_bytes.

(* QoS 2 completes on the PUBCOMP: Ok below 0x80, PubcompError otherwise *)
Theorem C06_qos2_pubcomp : forall (s : sys) (i : N) (o : op) (p : rxpkt),
  o_ch2 o = CFull (CPkt p) -> rk p = KPubcomp ->
  snd (poll_wait2 s i o) = [ODone i (if 128 <=? r_reason p then RErrPubcomp p else ROk)].
Proof. exact publish_qos2_done. Qed.
Print Assumptions C06_qos2_pubcomp.
