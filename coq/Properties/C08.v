(* C08 - every inbound QoS>0 PUBLISH and PUBREL is acknowledged exactly once, with its
   identifier, in arrival order; nothing is written for QoS 0 or any other packet. *)
From Poster Require Import Model.Client Proofs.ClientP.

(* what the property says must be written for one inbound packet (written from the statement) *)
Definition C08_ack_for (p : rxpkt) : bytes :=
  match rk p with
  | KPublish => if r_qos p =? 0 then []
                else if r_qos p =? 1 then [64; 2] ++ enc_u16 (r_pid p)      (* PUBACK  *)
                else [80; 2] ++ enc_u16 (r_pid p)                            (* PUBREC  *)
  | KPubrel => [112; 2] ++ enc_u16 (r_pid p)                                 (* PUBCOMP *)
  | _ => []
  end.

(* one packet, any context state (subscription known or not, stream alive or not, re-delivery or
   not): exactly its acknowledgement is appended to the wire, and the transport stays healthy *)
Theorem C08_one_packet : forall (s : sys) (p : rxpkt), wbudget s = None ->
  wire_ev (fst (handle_packet s p)) = wire_ev s ++ C08_ack_for p /\
  wbudget (fst (handle_packet s p)) = None.
Proof.
  intros s p Hb. pose proof (handle_packet_wire s p Hb) as H. unfold wb in H.
  injection H as H1 H2. split; [exact H1|exact H2].
Qed.
Print Assumptions C08_one_packet.

(* any sequence of inbound packets from any state: the wire grows by exactly the due
   acknowledgements, one per packet that needs one, same identifier, in arrival order *)
Theorem C08_acks : forall (ps : list rxpkt) (s : sys), wbudget s = None ->
  wire_ev (take_packets s ps) = wire_ev s ++ concat (map C08_ack_for ps).
Proof.
  intros ps s Hb. pose proof (acks_in_order ps s Hb) as H. unfold wb in H.
  injection H as H1 _. exact H1.
Qed.
Print Assumptions C08_acks.

Example C08_nonvacuous :
  wire_ev (take_packets sys_init
    [mkrx KPublish false false false 1 7 0 [] [116] [1] [];
     mkrx KPublish false true false 2 9 0 [] [116] [2] [];
     mkrx KPublish false false false 0 0 0 [] [116] [3] [];
     mkrx KPubrel false false false 0 9 0 [] [] [] []])
  = [64; 2; 0; 7; 80; 2; 0; 9; 112; 2; 0; 9].
Proof. vm_compute. reflexivity. Qed.
