(* Packet decoders never panic (C04_decode_total). *)
From Poster Require Import Model.Rx Proofs.VarintP Proofs.BytesP.
From Coq Require Import ZArith ZifyN ZifyBool ZifyNat.
Arguments N.add : simpl never. Arguments N.mul : simpl never.
Arguments N.ltb : simpl never. Arguments N.leb : simpl never. Arguments N.eqb : simpl never.

Lemma step_u8_np bs : np (step_u8 bs).
Proof. apply try_dec_np; [apply dec_u8_np|]. intros a H. apply dec_u8_len in H. exact H. Qed.
Lemma step_var_np bs : np (step_var bs).
Proof. apply try_dec_np; [apply dec_var_np|]. intros a H. apply dec_var_len in H. tauto. Qed.
Lemma step_pid_np bs : np (step_pid bs).
Proof.
  apply try_dec_np; [apply nonzero_np, dec_u16_np|]. intros a H. apply nonzero_ok in H.
  apply dec_u16_len in H. exact H.
Qed.
Lemma dec_reason_np tbl bs : np (dec_reason tbl bs).
Proof.
  unfold dec_reason. apply bind_np; [apply dec_u8_np|]. intros b _. destruct (memN b tbl); auto with np.
Qed.
Lemma step_reason_np tbl bs : np (step_reason tbl bs).
Proof.
  apply try_dec_np; [apply dec_reason_np|]. intros a H. unfold dec_reason in H.
  apply bind_ok in H. destruct H as [b [Hb _]]. apply dec_u8_len in Hb. exact Hb.
Qed.
Lemma checked_props_np al bs : np (checked_props al bs).
Proof.
  unfold checked_props. apply bind_np; [apply dec_props_all_np|]. intros ps _.
  destruct (ids_in al ps); auto with np.
Qed.
Lemma dec_codes_np tbl bs : np (dec_codes tbl bs).
Proof.
  induction bs as [|b r IH]; cbn [dec_codes]; auto with np.
  destruct (memN b tbl); auto with np. apply bind_np; [exact IH|]. intros; apply np_ok.
Qed.

Ltac np_tac :=
  repeat first
    [ apply np_ok | apply np_err
    | match goal with
      | |- np (bind (if ?c then _ else _) _) => destruct c
      | |- np (bind (Ok _) _) => cbn [bind]
      end
    | apply bind_np;
      [ first [ apply step_u8_np | apply step_var_np | apply step_pid_np | apply step_reason_np
              | apply checked_props_np | apply dec_codes_np
              | apply try_dec_np; [apply dec_bool_np | intros ? Hx; apply dec_bool_len in Hx; exact Hx]
              | apply try_dec_np; [apply dec_str_np | intros ? Hx; apply dec_str_len in Hx; exact Hx] ]
      | intros [? ?] _ ]
    | apply bind_np; [ first [apply checked_props_np | apply dec_codes_np] | intros ? _ ]
    | match goal with
      | |- np (bind (if ?c then _ else _) _) => destruct c
      | |- np (bind (Ok _) _) => cbn [bind]
      | |- np (if ?c then _ else _) => destruct c
      | |- np (match ?x with _ => _ end) => destruct x
      end ].

Lemma dec_ack_np k h t bs : np (dec_ack k h t bs).
Proof. unfold dec_ack. np_tac. Qed.
Lemma dec_connack_np bs : np (dec_connack bs).
Proof. unfold dec_connack. np_tac. Qed.
Lemma dec_publish_np bs : np (dec_publish bs).
Proof. unfold dec_publish. cbv zeta. np_tac. Qed.
Lemma dec_suback_np k h t bs : np (dec_suback k h t bs).
Proof. unfold dec_suback. np_tac. Qed.
Lemma dec_pingresp_np bs : np (dec_pingresp bs).
Proof. unfold dec_pingresp. np_tac. Qed.
Lemma dec_disconnect_np bs : np (dec_disconnect bs).
Proof. unfold dec_disconnect. np_tac. Qed.
Lemma dec_auth_np bs : np (dec_auth bs).
Proof. unfold dec_auth. np_tac. Qed.

Theorem dec_packet_np bs : bs <> [] -> dec_packet bs <> Panic.
Proof.
  intros Hne. destruct bs as [|h r]; [congruence|]. unfold dec_packet.
  repeat match goal with
  | |- (match ?x with _ => _ end) <> Panic => destruct x
  | |- _ <> Panic =>
    first [ apply dec_connack_np | apply dec_publish_np | apply dec_ack_np | apply dec_suback_np
          | apply dec_pingresp_np | apply dec_disconnect_np | apply dec_auth_np | apply np_err ]
  end.
Qed.
