(* C17 - resuming a session re-sends exactly the unfinished outbound handshakes.
   The disconnection is recorded through the hook the property names
   (Context::verif_mark_disconnected, --cfg poster_verif); elapsed time is a model parameter. *)
From Poster Require Import Model.Client Proofs.ClientP Proofs.QuotaP Proofs.HandshakeP Proofs.ResumeP.

(* expiry: interval 0, or a finite interval that has elapsed; 0xFFFFFFFF never expires *)
Theorem C17_expiry : forall (x : ctx) (t : N), t < 4294967296 ->
  session_expired x t = true <-> (sei x = 0 \/ (sei x <> 4294967295 /\ sei x <= t)).
Proof. exact session_expired_spec. Qed.
Print Assumptions C17_expiry.

(* resumption writes the retransmit queue in queue order and nothing else, takes one slot of the send quota for each
   entry (finding F21), and leaves the rest of the context state and the waiting operations untouched (they complete on
   the new connection's acks) *)
Theorem C17_resend : forall (l : list (N * bytes)) (s : sys), wbudget s = None ->
  wire_ev (fst (retransmit s l)) = wire_ev s ++ concat (map snd l) /\ snd (retransmit s l) = true /\
  same_but_quota (c (fst (retransmit s l))) (c s) /\ quota (c (fst (retransmit s l))) = quota (c s) - lenN l /\
  ops (fst (retransmit s l)) = ops s.
Proof. exact retransmit_wire. Qed.
Print Assumptions C17_resend.

(* what the queue holds: a QoS>0 PUBLISH enters when written, as a copy with DUP set ... *)
Theorem C17_queue_publish : forall (s : sys) (i ph a : N) (pkt : bytes),
  size_ok (c s) pkt = true -> ptype_of pkt = 3 -> quota (c s) <> 0 -> wbudget s = None ->
  retx (c (fst (handle_message s (MAwait i ph a pkt)))) = retx (c s) ++ [(a, set_dup pkt)].
Proof. exact retx_publish. Qed.
Print Assumptions C17_queue_publish.
Theorem C17_dup_bit : forall (h : N) (r : bytes), set_dup (h :: r) = N.lor h 8 :: r.
Proof. exact set_dup_spec. Qed.
Print Assumptions C17_dup_bit.
(* ... a PUBREL enters when written ... *)
Theorem C17_queue_pubrel : forall (s : sys) (i ph a : N) (pkt : bytes),
  size_ok (c s) pkt = true -> ptype_of pkt = 6 -> wbudget s = None ->
  retx (c (fst (handle_message s (MAwait i ph a pkt)))) = retx (c s) ++ [(a, pkt)].
Proof. exact retx_pubrel. Qed.
Print Assumptions C17_queue_pubrel.
(* ... PUBACK / PUBREC remove the PUBLISH of that identifier, PUBCOMP removes the PUBREL, and no
   other inbound packet touches the queue *)
Theorem C17_queue_acks : forall (s : sys) (p : rxpkt),
  retx (c (fst (handle_packet s p))) =
  match rk p with
  | KPuback => aremove (aid 4 (r_pid p)) (retx (c s))
  | KPubrec => aremove (aid 5 (r_pid p)) (retx (c s))
  | KPubcomp => aremove (aid 7 (r_pid p)) (retx (c s))
  | _ => retx (c s)
  end.
Proof. exact retx_ack. Qed.
Print Assumptions C17_queue_acks.

(* ---- every history of Context steps ------------------------------------------------------------------------
   `unfinished s g evs` (Proofs/ResumeP.v, written from the property) follows a history of handle messages and
   inbound packets and keeps the list of unfinished outbound handshakes in first-transmission order: a QoS>0
   PUBLISH from the moment it is written (stored with DUP=1) until its PUBACK/PUBREC; a PUBREL from the moment
   it is written until its PUBCOMP.  After ANY history the retransmit queue is exactly that list ... *)
Theorem C17_queue_is_unfinished : forall (evs : list qev) (s : sys), wbudget s = None ->
  retx (c (run_q s evs)) = unfinished s (retx (c s)) evs /\ wbudget (run_q s evs) = None.
Proof. exact retx_history. Qed.
Print Assumptions C17_queue_is_unfinished.
(* ... so resuming an unexpired session re-sends exactly the unfinished handshakes, in their original order,
   and nothing that was acknowledged *)
Theorem C17_resume : forall (evs : list qev) (s : sys), wbudget s = None ->
  let s' := run_q s evs in
  wire_ev (fst (retransmit s' (retx (c s')))) = wire_ev s' ++ concat (map snd (unfinished s (retx (c s)) evs)).
Proof. exact resume_wire. Qed.
Print Assumptions C17_resume.

Example C17_nonvacuous :
  let s0 := set_c sys_init (mkctx [] [] [] [] 5 5 None 0 None) in
  let pub1 := [50; 5; 0; 1; 116; 0; 1; 0] in let pub2 := [52; 5; 0; 1; 116; 0; 2; 0] in let rel2 := [98; 2; 0; 2] in
  unfinished s0 []
    [QMsg (MSub 9 (aid 9 7) 1 [130; 0]); QMsg (MAwait 0 1 (aid 4 1) pub1); QMsg (MAwait 1 1 (aid 5 2) pub2);
     QPkt (mkrx KPubrec false false false 0 2 0 [] [] [] []); QMsg (MAwait 1 2 (aid 7 2) rel2);
     QPkt (mkrx KPuback false false false 0 1 0 [] [] [] [])]
  = [(aid 7 2, rel2)].
Proof. vm_compute. reflexivity. Qed.
