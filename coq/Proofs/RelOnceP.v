(* C06, handle side over every history: the requests an operation future puts into the Context's queue.
   A poll of a future appends at most one request to the queue. The request is a PUBREL request of operation i
   (`MAwait i 2 ..`) only when it is i's own future that is polled, that future is a QoS 2 publish waiting on its first
   oneshot, the oneshot holds a PUBREC with reason < 0x80, and the request carries exactly the PUBREL for the PUBREC's
   identifier; the future then waits for the PUBCOMP (rank 2). Counting over ANY history from ANY state satisfying the
   reachable-state invariant in which the label is not started anew: the number of PUBREL requests of one publish() is at
   most one, and zero once the future has left its first wait (finished by a failing PUBREC, an error, or dropped). *)
From Poster Require Import Model.Sim Proofs.BytesP Proofs.ClientP Proofs.HandshakeP Proofs.SimInvP Proofs.OwnP Proofs.OnceP.
From Coq Require Import Lia PeanoNat.
Arguments N.add : simpl never. Arguments N.mul : simpl never. Arguments N.sub : simpl never.
Arguments N.ltb : simpl never. Arguments N.leb : simpl never. Arguments N.eqb : simpl never.

Definition is_rel (i : N) (m : cmsg) : bool :=
  match m with MAwait k ph _ _ => (k =? i) && (ph =? 2) | _ => false end.
Definition rels (i : N) (l : list cmsg) : nat := length (filter (is_rel i) l).

(* what a PUBREL request of operation i, issued by a poll of future j in state s, must look like *)
Definition RelOk (s : sys) (i j : N) (m : cmsg) : Prop :=
  j = i /\ exists o po p, alookup i (ops s) = Some o /\ o_phase o = Wait1 /\ o_kind o = OPub po /\
    (po_qos po =? 1) = false /\
    o_ch1 o = CFull (CPkt p) /\ rk p = KPubrec /\ (128 <=? r_reason p) = false /\
    m = MAwait i 2 (aid 7 (r_pid p)) (enc_pubrel (r_pid p)).

(* the requests a poll appends *)
Definition Appends (s : sys) (i j : N) (s' : sys) : Prop :=
  exists l, msgq s' = msgq s ++ l /\ (length l <= 1)%nat /\
    forall m, In m l -> is_rel i m = true -> RelOk s i j m /\ prank s' i = 2%nat.

Lemma app_none s i j s' : msgq s' = msgq s -> Appends s i j s'.
Proof. intros H. exists []. rewrite app_nil_r. split; [exact H|]. split; [cbn; lia|]. intros m []. Qed.
Lemma app_one_other s i j s' m : msgq s' = msgq s ++ [m] -> is_rel i m = false -> Appends s i j s'.
Proof.
  intros H Hm. exists [m]. split; [exact H|]. split; [cbn; lia|]. intros m' [<-|[]] Hr. rewrite Hm in Hr. discriminate.
Qed.
Lemma msgq_send s m s' : send s m = Some s' -> msgq s' = msgq s ++ [m].
Proof. unfold send. destruct (ctx_alive s); [|discriminate]. intros H. inversion H. reflexivity. Qed.
Lemma msgq_drop_recv s j : msgq (drop_recv s j) = msgq s.
Proof. unfold drop_recv. destruct (alookup j (streams s)); reflexivity. Qed.

Lemma first_poll_appends s i j o : Appends s i j (fst (first_poll s j o)).
Proof.
  unfold first_poll. cbv zeta.
  assert (HA : forall s0 pid a pkt, msgq s0 = msgq s ->
     Appends s i j (fst (match send s0 (MAwait j 1 a pkt) with Some s1 => pending s1 j o Wait1 pid | None => finish s0 j o RErrExited end))).
  { intros s0 pid a pkt H0. destruct (send s0 _) as [s1|] eqn:Es; [|apply app_none; exact H0].
    eapply app_one_other; [cbn [pending fst put_op set_ops msgq]; rewrite (msgq_send _ _ _ Es), H0; reflexivity|].
    cbn [is_rel]. replace (1 =? 2) with false by reflexivity. apply Bool.andb_false_r. }
  assert (HF : forall s0 pid k pkt, msgq s0 = msgq s ->
     Appends s i j (fst (match send s0 (MFire k pkt) with Some s1 => pending s1 j o Wait1 pid | None => finish s0 j o RErrExited end))).
  { intros s0 pid k pkt H0. destruct (send s0 _) as [s1|] eqn:Es; [|apply app_none; exact H0].
    eapply app_one_other; [cbn [pending fst put_op set_ops msgq]; rewrite (msgq_send _ _ _ Es), H0; reflexivity|reflexivity]. }
  destruct (o_kind o) as [po|so|uo| |d].
  - destruct (po_qos po =? 0).
    + destruct (enc_publish po 0); [apply HF; reflexivity|apply app_none; reflexivity|apply app_none; reflexivity].
    + destruct (alloc_pid (pid_ctr s)) as [pid ctr]. destruct (enc_publish po pid); [apply HA; reflexivity|apply app_none; reflexivity|apply app_none; reflexivity].
  - destruct (alloc_pid (pid_ctr s)) as [pid ctr]. destruct (alloc_subid (sub_ctr s)) as [sid sctr].
    destruct (enc_subscribe so pid sid); [|apply app_none; reflexivity|apply app_none; reflexivity].
    match goal with |- context [send ?s0 ?m] => destruct (send s0 m) as [s1|] eqn:Es end; [|apply app_none; reflexivity].
    eapply app_one_other; [cbn [pending fst put_op set_ops msgq]; rewrite (msgq_send _ _ _ Es); reflexivity|reflexivity].
  - destruct (alloc_pid (pid_ctr s)) as [pid ctr]. destruct (enc_unsubscribe uo pid); [apply HA; reflexivity|apply app_none; reflexivity|apply app_none; reflexivity].
  - apply HA; reflexivity.
  - destruct (enc_disconnect d); [apply HF; reflexivity|apply app_none; reflexivity|apply app_none; reflexivity].
Qed.

Lemma poll_wait1_appends s i j o : alookup j (ops s) = Some o -> o_phase o = Wait1 -> Appends s i j (fst (poll_wait1 s j o)).
Proof.
  intros Hl Hp. unfold poll_wait1.
  assert (F : forall X r, msgq X = msgq s -> Appends s i j (fst (finish X j o r))) by (intros X r H; apply app_none; exact H).
  destruct (o_ch1 o) as [|v|] eqn:Ec; [apply app_none; reflexivity| |].
  - destruct (o_kind o) as [po|so|uo| |d] eqn:Ek; destruct v as [|p| |]; try (apply F; try apply msgq_drop_recv; reflexivity);
      try (destruct (rk p); apply F; reflexivity).
    destruct (po_qos po =? 1) eqn:E1; destruct (rk p) eqn:Er; try (apply F; reflexivity);
      try (destruct (128 <=? r_reason p); apply F; reflexivity).
    destruct (128 <=? r_reason p) eqn:E128; [apply F; reflexivity|].
    match goal with |- context [send ?s0 ?m] => destruct (send s0 m) as [s1|] eqn:Es end; [|apply F; reflexivity].
    exists [MAwait j 2 (aid 7 (r_pid p)) (enc_pubrel (r_pid p))].
    split; [cbn [pending fst put_op set_ops msgq]; exact (msgq_send _ _ _ Es)|]. split; [cbn; lia|].
    intros m [<-|[]] Hr. cbn [is_rel] in Hr. apply Bool.andb_true_iff in Hr. destruct Hr as [Hji _]. apply N.eqb_eq in Hji. subst i.
    split.
    + split; [reflexivity|]. exists o, po, p. repeat split; try assumption.
    + unfold prank. cbn [pending fst put_op set_ops ops]. rewrite (ops_send _ _ _ Es), alookup_aset_same. reflexivity.
  - destruct (o_kind o); apply F; try apply msgq_drop_recv; reflexivity.
Qed.

Lemma poll_wait2_appends s i j o : Appends s i j (fst (poll_wait2 s j o)).
Proof.
  unfold poll_wait2. destruct (o_ch2 o) as [|v|]; [apply app_none; reflexivity| |apply app_none; reflexivity].
  destruct v as [|p| |]; try (apply app_none; reflexivity). destruct (rk p); apply app_none; reflexivity.
Qed.
Lemma poll_op_appends s i j : Appends s i j (fst (poll_op s j)).
Proof.
  unfold poll_op. destruct (alookup j (ops s)) as [o|] eqn:El; [|apply app_none; reflexivity].
  destruct (o_phase o) eqn:Ep; [apply first_poll_appends|apply poll_wait1_appends; assumption|apply poll_wait2_appends|apply app_none; reflexivity].
Qed.

(* ---- every event: requests enter the queue only through `send`, whose only callers are the polls of operation futures ------- *)
Definition new_reqs (s : sys) (e : event) : list cmsg :=
  match e with
  | EPoll j => skipn (length (msgq s)) (msgq (fst (poll_op (begin_ev s) j)))
  | _ => []
  end.
Definition relcap (s : sys) (i : N) : nat := if (Nat.leb (prank s i) 1) then 1%nat else 0%nat.

Lemma skipn_len_app {A} (a l : list A) : skipn (length a) (a ++ l) = l.
Proof. induction a as [|x a IH]; [reflexivity|exact IH]. Qed.
Lemma rels_le_len i l : (rels i l <= length l)%nat.
Proof. unfold rels. induction l as [|m l IH]; cbn [filter length]; [lia|]. destruct (is_rel i m); cbn [length]; lia. Qed.
Lemma rels_pos_in i l : (0 < rels i l)%nat -> exists m, In m l /\ is_rel i m = true.
Proof.
  unfold rels. induction l as [|m l IH]; cbn [filter length]; [lia|]. destruct (is_rel i m) eqn:E.
  - intros _. exists m. split; [left; reflexivity|exact E].
  - intros H. destruct (IH H) as (m' & Hin & Hm). exists m'. split; [right; exact Hin|exact Hm].
Qed.

Theorem new_reqs_spec s e i m : In m (new_reqs s e) -> is_rel i m = true ->
  exists j, e = EPoll j /\ RelOk (begin_ev s) i j m.
Proof.
  destruct e; cbn [new_reqs]; try (intros []). intros Hin Hr. exists i0. split; [reflexivity|].
  destruct (poll_op_appends (begin_ev s) i i0) as (l & Hq & _ & Hs). 
  change (msgq s) with (msgq (begin_ev s)) in Hin. rewrite Hq, skipn_len_app in Hin. exact (proj1 (Hs m Hin Hr)).
Qed.

Theorem step_rel_once s e i : Uniq s -> no_restart i e ->
  (rels i (new_reqs s e) + relcap (fst (step s e)) i <= relcap s i)%nat.
Proof.
  intros Hu Hn. pose proof (step_rank s e i Hu Hn) as Hmono.
  assert (Hcap : (relcap (fst (step s e)) i <= relcap s i)%nat).
  { unfold relcap. destruct (Nat.leb (prank s i) 1) eqn:E1; destruct (Nat.leb (prank (fst (step s e)) i) 1) eqn:E2; try lia.
    all: apply Nat.leb_le in E2; apply Nat.leb_gt in E1; lia. }
  destruct (Nat.eq_dec (rels i (new_reqs s e)) 0) as [Hz|Hnz]; [lia|].
  destruct (rels_pos_in i (new_reqs s e)) as (m & Hin & Hm); [lia|].
  destruct e; cbn [new_reqs] in Hin; try contradiction.
  destruct (poll_op_appends (begin_ev s) i i0) as (l & Hq & Hlen & Hs).
  assert (Hl : new_reqs s (EPoll i0) = l).
  { cbn [new_reqs]. change (msgq s) with (msgq (begin_ev s)). rewrite Hq. apply skipn_len_app. }
  cbn [new_reqs] in Hl. rewrite Hl in Hin. change (skipn (length (msgq s)) (msgq (fst (poll_op (begin_ev s) i0)))) with (new_reqs s (EPoll i0)). rewrite (Hl : new_reqs s (EPoll i0) = l). destruct (Hs m Hin Hm) as [[_ (o & po & p & Hlk & Hph & _)] H2].
  assert (Hb : prank s i = 1%nat).
  { unfold prank. change (ops s) with (ops (begin_ev s)). rewrite Hlk, Hph. reflexivity. }
  assert (Ha : prank (fst (step s (EPoll i0))) i = 2%nat).
  { unfold step. cbv zeta. destruct (poll_op (begin_ev s) i0) as [s1 ob]. cbn [fst] in *.
    rewrite (prank_phases _ _ i (phases_settle s1)). exact H2. }
  pose proof (rels_le_len i l). unfold relcap. rewrite Hb, Ha. cbn. lia.
Qed.

Fixpoint all_reqs (s : sys) (evs : list event) : list cmsg :=
  match evs with [] => [] | e :: r => new_reqs s e ++ all_reqs (fst (step s e)) r end.
Lemma rels_app i a b : rels i (a ++ b) = (rels i a + rels i b)%nat.
Proof. unfold rels. rewrite filter_app, app_length. reflexivity. Qed.

Theorem pubrel_at_most_once evs : forall s i, OI s -> Forall (no_restart i) evs ->
  (rels i (all_reqs s evs) + relcap (final_state s evs) i <= relcap s i)%nat.
Proof.
  induction evs as [|e evs IH]; intros s i HI Hf; cbn [all_reqs final_state]; [cbn; lia|].
  inversion Hf as [|? ? He Hr]; subst. rewrite rels_app.
  pose proof (step_rel_once s e i (proj2 HI) He) as H1. pose proof (IH (fst (step s e)) i (OI_step s e HI) Hr) as H2. lia.
Qed.

Corollary pubrel_le_one evs s i : OI s -> Forall (no_restart i) evs -> (rels i (all_reqs s evs) <= 1)%nat.
Proof. intros HI Hf. pose proof (pubrel_at_most_once evs s i HI Hf). unfold relcap in *. destruct (Nat.leb (prank s i) 1); lia. Qed.
Corollary pubrel_none_after evs s i : OI s -> Forall (no_restart i) evs -> (2 <= prank s i)%nat -> rels i (all_reqs s evs) = 0%nat.
Proof.
  intros HI Hf Hr. pose proof (pubrel_at_most_once evs s i HI Hf). unfold relcap in *.
  destruct (Nat.leb (prank s i) 1) eqn:E; [apply Nat.leb_le in E; lia|lia].
Qed.
