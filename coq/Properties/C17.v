(* C17 - resuming a session re-sends exactly the unfinished outbound handshakes.
   The disconnection is recorded through the hook the property names
   (Context::verif_mark_disconnected, --cfg poster_verif); elapsed time is a model parameter. *)
From Poster Require Import Proofs.IndepP Model.Sim Proofs.ClientP Proofs.QuotaP Proofs.HandshakeP Proofs.ResumeP Proofs.SimInvP Proofs.OwnP Proofs.TraceP Proofs.ResumeKeepP.

(* expiry: interval 0, or a finite interval that has elapsed; 0xFFFFFFFF never expires *)
Theorem C17_expiry : forall (x : ctx) (t : N), t < 4294967296 ->
  session_expired x t = true <-> (sei x = 0 \/ (sei x <> 4294967295 /\ sei x <= t)).
Proof. exact session_expired_spec. Qed.
Print Assumptions C17_expiry.

(* resumption writes the retransmit queue in queue order and nothing else, takes one slot of the send quota for each
   entry (finding F21), and leaves the rest of the context state and the waiting operations untouched (they complete on
   the new connection's acks) *)
Theorem C17_resend : forall (l : list (N * bytes)) (s : sys), wbudget s = None ->
  wire_ev (fst (retransmit s l)) = wire_ev s ++ concat (map snd l) /\ snd (retransmit s l) = true /\
  same_but_quota (c (fst (retransmit s l))) (c s) /\ quota (c (fst (retransmit s l))) = quota (c s) - lenN l /\
  ops (fst (retransmit s l)) = ops s.
Proof. exact retransmit_wire. Qed.
Print Assumptions C17_resend.

(* what the queue holds: a QoS>0 PUBLISH enters when written, as a copy with DUP set ... *)
Theorem C17_queue_publish : forall (s : sys) (i ph a : N) (pkt : bytes),
  size_ok (c s) pkt = true -> ptype_of pkt = 3 -> quota (c s) <> 0 -> wbudget s = None ->
  retx (c (fst (handle_message s (MAwait i ph a pkt)))) = retx (c s) ++ [(a, set_dup pkt)].
Proof. exact retx_publish. Qed.
Print Assumptions C17_queue_publish.
Theorem C17_dup_bit : forall (h : N) (r : bytes), set_dup (h :: r) = N.lor h 8 :: r.
Proof. exact set_dup_spec. Qed.
Print Assumptions C17_dup_bit.
(* ... a PUBREL enters when written ... *)
Theorem C17_queue_pubrel : forall (s : sys) (i ph a : N) (pkt : bytes),
  size_ok (c s) pkt = true -> ptype_of pkt = 6 -> wbudget s = None ->
  retx (c (fst (handle_message s (MAwait i ph a pkt)))) = retx (c s) ++ [(a, pkt)].
Proof. exact retx_pubrel. Qed.
Print Assumptions C17_queue_pubrel.
(* ... PUBACK / PUBREC remove the PUBLISH of that identifier, PUBCOMP removes the PUBREL, and no
   other inbound packet touches the queue *)
Theorem C17_queue_acks : forall (s : sys) (p : rxpkt),
  retx (c (fst (handle_packet s p))) =
  match rk p with
  | KPuback => aremove (aid 4 (r_pid p)) (retx (c s))
  | KPubrec => aremove (aid 5 (r_pid p)) (retx (c s))
  | KPubcomp => aremove (aid 7 (r_pid p)) (retx (c s))
  | _ => retx (c s)
  end.
Proof. exact retx_ack. Qed.
Print Assumptions C17_queue_acks.

(* ---- every history of Context steps ------------------------------------------------------------------------
   `unfinished s g evs` (Proofs/ResumeP.v, written from the property) follows a history of handle messages and
   inbound packets and keeps the list of unfinished outbound handshakes in first-transmission order: a QoS>0
   PUBLISH from the moment it is written (stored with DUP=1) until its PUBACK/PUBREC; a PUBREL from the moment
   it is written until its PUBCOMP.  After ANY history the retransmit queue is exactly that list ... *)
Theorem C17_queue_is_unfinished : forall (evs : list qev) (s : sys), wbudget s = None ->
  retx (c (run_q s evs)) = unfinished s (retx (c s)) evs /\ wbudget (run_q s evs) = None.
Proof. exact retx_history. Qed.
Print Assumptions C17_queue_is_unfinished.
(* ... so resuming an unexpired session re-sends exactly the unfinished handshakes, in their original order,
   and nothing that was acknowledged *)
Theorem C17_resume : forall (evs : list qev) (s : sys), wbudget s = None ->
  let s' := run_q s evs in
  wire_ev (fst (retransmit s' (retx (c s')))) = wire_ev s' ++ concat (map snd (unfinished s (retx (c s)) evs)).
Proof. exact resume_wire. Qed.
Print Assumptions C17_resume.

Example C17_nonvacuous :
  let s0 := set_c sys_init (mkctx [] [] [] [] 5 5 None 0 None) in
  let pub1 := [50; 5; 0; 1; 116; 0; 1; 0] in let pub2 := [52; 5; 0; 1; 116; 0; 2; 0] in let rel2 := [98; 2; 0; 2] in
  unfinished s0 []
    [QMsg (MSub 9 (aid 9 7) 1 [130; 0]); QMsg (MAwait 0 1 (aid 4 1) pub1); QMsg (MAwait 1 1 (aid 5 2) pub2);
     QPkt (mkrx KPubrec false false false 0 2 0 [] [] [] []); QMsg (MAwait 1 2 (aid 7 2) rel2);
     QPkt (mkrx KPuback false false false 0 1 0 [] [] [] [])]
  = [(aid 7 2, rel2)].
Proof. vm_compute. reflexivity. Qed.

(* ---- run() on a Context that recorded a disconnection -----------------------------------------------------------------------
   (Model/Sim.v start_run: the top of Context::run - is_reconnect / session_expired / reset_session / retransmit, then the
   run loop.)  Not expired: before anything else - before any request queued meanwhile is looked at, before anything the
   server sends is answered - run() writes the retransmit queue in order: by C17_queue_is_unfinished exactly the
   unfinished handshakes, PUBLISH copies with DUP set. *)
Theorem C17_resumed_first : forall (s : sys) (t : N), wbudget s = None -> disc_ts (c s) = Some t ->
  session_expired (c s) t = false ->
  exists tail, wire_ev (start_run s) = wire_ev s ++ concat (map snd (retx (c s))) ++ tail.
Proof. exact start_run_resumes. Qed.
Print Assumptions C17_resumed_first.

(* Expired: the retransmit queue, the awaited acknowledgements and the subscriptions of the old session are dropped -
   nothing of it is re-sent - and every operation that was awaiting an acknowledgement is resolved: no longer waiting
   on an empty oneshot, its next poll reports ContextExited (C14_pending_phase1/2) instead of hanging; then the run loop
   serves the new session. *)
Theorem C17_expired : forall (s : sys) (t : N), disc_ts (c s) = Some t -> session_expired (c s) t = true ->
  let s1 := reset_session (set_cph s CIdle) in
  retx (c s1) = [] /\ awaiting (c s1) = [] /\ subs (c s1) = [] /\
  (forall a i ph, In (a, (i, ph)) (awaiting (c s)) -> ~ unresolved s1 i (nph ph)) /\
  start_run s = settle (set_cph (set_c s1 (with_sei_ts (c s1) (sei (c s1)) None)) CRunning).
Proof. exact start_run_expired. Qed.
Print Assumptions C17_expired.

(* expiry 1000 s, disconnected 10 s ago: the unfinished PUBLISH (DUP) and PUBREL come first, then the request queued
   before run(); disconnected 5000 s ago: nothing is re-sent and the two abandoned operations report ContextExited *)
Example C17_run_nonvacuous :
  let mk t := final_state sys_init
    [EConnect (Build_connect_opts [99] 0 (Some 1000) None None None None None None None [] 0 false false
                 None None None None None None [] None None None None);
     EDeliver [32; 3; 0; 0; 0]; ERun;
     EStart 0 0 (OPub (Build_publish_opts 1 false (Some [116]) None None None None None None None [])); EPoll 0;
     EStart 1 0 (OPub (Build_publish_opts 2 false (Some [116]) None None None None None None None [])); EPoll 1;
     EDeliver [80; 2; 0; 2]; EPoll 1; EMarkDisc t; EReconnect;
     EConnect (Build_connect_opts [99] 0 (Some 1000) None None None None None None None [] 0 false false
                 None None None None None None [] None None None None);
     EDeliver [32; 3; 1; 0; 0];
     EStart 2 0 OPing; EHold; EPoll 2; ERelease] in
  wire_ev (start_run (begin_ev (mk 10))) = [58; 6; 0; 1; 116; 0; 1; 0; 98; 2; 0; 2; 192; 0] /\
  wire_ev (start_run (begin_ev (mk 5000))) = [192; 0] /\
  snd (poll_op (start_run (begin_ev (mk 5000))) 0) = [ODone 0 RErrExited] /\
  snd (poll_op (start_run (begin_ev (mk 5000))) 1) = [ODone 1 RErrExited].
Proof. vm_compute. auto. Qed.

(* the retransmit queue after a whole poll of the Context task of the script layer: the unfinished handshakes of the
   history the run loop took (TraceP.trace) *)
Theorem C17_queue_after_poll : forall s : sys, cph s = CRunning -> hold s = false -> ctx_alive s = true -> wbudget s = None ->
  retx (c (settle s)) = unfinished s (retx (c s)) (trace (settle_fuel s) s).
Proof. exact retx_after_poll. Qed.
Print Assumptions C17_queue_after_poll.

(* a CONNACK - accepted or refused, whatever its Session Present flag - leaves the session as it is: awaited
   acknowledgements, subscriptions, the retransmit queue, the identifiers awaiting PUBREL and the recorded disconnection;
   the Session Expiry Interval in force becomes the CONNACK's when it names one (longer or shorter than the CONNECT's) and
   stays what the CONNECT set otherwise *)
Theorem C17_connack_keeps_session : forall (x : ctx) (p : rxpkt),
  awaiting (handle_connack x p) = awaiting x /\ subs (handle_connack x p) = subs x /\
  retx (handle_connack x p) = retx x /\ await_rel (handle_connack x p) = await_rel x /\
  disc_ts (handle_connack x p) = disc_ts x /\
  sei (handle_connack x p) = match pnum 17 (r_props p) with Some v => v | None => sei x end.
Proof. exact connack_keeps_session. Qed.
Print Assumptions C17_connack_keeps_session.

(* a resumption reads the queue, it does not consume it (Proofs/ResumeKeepP.v): whatever the writer does - healthy, or failing
   after any number of bytes so that the resumption breaks off -, the retransmit queue, the awaited acknowledgements, the
   subscriptions, the inbound QoS 2 identifiers, the streams, the operations and the request queue are afterwards what they
   were (only the send quota moves, C17_resend). So when the resumed connection is lost again before anything was
   acknowledged, the next resumption re-sends exactly the same packets once more. *)
Theorem C17_resumption_keeps_queue : forall (l : list (N * bytes)) (s : sys),
  retx (c (fst (retransmit s l))) = retx (c s) /\ awaiting (c (fst (retransmit s l))) = awaiting (c s) /\
  subs (c (fst (retransmit s l))) = subs (c s) /\ await_rel (c (fst (retransmit s l))) = await_rel (c s) /\
  streams (fst (retransmit s l)) = streams s /\ ops (fst (retransmit s l)) = ops s /\ msgq (fst (retransmit s l)) = msgq s.
Proof. intros l s. exact (retransmit_keeps l s). Qed.
Print Assumptions C17_resumption_keeps_queue.
Theorem C17_resume_twice : forall (l : list (N * bytes)) (s : sys), wbudget s = None ->
  wire_ev (fst (retransmit (fst (retransmit s l)) l)) = wire_ev s ++ concat (map snd l) ++ concat (map snd l).
Proof. exact resume_twice. Qed.
Print Assumptions C17_resume_twice.
