(* takeN / dropN / repeat arithmetic over N-indexed lists. *)
From Poster Require Import Model.Bytes Proofs.BytesP.
From Coq Require Import ZArith ZifyN ZifyBool ZifyNat.
Ltac Zify.zify_post_hook ::= Z.div_mod_to_equations.
Arguments N.add : simpl never. Arguments N.mul : simpl never. Arguments N.sub : simpl never.
Arguments N.ltb : simpl never. Arguments N.leb : simpl never. Arguments N.eqb : simpl never.
Arguments N.min : simpl never.

Definition zeros (k : N) : bytes := repeat 0 (N.to_nat k).

Lemma lenN_repeat {A} (a : A) n : lenN (repeat a n) = N.of_nat n.
Proof. unfold lenN. rewrite repeat_length. reflexivity. Qed.
Lemma lenN_zeros k : lenN (zeros k) = k.
Proof. unfold zeros. rewrite lenN_repeat. lia. Qed.
Lemma zeros_add a b : zeros (a + b) = zeros a ++ zeros b.
Proof. unfold zeros. rewrite N2Nat.inj_add, repeat_app. reflexivity. Qed.

Lemma takeN_all {A} n (l : list A) : lenN l <= n -> takeN n l = l.
Proof. unfold takeN, lenN. intros H. apply firstn_all2. lia. Qed.
Lemma dropN_all {A} n (l : list A) : lenN l <= n -> dropN n l = [].
Proof. unfold dropN, lenN. intros H. apply skipn_all2. lia. Qed.
Lemma takeN_0 {A} (l : list A) : takeN 0 l = [].
Proof. reflexivity. Qed.
Lemma dropN_0 {A} (l : list A) : dropN 0 l = l.
Proof. reflexivity. Qed.
Lemma takeN_app_le {A} n (a b : list A) : n <= lenN a -> takeN n (a ++ b) = takeN n a.
Proof.
  unfold takeN, lenN. intros H. rewrite firstn_app.
  replace (N.to_nat n - length a)%nat with 0%nat by lia. cbn. apply app_nil_r.
Qed.
Lemma takeN_app_ge {A} n (a b : list A) : lenN a <= n -> takeN n (a ++ b) = a ++ takeN (n - lenN a) b.
Proof.
  unfold takeN, lenN. intros H. rewrite firstn_app, firstn_all2 by lia. f_equal. f_equal. lia.
Qed.
Lemma dropN_app_le {A} n (a b : list A) : n <= lenN a -> dropN n (a ++ b) = dropN n a ++ b.
Proof.
  unfold dropN, lenN. intros H. rewrite skipn_app.
  replace (N.to_nat n - length a)%nat with 0%nat by lia. reflexivity.
Qed.
Lemma dropN_app_ge {A} n (a b : list A) : lenN a <= n -> dropN n (a ++ b) = dropN (n - lenN a) b.
Proof.
  unfold dropN, lenN. intros H. rewrite skipn_app, skipn_all2 by lia. cbn. f_equal. lia.
Qed.
Lemma firstn_repeat' {A} (a : A) n k : firstn n (repeat a k) = repeat a (Nat.min n k).
Proof.
  revert k; induction n as [|n IH]; intros k; [reflexivity|]. destruct k as [|k]; [reflexivity|].
  cbn. rewrite IH. reflexivity.
Qed.
Lemma skipn_repeat' {A} (a : A) n k : skipn n (repeat a k) = repeat a (k - n).
Proof.
  revert k; induction n as [|n IH]; intros k; [cbn; rewrite Nat.sub_0_r; reflexivity|].
  destruct k as [|k]; [reflexivity|]. cbn. apply IH.
Qed.
Lemma takeN_zeros n k : takeN n (zeros k) = zeros (N.min n k).
Proof.
  unfold takeN, zeros. rewrite firstn_repeat'. f_equal. lia.
Qed.
Lemma dropN_zeros n k : dropN n (zeros k) = zeros (k - n).
Proof.
  unfold dropN, zeros. rewrite skipn_repeat'. f_equal. lia.
Qed.
Lemma takeN_takeN {A} n m (l : list A) : takeN n (takeN m l) = takeN (N.min n m) l.
Proof. unfold takeN. rewrite firstn_firstn. f_equal. lia. Qed.
Lemma tl_app {A} (a b : list A) : a <> [] -> tl (a ++ b) = tl a ++ b.
Proof. destruct a; [contradiction|reflexivity]. Qed.
Lemma lenN_tl {A} (l : list A) : lenN (tl l) = lenN l - 1.
Proof. destruct l; [reflexivity|]. rewrite lenN_cons. cbn [tl]. lia. Qed.
Lemma lenN_pos_ne {A} (l : list A) : 1 <= lenN l -> l <> [].
Proof. destruct l; [rewrite lenN_nil; lia|discriminate]. Qed.
Lemma lenN_concat_total (l : list bytes) : lenN (concat l) = fold_right (fun s a => lenN s + a) 0 l.
Proof. induction l as [|s l IH]; [reflexivity|]. cbn [concat fold_right]. rewrite lenN_app, IH. reflexivity. Qed.
