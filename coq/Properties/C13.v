(* C13 - connect() and run() end with the documented outcome, and only then. *)
From Poster Require Import Model.Sim Proofs.ClientP Proofs.RunP Proofs.SimInvP Proofs.SettleP Proofs.HandleClosedP.

(* run(): a handler makes the loop exit only for a documented cause, with its outcome.
   Inbound packets (no transport fault): only a server DISCONNECT (Ok for reason 0,
   Disconnected carrying the packet otherwise) or a CONNACK/AUTH out of place (an error) *)
Theorem C13_packet_exits : forall (s : sys) (p : rxpkt) (r : runres),
  wbudget s = None -> snd (handle_packet s p) = Exit r ->
  (rk p = KDisconnect /\ r = (if r_reason p =? 0 then RunOk else RunDisconnected p)) \/
  ((rk p = KConnack \/ rk p = KAuth) /\ r = RunCodec).
Proof. exact handle_packet_exit. Qed.
Print Assumptions C13_packet_exits.

(* handle messages (no transport fault): only the user's DISCONNECT, once written in full, and
   it is the last thing on the wire *)
Theorem C13_message_exits : forall (s : sys) (m : cmsg) (r : runres),
  wbudget s = None -> snd (handle_message s m) = Exit r ->
  exists i pkt, m = MFire i pkt /\ ptype_of pkt = 14 /\ r = RunOk /\
                wire_ev (fst (handle_message s m)) = wire_ev s ++ pkt.
Proof. exact handle_message_exit. Qed.
Print Assumptions C13_message_exits.

(* and the causes do end it *)
Theorem C13_server_disconnect : forall (s : sys) (p : rxpkt), rk p = KDisconnect ->
  snd (handle_packet s p) = Exit (if r_reason p =? 0 then RunOk else RunDisconnected p).
Proof. exact server_disconnect_exits. Qed.
Print Assumptions C13_server_disconnect.
Theorem C13_user_disconnect : forall (s : sys) (i : N) (pkt : bytes),
  wbudget s = None -> size_ok (c s) pkt = true -> ptype_of pkt = 14 ->
  snd (handle_message s (MFire i pkt)) = Exit RunOk.
Proof. exact user_disconnect_exits. Qed.
Print Assumptions C13_user_disconnect.

(* one turn of the run loop: every exit is one of the documented causes *)
Theorem C13_run_turn : forall (s s' : sys), wbudget s = None -> run_turn s = (s', TStop) ->
  tail_ev s' = tail_ev s \/
  exists r, tail_ev s' = tail_ev s ++ [ORun r] /\ run_exit_cause s r.
Proof. exact run_turn_exit. Qed.
Print Assumptions C13_run_turn.

(* connect()/authorize(): outcome as a function of the first packet *)
Theorem C13_connect : forall (p : rxpkt),
  conn_result p = (if 128 <=? r_reason p then ConnErrConnect p
                   else match pnum 41 (r_props p) with Some 0 => ConnAssert | _ => ConnAck p end).
Proof. reflexivity. Qed.
Print Assumptions C13_connect.

(* the whole run loop, any number of turns (inbound packets and handle messages in any interleaving), no
   transport fault: either it is still serving (parked on Pending with nothing to do - nothing reported), or it
   reports exactly one result, and that result has one of the documented causes in the state its last turn started
   from.  In particular it does not return while none of the causes has happened. *)
Theorem C13_run_loop : forall (fuel : nat) (s : sys), wbudget s = None -> cph s = CRunning ->
  tail_ev (settle_loop fuel s) = tail_ev s \/
  exists s0 r, wbudget s0 = None /\ run_exit_cause s0 r /\ tail_ev (settle_loop fuel s) = tail_ev s ++ [ORun r].
Proof. exact settle_loop_exit. Qed.
Print Assumptions C13_run_loop.

(* once run() has returned - whatever the cause: the user's DISCONNECT written in full (C13_user_disconnect), a server
   DISCONNECT, the end of the transport ... - the Context task is not running (exit_run: phase CIdle), and polling it
   changes nothing: nothing is read, nothing is written after the DISCONNECT, no request is taken from the queue *)
Theorem C13_exit_is_final : forall (s : sys) (r : runres), cph (exit_run s r) = CIdle.
Proof. reflexivity. Qed.
Print Assumptions C13_exit_is_final.
Theorem C13_nothing_after_exit : forall (s : sys), cph s = CIdle -> forall n : nat, settle_loop n s = s.
Proof. intros s Hc n. apply stopped_fix. unfold Stopped. rewrite Hc. exact I. Qed.
Print Assumptions C13_nothing_after_exit.

(* HandleClosed once every handle is dropped, and not before (Proofs/HandleClosedP.v): a turn of the run loop that reports
   HandleClosed started in a state whose request queue is empty and in which NO sender of the request channel is left - no
   handle clone, no operation future holding one (`live_senders` counts both) *)
Theorem C13_handle_closed_only_when_none_left : forall (s s' : sys), wbudget s = None -> run_turn s = (s', TStop) ->
  tail_ev s' = tail_ev s ++ [ORun RunHandleClosed] -> live_senders s = 0 /\ msgq s = [].
Proof. exact handle_closed_only_when_none_left. Qed.
Print Assumptions C13_handle_closed_only_when_none_left.
Check (eq_refl : live_senders = fun s => lenN (handles s) + lenN (filter (fun e => holds_sender (snd e)) (ops s))).
