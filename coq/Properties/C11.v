(* C11 - packet identifiers are non-zero and unique among outstanding operations, for any
   history; every subscribe() call gets its own subscription identifier.
   The shared AtomicU16 / AtomicU32 give all allocations, from whatever clones and threads, one
   total order: a history of allocations is a sequence of alloc_pid / alloc_subid steps
   (Model/Client.v), started from any counter value a previous history may have left. *)
From Poster Require Import Model.Client Proofs.AllocP.

(* every identifier ever handed out is a valid non-zero u16, whatever the history length
   (wrap-around included): no allocation can produce 0, hence no NonZero::try_from(0).unwrap() *)
Theorem C11_nonzero : forall (n : nat) (ctr id : N),
  ctr < 65536 -> In id (allocs n ctr) -> 1 <= id <= 65535.
Proof. exact allocs_nonzero. Qed.
Print Assumptions C11_nonzero.

(* the counter remains a u16 after every step, so the theorems apply to any continuation *)
Theorem C11_counter_range : forall ctr, ctr < 65536 -> snd (alloc_pid ctr) < 65536.
Proof. exact alloc_pid_range. Qed.
Print Assumptions C11_counter_range.

(* two identifiers handed out fewer than 65535 allocations apart are different: an operation
   outstanding while fewer than 65535 identifiers are allocated shares its identifier with none *)
Theorem C11_window : forall (n : nat) (ctr : N) (i j : nat),
  ctr < 65536 -> (i < j < n)%nat -> N.of_nat j - N.of_nat i < 65535 ->
  nth i (allocs n ctr) 0 <> nth j (allocs n ctr) 0.
Proof. exact allocs_window. Qed.
Print Assumptions C11_window.

Theorem C11_unique : forall (n : nat) (ctr : N),
  ctr < 65536 -> N.of_nat n <= 65535 -> NoDup (allocs n ctr).
Proof. exact allocs_nodup. Qed.
Print Assumptions C11_unique.

(* subscription identifiers: the first 2^28 - 1 subscribe() calls get 1, 2, 3, ... - pairwise
   distinct, non-zero and representable as a variable byte integer (MQTT's own bound) *)
Theorem C11_subid : forall (n k : nat), (k < n)%nat -> N.of_nat n <= 268435455 ->
  nth k (suballocs n 1) 0 = 1 + N.of_nat k /\ 1 <= nth k (suballocs n 1) 0 <= 268435455.
Proof. exact suballocs_fresh. Qed.
Print Assumptions C11_subid.

(* non-vacuity: a history that crosses the wrap-around *)
Example C11_nonvacuous : allocs 3 65535 = [65535; 1; 2].
Proof. vm_compute. reflexivity. Qed.
