(* C02 - well-formed inbound packets decode to exactly the values the server sent.
   Spec/Mqtt.v gives, from the standard, an ENCODER for every packet a server may send (all legal
   property lists in any order, repeated user properties, the shortened forms).  Each theorem:
   the decoder of Model/Rx.v accepts the encoded packet and yields exactly the encoded values. *)
From Poster Require Import Model.Rx Spec.Mqtt Proofs.VarintP Proofs.CodecP Proofs.RxSpecP.

(* the standard's variable byte integer algorithm and property table are the ones the code uses *)
Theorem C02_varint_algorithm : forall n, n <= VMAX -> spec_varint n = venc n.
Proof. exact spec_varint_venc. Qed.
Print Assumptions C02_varint_algorithm.
Theorem C02_property_table : forall id, spec_ptype id = model_ptype id.
Proof. exact spec_ptype_model. Qed.
Print Assumptions C02_property_table.

(* every list of well-formed properties - any identifiers of the MQTT 5 table, any order, any
   repetition (user properties) - decodes to exactly that list *)
Theorem C02_props : forall ps, Forall wf_prop ps -> dec_props_all (enc_props ps) = Ok ps.
Proof. exact props_roundtrip. Qed.
Print Assumptions C02_props.
Theorem C02_value : forall t v r, wf_pval t v -> dec_pval t (enc_pval v ++ r) = Ok v.
Proof. exact dec_pval_enc. Qed.
Print Assumptions C02_value.
Theorem C02_varint : forall n rest, n <= VMAX -> vdec (venc n ++ rest) = VOk n (VarintP.vlen0 n).
Proof. exact vdec_venc. Qed.
Print Assumptions C02_varint.

Theorem C02_connack : forall sp reason ps,
  memN reason spec_connect_reasons = true -> wf_props connack_ids ps ->
  lenN ([b2n' sp; reason] ++ spec_props ps) <= VMAX ->
  dec_packet (spec_connack sp reason ps) = Ok (mkrx KConnack sp false false 0 0 reason ps [] [] []).
Proof. exact dec_connack_spec. Qed.
Print Assumptions C02_connack.

Theorem C02_publish : forall dup qos retain topic pid ps payload,
  qos <= 2 -> str_ok topic -> (qos <> 0 -> 1 <= pid < 65536) -> wf_props publish_ids ps ->
  lenN (enc_bin topic ++ (if qos =? 0 then [] else enc_u16 pid) ++ spec_props ps ++ payload) <= VMAX ->
  dec_packet (spec_publish dup qos retain topic pid ps payload) =
  Ok (mkrx KPublish false dup retain qos (if qos =? 0 then 0 else pid) 0 ps topic payload []).
Proof. exact dec_publish_packet. Qed.
Print Assumptions C02_publish.

(* the four acknowledgement packets, in the 2-byte, 3-byte and full forms *)
Theorem C02_puback : forall pid reason ps form,
  1 <= pid < 65536 -> memN reason spec_puback_reasons = true -> wf_props ack_ids ps ->
  lenN (ack_body pid reason ps form) <= VMAX ->
  dec_packet (spec_ack 64 pid reason ps form) =
  Ok (mkrx KPuback false false false 0 pid (match form with AckShort2 => 0 | _ => reason end)
           (match form with AckFull => ps | _ => [] end) [] [] []).
Proof. exact dec_puback_spec. Qed.
Print Assumptions C02_puback.
Theorem C02_pubrec : forall pid reason ps form,
  1 <= pid < 65536 -> memN reason spec_puback_reasons = true -> wf_props ack_ids ps ->
  lenN (ack_body pid reason ps form) <= VMAX ->
  dec_packet (spec_ack 80 pid reason ps form) =
  Ok (mkrx KPubrec false false false 0 pid (match form with AckShort2 => 0 | _ => reason end)
           (match form with AckFull => ps | _ => [] end) [] [] []).
Proof. exact dec_pubrec_spec. Qed.
Print Assumptions C02_pubrec.
Theorem C02_pubrel : forall pid reason ps form,
  1 <= pid < 65536 -> memN reason spec_pubrel_reasons = true -> wf_props ack_ids ps ->
  lenN (ack_body pid reason ps form) <= VMAX ->
  dec_packet (spec_ack 98 pid reason ps form) =
  Ok (mkrx KPubrel false false false 0 pid (match form with AckShort2 => 0 | _ => reason end)
           (match form with AckFull => ps | _ => [] end) [] [] []).
Proof. exact dec_pubrel_spec. Qed.
Print Assumptions C02_pubrel.
Theorem C02_pubcomp : forall pid reason ps form,
  1 <= pid < 65536 -> memN reason spec_pubrel_reasons = true -> wf_props ack_ids ps ->
  lenN (ack_body pid reason ps form) <= VMAX ->
  dec_packet (spec_ack 112 pid reason ps form) =
  Ok (mkrx KPubcomp false false false 0 pid (match form with AckShort2 => 0 | _ => reason end)
           (match form with AckFull => ps | _ => [] end) [] [] []).
Proof. exact dec_pubcomp_spec. Qed.
Print Assumptions C02_pubcomp.

Theorem C02_suback : forall pid ps codes,
  1 <= pid < 65536 -> wf_props ack_ids ps -> forallb (fun b => memN b spec_suback_reasons) codes = true ->
  lenN (enc_u16 pid ++ spec_props ps ++ codes) <= VMAX ->
  dec_packet (spec_suback 144 pid ps codes) = Ok (mkrx KSuback false false false 0 pid 0 ps [] [] codes).
Proof. exact dec_suback_packet. Qed.
Print Assumptions C02_suback.
Theorem C02_unsuback : forall pid ps codes,
  1 <= pid < 65536 -> wf_props ack_ids ps -> forallb (fun b => memN b spec_unsuback_reasons) codes = true ->
  lenN (enc_u16 pid ++ spec_props ps ++ codes) <= VMAX ->
  dec_packet (spec_suback 176 pid ps codes) = Ok (mkrx KUnsuback false false false 0 pid 0 ps [] [] codes).
Proof. exact dec_unsuback_packet. Qed.
Print Assumptions C02_unsuback.

Theorem C02_pingresp : dec_packet spec_pingresp = Ok (rx0 KPingresp).
Proof. exact dec_pingresp_packet. Qed.
Print Assumptions C02_pingresp.

(* DISCONNECT in the 0-byte, 1-byte and full forms *)
Theorem C02_disconnect : forall reason ps form,
  memN reason spec_disconnect_reasons = true -> wf_props disconnect_ids ps ->
  lenN ([reason] ++ spec_props ps) <= VMAX ->
  dec_packet (spec_disconnect reason ps form) =
  Ok (mkrx KDisconnect false false false 0 0 (match form with DiscShort0 => 0 | _ => reason end)
           (match form with DiscFull => ps | _ => [] end) [] [] []).
Proof. exact dec_disconnect_packet. Qed.
Print Assumptions C02_disconnect.

(* AUTH in the 0-byte and full forms (the Authentication Method is mandatory in the full form) *)
Theorem C02_auth : forall reason ps short,
  memN reason spec_auth_reasons = true -> wf_props auth_ids ps -> (exists m, In (21, m) ps) ->
  lenN ([reason] ++ spec_props ps) <= VMAX ->
  dec_packet (spec_auth reason ps short) =
  Ok (if short then rx0 KAuth else mkrx KAuth false false false 0 0 reason ps [] [] []).
Proof. exact dec_auth_packet. Qed.
Print Assumptions C02_auth.

(* accessors: the builders keep the LAST occurrence; for a legal packet (each identifier at most
   once, user properties aside) that is the one value that was sent, independent of the order in which the
   properties were written; user properties are exposed in wire order (Props.users) *)
Theorem C02_order : forall id ps, (count_id id ps <= 1)%nat -> plast id ps = pfirst id ps.
Proof. exact plast_pfirst. Qed.
Print Assumptions C02_order.

Example C02_nonvacuous :
  let ps := [(38, VPr [107] [118]); (17, V32 4294967295); (33, V16 1); (38, VPr [] []); (31, VStr [104; 105])] in
  wf_props connack_ids ps /\
  dec_packet (spec_connack true 0 ps) = Ok (mkrx KConnack true false false 0 0 0 ps [] [] []).
Proof.
  split; [|vm_compute; reflexivity]. split; [|split].
  - repeat (apply Forall_cons; [unfold swf_prop, wf_pval, str_ok; cbn; repeat split; try reflexivity; try lia|]). apply Forall_nil.
  - intros p Hp. cbn [In] in Hp. repeat (destruct Hp as [<-|Hp]; [cbn; tauto|]). destruct Hp.
  - vm_compute. discriminate.
Qed.
