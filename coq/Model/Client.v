(* The client as a sequential state machine: the Context actor (src/client/context.rs), the
   handle-side operation futures (src/client/handle.rs) as phase machines, the subscription
   streams (src/client/stream.rs) and the assumed semantics of the futures channels that
   connect them.  One event of a script = one call of a function of this file; the functions
   run to completion with respect to the session state exactly as the Rust handlers do. *)
From Poster Require Export Model.Rx Model.Tx Model.Framing.

(* ---- values travelling through the oneshot channels ------------------------------------ *)
Inductive cval :=
| CUnit                      (* Ok(()) of a fire-and-forget request *)
| CPkt (p : rxpkt)           (* Ok(acknowledgement) *)
| CQuota | CTooBig.          (* Err(QuotaExceeded) / Err(MaximumPacketSizeExceeded) *)
(* oneshot: empty, filled, or its sender dropped without sending (receiver sees Canceled) *)
Inductive chan := CEmpty | CFull (v : cval) | CGone.

(* ---- what an operation future returns --------------------------------------------------- *)
Inductive opres :=
| ROk
| RSub (p : rxpkt) | RUnsub (p : rxpkt)
| RErrCodec | RErrExited | RErrQuota | RErrTooBig
| RErrPuback (p : rxpkt) | RErrPubrec (p : rxpkt) | RErrPubcomp (p : rxpkt)
| RPanic.

Inductive opkind :=
| OPub (o : publish_opts) | OSub (o : subscribe_opts) | OUnsub (o : unsubscribe_opts)
| OPing | ODisc (o : disconnect_opts).

Inductive phase := NotStarted | Wait1 | Wait2 | Finished.

Record op := mkop {
  o_kind : opkind;
  o_phase : phase;
  o_ch1 : chan; o_ch2 : chan;      (* the oneshot of the phase; both ends modelled here *)
  o_pid : N }.

(* messages of the handle -> context mpsc channel *)
Inductive cmsg :=
| MFire (i : N) (pkt : bytes)
| MAwait (i : N) (ph : N) (aid : N) (pkt : bytes)
| MSub (i : N) (aid subid : N) (pkt : bytes).

(* a subscription stream: the unbounded channel context -> SubscribeRsp/SubscribeStream *)
Record strm := mkst { st_buf : list rxpkt; st_sender : bool; st_recv : bool;
                      st_taken : bool (* SubscribeRsp::stream() was called *) }.

Record ctx := mkctx {
  awaiting : list (N * (N * N));      (* action id -> (operation, phase): awaiting_ack *)
  subs : list (N * N);                (* subscription identifier -> stream: subscriptions *)
  retx : list (N * bytes);            (* retrasmit_queue *)
  await_rel : list N;                 (* awaiting_pubrel (inbound QoS 2 identifiers) *)
  quota : N; rmax : N; maxpkt : option N; sei : N;
  disc_ts : option N }.               (* Some t: disconnected t seconds ago *)

Definition ctx_init : ctx := mkctx [] [] [] [] 65535 65535 None 0 None.

Inductive cphase := CIdle | CConnecting | CRunning.

Inductive runres :=
| RunOk | RunSocketClosed | RunHandleClosed | RunCodec | RunDisconnected (p : rxpkt) | RunPanic.
Inductive connres :=
| ConnAck (p : rxpkt) | ConnAuth (p : rxpkt) | ConnErrConnect (p : rxpkt)
| ConnErrCodec | ConnErrSocketClosed | ConnAssert (* documented assertion *) | ConnPanic.

(* observations, in the order the harness prints them *)
Inductive obs :=
| OWire (b : bytes)
| OConn (r : connres) | ORun (r : runres)
| ODone (i : N) (r : opres) | OPend (i : N)
| OItem (j : N) (p : rxpkt) | ONone (j : N) | OEnd (j : N)
| OUnknown (what : N) (i : N)
| OAlloc (i : N) (pid : option N) (panicked : bool) | OIncomplete (i : N).

Record sys := mksys {
  rd : reader; fr : rx; wbudget : option N;
  ctx_alive : bool; cph : cphase; c : ctx;
  msgq : list cmsg;
  ops : list (N * op);
  streams : list (N * strm);
  handles : list N;
  pid_ctr : N; sub_ctr : N;
  hold : bool;
  wire_ev : bytes;               (* bytes accepted by the writer during the current event *)
  tail_ev : list obs }.          (* C / R line of the current event (printed after the wire) *)

Definition sys_init : sys :=
  mksys rd_init rx_init None true CIdle ctx_init [] [] [] [0] 1 1 false [] [].

(* ---- small map helpers (association lists keyed by N, first match) ---------------------- *)
Fixpoint alookup {A} (k : N) (l : list (N * A)) : option A :=
  match l with [] => None | (k', a) :: r => if k' =? k then Some a else alookup k r end.
Fixpoint aremove {A} (k : N) (l : list (N * A)) : list (N * A) :=   (* first match only *)
  match l with [] => [] | (k', a) :: r => if k' =? k then r else (k', a) :: aremove k r end.
Fixpoint aset {A} (k : N) (a : A) (l : list (N * A)) : list (N * A) :=
  match l with
  | [] => [(k, a)]
  | (k', a') :: r => if k' =? k then (k, a) :: r else (k', a') :: aset k a r
  end.

(* ---- record updates ---------------------------------------------------------------------- *)
Definition set_c (s : sys) (c' : ctx) : sys :=
  mksys (rd s) (fr s) (wbudget s) (ctx_alive s) (cph s) c' (msgq s) (ops s) (streams s)
        (handles s) (pid_ctr s) (sub_ctr s) (hold s) (wire_ev s) (tail_ev s).
Definition set_ops (s : sys) (o : list (N * op)) : sys :=
  mksys (rd s) (fr s) (wbudget s) (ctx_alive s) (cph s) (c s) (msgq s) o (streams s)
        (handles s) (pid_ctr s) (sub_ctr s) (hold s) (wire_ev s) (tail_ev s).
Definition set_streams (s : sys) (st : list (N * strm)) : sys :=
  mksys (rd s) (fr s) (wbudget s) (ctx_alive s) (cph s) (c s) (msgq s) (ops s) st
        (handles s) (pid_ctr s) (sub_ctr s) (hold s) (wire_ev s) (tail_ev s).
Definition set_msgq (s : sys) (q : list cmsg) : sys :=
  mksys (rd s) (fr s) (wbudget s) (ctx_alive s) (cph s) (c s) q (ops s) (streams s)
        (handles s) (pid_ctr s) (sub_ctr s) (hold s) (wire_ev s) (tail_ev s).
Definition set_cph (s : sys) (p : cphase) : sys :=
  mksys (rd s) (fr s) (wbudget s) (ctx_alive s) p (c s) (msgq s) (ops s) (streams s)
        (handles s) (pid_ctr s) (sub_ctr s) (hold s) (wire_ev s) (tail_ev s).
Definition set_io (s : sys) (r : reader) (f : rx) : sys :=
  mksys r f (wbudget s) (ctx_alive s) (cph s) (c s) (msgq s) (ops s) (streams s)
        (handles s) (pid_ctr s) (sub_ctr s) (hold s) (wire_ev s) (tail_ev s).
Definition set_wire (s : sys) (b : option N) (w : bytes) : sys :=
  mksys (rd s) (fr s) b (ctx_alive s) (cph s) (c s) (msgq s) (ops s) (streams s)
        (handles s) (pid_ctr s) (sub_ctr s) (hold s) w (tail_ev s).
Definition set_tail (s : sys) (t : list obs) : sys :=
  mksys (rd s) (fr s) (wbudget s) (ctx_alive s) (cph s) (c s) (msgq s) (ops s) (streams s)
        (handles s) (pid_ctr s) (sub_ctr s) (hold s) (wire_ev s) t.
Definition set_ctrs (s : sys) (p q : N) : sys :=
  mksys (rd s) (fr s) (wbudget s) (ctx_alive s) (cph s) (c s) (msgq s) (ops s) (streams s)
        (handles s) p q (hold s) (wire_ev s) (tail_ev s).
Definition set_handles (s : sys) (h : list N) : sys :=
  mksys (rd s) (fr s) (wbudget s) (ctx_alive s) (cph s) (c s) (msgq s) (ops s) (streams s)
        h (pid_ctr s) (sub_ctr s) (hold s) (wire_ev s) (tail_ev s).
Definition set_hold (s : sys) (h : bool) : sys :=
  mksys (rd s) (fr s) (wbudget s) (ctx_alive s) (cph s) (c s) (msgq s) (ops s) (streams s)
        (handles s) (pid_ctr s) (sub_ctr s) h (wire_ev s) (tail_ev s).

Definition with_awaiting (x : ctx) a := mkctx a (subs x) (retx x) (await_rel x) (quota x) (rmax x) (maxpkt x) (sei x) (disc_ts x).
Definition with_subs (x : ctx) a := mkctx (awaiting x) a (retx x) (await_rel x) (quota x) (rmax x) (maxpkt x) (sei x) (disc_ts x).
Definition with_retx (x : ctx) a := mkctx (awaiting x) (subs x) a (await_rel x) (quota x) (rmax x) (maxpkt x) (sei x) (disc_ts x).
Definition with_rel (x : ctx) a := mkctx (awaiting x) (subs x) (retx x) a (quota x) (rmax x) (maxpkt x) (sei x) (disc_ts x).
Definition with_quota (x : ctx) q := mkctx (awaiting x) (subs x) (retx x) (await_rel x) q (rmax x) (maxpkt x) (sei x) (disc_ts x).

(* ---- transport write: TxPacketStream::write = write_all ----------------------------------- *)
(* true = the whole packet was accepted; false = the scripted write error hit *)
Definition write (s : sys) (pkt : bytes) : sys * bool :=
  match wbudget s with
  | None => (set_wire s None (wire_ev s ++ pkt), true)
  | Some b =>
    if lenN pkt <=? b then (set_wire s (Some (b - lenN pkt)) (wire_ev s ++ pkt), true)
    else (set_wire s (Some 0) (wire_ev s ++ takeN b pkt), false)
  end.

(* ---- oneshot completion: Sender::send, whose failure (receiver dropped) is ignored -------- *)
Definition fill_chan (ch : chan) (v : cval) : chan :=
  match ch with CEmpty => CFull v | other => other end.
Definition complete (s : sys) (i ph : N) (v : cval) : sys :=
  match alookup i (ops s) with
  | None => s                                (* the operation's future was dropped *)
  | Some o =>
    let o' := if ph =? 1 then mkop (o_kind o) (o_phase o) (fill_chan (o_ch1 o) v) (o_ch2 o) (o_pid o)
              else mkop (o_kind o) (o_phase o) (o_ch1 o) (fill_chan (o_ch2 o) v) (o_pid o) in
    set_ops s (aset i o' (ops s))
  end.
(* a sender dropped without sending *)
Definition gone_chan (ch : chan) : chan := match ch with CEmpty => CGone | other => other end.
Definition cancel (s : sys) (i ph : N) : sys :=
  match alookup i (ops s) with
  | None => s
  | Some o =>
    let o' := if ph =? 1 then mkop (o_kind o) (o_phase o) (gone_chan (o_ch1 o)) (o_ch2 o) (o_pid o)
              else mkop (o_kind o) (o_phase o) (o_ch1 o) (gone_chan (o_ch2 o)) (o_pid o) in
    set_ops s (aset i o' (ops s))
  end.
Definition close_stream_sender (s : sys) (j : N) : sys :=
  match alookup j (streams s) with
  | None => s
  | Some st => set_streams s (aset j (mkst (st_buf st) false (st_recv st) (st_taken st)) (streams s))
  end.

(* ---- action ids: src/client/utils.rs ------------------------------------------------------- *)
Definition aid (ack_type pid : N) : N := ack_type * 16777216 + pid * 256.

(* ---- Context::validate_packet_size --------------------------------------------------------- *)
Definition size_ok (x : ctx) (pkt : bytes) : bool :=
  match maxpkt x with None => true | Some m => lenN pkt <=? m end.

Definition set_dup (pkt : bytes) : bytes :=
  match pkt with h :: r => N.lor h 8 :: r | [] => [] end.
Definition ptype_of (pkt : bytes) : N := match pkt with h :: _ => N.shiftr h 4 | [] => 0 end.

(* what the run loop does after a handler returns *)
Inductive after := Continue | Exit (r : runres).

(* ---- Context::handle_message ---------------------------------------------------------------- *)
Definition handle_message (s : sys) (m : cmsg) : sys * after :=
  match m with
  | MFire i pkt =>
    if negb (size_ok (c s) pkt) then (complete s i 1 CTooBig, Continue)
    else
      let ok := snd (write s pkt) in
      let s := fst (write s pkt) in
      if negb ok then (cancel s i 1, Exit RunSocketClosed)
      else
        let s := complete s i 1 CUnit in
        (s, if ptype_of pkt =? 14 then Exit RunOk else Continue)
  | MAwait i ph a pkt =>
    if negb (size_ok (c s) pkt) then (complete s i ph CTooBig, Continue)
    else if ptype_of pkt =? 3 then
      if quota (c s) =? 0 then (complete s i ph CQuota, Continue)
      else
        let s := set_c s (with_quota (c s) (quota (c s) - 1)) in
        let ok := snd (write s pkt) in
        let s := fst (write s pkt) in
        if negb ok then (cancel s i ph, Exit RunSocketClosed)
        else
          let x := c s in
          let x := with_awaiting x (awaiting x ++ [(a, (i, ph))]) in
          let x := with_retx x (retx x ++ [(a, set_dup pkt)]) in
          (set_c s x, Continue)
    else if ptype_of pkt =? 6 then
      let ok := snd (write s pkt) in
      let s := fst (write s pkt) in
      if negb ok then (cancel s i ph, Exit RunSocketClosed)
      else
        let x := c s in
        let x := with_awaiting x (awaiting x ++ [(a, (i, ph))]) in
        let x := with_retx x (retx x ++ [(a, pkt)]) in
        (set_c s x, Continue)
    else
      let ok := snd (write s pkt) in
      let s := fst (write s pkt) in
      if negb ok then (cancel s i ph, Exit RunSocketClosed)
      else
        let x := c s in
        (set_c s (with_awaiting x (awaiting x ++ [(a, (i, ph))])), Continue)
  | MSub i a subid pkt =>
    if negb (size_ok (c s) pkt) then (close_stream_sender (complete s i 1 CTooBig) i, Continue)
    else
      let x := c s in
      let x := with_awaiting x (awaiting x ++ [(a, (i, 1))]) in
      let x := with_subs x (subs x ++ [(subid, i)]) in
      let s := set_c s x in
      let ok := snd (write s pkt) in
      let s := fst (write s pkt) in
      (s, if ok then Continue else Exit RunSocketClosed)
  end.

(* completing the operation registered under an action id, if any *)
Definition ack_waiter (s : sys) (a : N) (p : rxpkt) : sys :=
  match alookup a (awaiting (c s)) with
  | None => s
  | Some (i, ph) =>
    let s := set_c s (with_awaiting (c s) (aremove a (awaiting (c s)))) in
    complete s i ph (CPkt p)
  end.
Definition bump_quota (x : ctx) : ctx :=
  if quota x =? rmax x then x else with_quota x (quota x + 1).

(* the subscription identifier the context dispatches on: the builder keeps the last one *)
Definition pub_subid (p : rxpkt) : option N :=
  match plast 11 (r_props p) with Some (VV n _) => Some n | _ => None end.

(* unbounded_send to the first subscription registered under the identifier; a closed
   receiver removes that subscription *)
Definition dispatch (s : sys) (subid : N) (p : rxpkt) : sys :=
  match alookup subid (subs (c s)) with
  | None => s
  | Some j =>
    match alookup j (streams s) with
    | Some st =>
      if st_recv st then set_streams s (aset j (mkst (st_buf st ++ [p]) (st_sender st) true (st_taken st)) (streams s))
      else close_stream_sender (set_c s (with_subs (c s) (aremove subid (subs (c s))))) j
    | None => set_c s (with_subs (c s) (aremove subid (subs (c s))))
    end
  end.

(* ---- Context::handle_packet ------------------------------------------------------------------ *)
Definition handle_packet (s : sys) (p : rxpkt) : sys * after :=
  match rk p with
  | KPublish =>
    let redelivery := (r_qos p =? 2) && memN (r_pid p) (await_rel (c s)) in
    let s := if (r_qos p =? 2) && negb redelivery
             then set_c s (with_rel (c s) (await_rel (c s) ++ [r_pid p])) else s in
    let s := if redelivery then s else
             match pub_subid p with Some sid => dispatch s sid p | None => s end in
    if r_qos p =? 0 then (s, Continue)
    else
      let ok := snd (write s (if r_qos p =? 1 then enc_puback (r_pid p) else enc_pubrec (r_pid p))) in
      let s := fst (write s (if r_qos p =? 1 then enc_puback (r_pid p) else enc_pubrec (r_pid p))) in
      (s, if ok then Continue else Exit RunSocketClosed)
  | KDisconnect =>
    (s, Exit (if r_reason p =? 0 then RunOk else RunDisconnected p))
  | KPuback =>
    let a := aid 4 (r_pid p) in
    let x := bump_quota (c s) in
    let s := set_c s (with_retx x (aremove a (retx x))) in
    (ack_waiter s a p, Continue)
  | KPubcomp =>
    let a := aid 7 (r_pid p) in
    let x := bump_quota (c s) in
    let s := set_c s (with_retx x (aremove a (retx x))) in
    (ack_waiter s a p, Continue)
  | KPubrec =>
    let a := aid 5 (r_pid p) in
    let x := if 128 <=? r_reason p then bump_quota (c s) else c s in
    let s := set_c s (with_retx x (aremove a (retx x))) in
    (ack_waiter s a p, Continue)
  | KPubrel =>
    let s := set_c s (with_rel (c s) (filter (fun i => negb (i =? r_pid p)) (await_rel (c s)))) in
    let ok := snd (write s (enc_pubcomp (r_pid p))) in
    let s := fst (write s (enc_pubcomp (r_pid p))) in
    (s, if ok then Continue else Exit RunSocketClosed)
  | KConnack | KAuth => (s, Exit RunCodec)
  | KSuback => (ack_waiter s (aid 9 (r_pid p)) p, Continue)
  | KUnsuback => (ack_waiter s (aid 11 (r_pid p)) p, Continue)
  | KPingresp => (ack_waiter s (aid 13 0) p, Continue)
  end.

(* ---- Context::handle_connack -------------------------------------------------------------------- *)
Definition pnum (id : N) (ps : list prop) : option N :=
  match plast id ps with
  | Some (V8 n) | Some (V16 n) | Some (V32 n) => Some n
  | Some (VB b) => Some (b2n b)
  | Some (VV n _) => Some n
  | _ => None
  end.
Definition handle_connack (x : ctx) (p : rxpkt) : ctx :=
  let sei' := match pnum 17 (r_props p) with Some v => v | None => sei x end in
  let mp := pnum 39 (r_props p) in       (* absent = no limit on this connection (fix: f454533) *)
  let rm := match pnum 33 (r_props p) with Some v => v | None => 65535 end in
  mkctx (awaiting x) (subs x) (retx x) (await_rel x) rm rm mp sei' (disc_ts x).

(* ---- dropping senders ----------------------------------------------------------------------------- *)
Definition drop_msg (s : sys) (m : cmsg) : sys :=
  match m with
  | MFire i _ => cancel s i 1
  | MAwait i ph _ _ => cancel s i ph
  | MSub i _ _ _ => close_stream_sender (cancel s i 1) i
  end.
(* Context::reset_session: clear() drops every stored sender *)
Definition reset_session (s : sys) : sys :=
  let s := fold_left (fun s e => cancel s (fst (snd e)) (snd (snd e))) (awaiting (c s)) s in
  let s := fold_left (fun s e => close_stream_sender s (snd e)) (subs (c s)) s in
  let x := c s in
  set_c s (mkctx [] [] [] [] (quota x) (rmax x) (maxpkt x) (sei x) (disc_ts x)).
(* drop(Context) *)
Definition drop_ctx (s : sys) : sys :=
  let s := reset_session s in
  let s := fold_left drop_msg (msgq s) s in
  mksys (rd s) (fr s) (wbudget s) false CIdle (c s) [] (ops s) (streams s)
        (handles s) (pid_ctr s) (sub_ctr s) (hold s) (wire_ev s) (tail_ev s).

(* ---- the mpsc handle -> context channel ------------------------------------------------------------ *)
Definition holds_sender (o : op) : bool :=
  match o_phase o with Finished => false | _ => true end.
Definition live_senders (s : sys) : N :=
  lenN (handles s) + lenN (filter (fun e => holds_sender (snd e)) (ops s)).

(* ---- the run loop (eager: runs until both the transport and the queue are exhausted) ---------- *)
Definition exit_run (s : sys) (r : runres) : sys :=
  set_tail (set_cph s CIdle) (tail_ev s ++ [ORun r]).

Definition session_expired (x : ctx) (t : N) : bool :=
  (sei x =? 0) || (negb (sei x =? 4294967295) && (sei x <=? N.min t 4294967295)).

Fixpoint retransmit (s : sys) (l : list (N * bytes)) : sys * bool :=
  match l with
  | [] => (s, true)
  | (_, pkt) :: r => let ok := snd (write s pkt) in
 let s := fst (write s pkt) in
 (* every unfinished handshake re-sent occupies a slot of the send quota (saturating_sub; fix: 7234faf) *)
 if ok then retransmit (set_c s (with_quota (c s) (quota (c s) - 1))) r else (s, false)
  end.

(* one turn of `select!`: an inbound packet if the framing layer has one, else a queued message *)
Inductive turn := TStop | TGo.
Definition run_turn (s : sys) : sys * turn :=
  match fpoll (poll_fuel (rd s)) (fr s) (rd s) with
  | (FItem bs, f, r) =>
    let s := set_io s r f in
    match dec_packet bs with
    | Ok p => match handle_packet s p with
              | (s, Continue) => (s, TGo)
              | (s, Exit res) => (exit_run s res, TStop)
              end
    | Err => (exit_run s RunCodec, TStop)
    | Panic => (exit_run s RunPanic, TStop)
    end
  | (FEnd, f, r) => (exit_run (set_io s r f) RunSocketClosed, TStop)
  | (FPanic, f, r) | (FOutOfFuel, f, r) => (exit_run (set_io s r f) RunPanic, TStop)
  | (FPending, f, r) =>
    let s := set_io s r f in
    match msgq s with
    | m :: q =>
      match handle_message (set_msgq s q) m with
      | (s, Continue) => (s, TGo)
      | (s, Exit res) => (exit_run s res, TStop)
      end
    | [] => if live_senders s =? 0 then (exit_run s RunHandleClosed, TStop) else (s, TStop)
    end
  end.

(* connect()/authorize() waiting for the first response *)
Definition conn_result (p : rxpkt) : connres :=
  if 128 <=? r_reason p then ConnErrConnect p
  else match pnum 41 (r_props p) with
       | Some 0 => ConnAssert         (* assert!(subscription_identifier_available) *)
       | _ => ConnAck p
       end.
Definition conn_turn (s : sys) : sys :=
  let fin (s : sys) (r : connres) := set_tail (set_cph s CIdle) (tail_ev s ++ [OConn r]) in
  match fpoll (poll_fuel (rd s)) (fr s) (rd s) with
  | (FItem bs, f, r) =>
    let s := set_io s r f in
    match dec_packet bs with
    | Ok p =>
      match rk p with
      | KConnack => fin (set_c s (handle_connack (c s) p)) (conn_result p)
      | KAuth => fin s (ConnAuth p)
      | _ => fin s ConnErrCodec
      end
    | Err => fin s ConnErrCodec
    | Panic => fin s ConnPanic
    end
  | (FEnd, f, r) => fin (set_io s r f) ConnErrSocketClosed
  | (FPanic, f, r) | (FOutOfFuel, f, r) => fin (set_io s r f) ConnPanic
  | (FPending, f, r) => set_io s r f
  end.

Fixpoint settle_loop (fuel : nat) (s : sys) : sys :=
  match fuel with
  | O => s
  | S fuel =>
    match cph s with
    | CIdle => s
    | CConnecting => conn_turn s
    | CRunning => match run_turn s with (s, TGo) => settle_loop fuel s | (s, TStop) => s end
    end
  end.
(* every turn consumes a queued message or at least two transport bytes *)
Definition settle_fuel (s : sys) : nat :=
  N.to_nat (lenN (msgq s) + total_len (segs (rd s)) + lenN (zd (buf (fr s))) + 4).
Definition settle (s : sys) : sys :=
  if hold s || negb (ctx_alive s) then s else settle_loop (settle_fuel s) s.

(* ---- identifier allocation: ContextHandle::next_packet_id and sub_id.fetch_add ------------------ *)
Definition alloc_pid (ctr : N) : N * N :=       (* (identifier, new counter) *)
  if ctr =? 0 then (1, 2) else (ctr, (ctr + 1) mod 65536).
Definition alloc_subid (ctr : N) : N * N := (ctr, (ctr + 1) mod 4294967296).

(* ---- operation futures ---------------------------------------------------------------------------- *)
(* mpsc::UnboundedSender::unbounded_send: fails once the receiver (the Context) is gone *)
Definition send (s : sys) (m : cmsg) : option sys :=
  if ctx_alive s then Some (set_msgq s (msgq s ++ [m])) else None.

Definition put_op (s : sys) (i : N) (o : op) : sys := set_ops s (aset i o (ops s)).
Definition finish (s : sys) (i : N) (o : op) (r : opres) : sys * list obs :=
  (put_op s i (mkop (o_kind o) Finished (o_ch1 o) (o_ch2 o) (o_pid o)), [ODone i r]).
Definition pending (s : sys) (i : N) (o : op) (ph : phase) (pid : N) : sys * list obs :=
  (put_op s i (mkop (o_kind o) ph (o_ch1 o) (o_ch2 o) pid), [OPend i]).

(* the first poll: everything up to the first `.await` on the oneshot *)
Definition first_poll (s : sys) (i : N) (o : op) : sys * list obs :=
  let enqueue (s : sys) (pid : N) (m : cmsg) :=
    match send s m with
    | Some s => pending s i o Wait1 pid
    | None => finish s i o RErrExited
    end in
  match o_kind o with
  | OPing => enqueue s 0 (MAwait i 1 (aid 13 0) enc_pingreq)
  | ODisc d =>
    match enc_disconnect d with
    | Ok pkt => enqueue s 0 (MFire i pkt)
    | Err => finish s i o RErrCodec
    | Panic => finish s i o RPanic
    end
  | OPub po =>
    if po_qos po =? 0 then
      match enc_publish po 0 with
      | Ok pkt => enqueue s 0 (MFire i pkt)
      | Err => finish s i o RErrCodec
      | Panic => finish s i o RPanic
      end
    else
      let (pid, ctr) := alloc_pid (pid_ctr s) in
      let s := set_ctrs s ctr (sub_ctr s) in
      match enc_publish po pid with
      | Ok pkt => enqueue s pid (MAwait i 1 (aid (if po_qos po =? 1 then 4 else 5) pid) pkt)
      | Err => finish s i o RErrCodec
      | Panic => finish s i o RPanic
      end
  | OSub so =>
    let (pid, ctr) := alloc_pid (pid_ctr s) in
    let (subid, sctr) := alloc_subid (sub_ctr s) in
    let s := set_ctrs s ctr sctr in
    match enc_subscribe so pid subid with
    | Ok pkt =>
      (* the stream channel exists from now on; its receiver lives in the future *)
      let s := set_streams s (aset i (mkst [] true true false) (streams s)) in
      match send s (MSub i (aid 9 pid) subid pkt) with
      | Some s => pending s i o Wait1 pid
      | None => finish (set_streams s (aremove i (streams s))) i o RErrExited
      end
    | Err => finish s i o RErrCodec
    | Panic => finish s i o RPanic
    end
  | OUnsub uo =>
    let (pid, ctr) := alloc_pid (pid_ctr s) in
    let s := set_ctrs s ctr (sub_ctr s) in
    match enc_unsubscribe uo pid with
    | Ok pkt => enqueue s pid (MAwait i 1 (aid 11 pid) pkt)
    | Err => finish s i o RErrCodec
    | Panic => finish s i o RPanic
    end
  end.

Definition err_of (v : cval) : opres :=
  match v with CQuota => RErrQuota | CTooBig => RErrTooBig | _ => RPanic end.
Definition drop_recv (s : sys) (j : N) : sys :=
  match alookup j (streams s) with
  | None => s
  | Some st => set_streams s (aset j (mkst [] (st_sender st) false (st_taken st)) (streams s))
  end.

(* a poll while waiting on the first oneshot *)
Definition poll_wait1 (s : sys) (i : N) (o : op) : sys * list obs :=
  match o_ch1 o with
  | CEmpty => (s, [OPend i])
  | CGone =>
    let s := match o_kind o with OSub _ => drop_recv s i | _ => s end in
    finish s i o RErrExited
  | CFull v =>
    match o_kind o, v with
    | OPing, CPkt p => finish s i o (match rk p with KPingresp => ROk | _ => RPanic end)
    | ODisc _, CUnit => finish s i o ROk
    | OUnsub _, CPkt p => finish s i o (match rk p with KUnsuback => RUnsub p | _ => RPanic end)
    | OSub _, CPkt p => finish s i o (match rk p with KSuback => RSub p | _ => RPanic end)
    | OSub _, other => finish (drop_recv s i) i o (err_of other)
    | OPub po, CUnit => finish s i o ROk
    | OPub po, CPkt p =>
      if po_qos po =? 1 then
        match rk p with
        | KPuback => finish s i o (if 128 <=? r_reason p then RErrPuback p else ROk)
        | _ => finish s i o RPanic
        end
      else
        match rk p with
        | KPubrec =>
          if 128 <=? r_reason p then finish s i o (RErrPubrec p)
          else
            (* second phase: PUBREL built from the PUBREC's identifier *)
            match send s (MAwait i 2 (aid 7 (r_pid p)) (enc_pubrel (r_pid p))) with
            | Some s => pending s i o Wait2 (o_pid o)
            | None => finish s i o RErrExited
            end
        | _ => finish s i o RPanic
        end
    | _, other => finish s i o (err_of other)
    end
  end.

Definition poll_wait2 (s : sys) (i : N) (o : op) : sys * list obs :=
  match o_ch2 o with
  | CEmpty => (s, [OPend i])
  | CGone => finish s i o RErrExited
  | CFull (CPkt p) =>
    match rk p with
    | KPubcomp => finish s i o (if 128 <=? r_reason p then RErrPubcomp p else ROk)
    | _ => finish s i o RPanic
    end
  | CFull other => finish s i o (err_of other)
  end.

Definition poll_op (s : sys) (i : N) : sys * list obs :=
  match alookup i (ops s) with
  | None => (s, [OUnknown 0 i])
  | Some o =>
    match o_phase o with
    | NotStarted => first_poll s i o
    | Wait1 => poll_wait1 s i o
    | Wait2 => poll_wait2 s i o
    | Finished => (s, [OUnknown 1 i])
    end
  end.

(* dropping an operation's future: its receivers and its handle clone go away *)
Definition drop_op (s : sys) (i : N) : sys :=
  match alookup i (ops s) with
  | None => s
  | Some o =>
    let untaken := match alookup i (streams s) with Some st => negb (st_taken st) | None => false end in
    let s := match o_kind o with
             | OSub _ => if untaken then drop_recv s i else s
             | _ => s
             end in
    set_ops s (aremove i (ops s))
  end.

(* ---- subscription streams -------------------------------------------------------------------------- *)
Definition poll_stream (s : sys) (j : N) : sys * list obs :=
  match alookup j (streams s) with
  | None => (s, [OUnknown 2 j])
  | Some st =>
    if negb (st_taken st) then (s, [OUnknown 2 j]) else
    match st_buf st with
    | p :: r => (set_streams s (aset j (mkst r (st_sender st) (st_recv st) (st_taken st)) (streams s)), [OItem j p])
    | [] => if st_sender st then (s, [ONone j]) else (set_streams s (aremove j (streams s)), [OEnd j])
    end
  end.
