"""Per-property trace monitors (see oracle.py)."""
import re
import mqtt as M
from oracle import oracle, Trace, events, by_event, in_packets, rx_info, kv, wire_of


def connection_streams(tr):
    """split the script at `reconnect`; per connection: (first event, last event, inbound bytes per event)"""
    conns, cur = [], {"first": 0, "in": {}}
    for k, e in enumerate(tr.evs):
        if e == "reconnect":
            cur["last"] = k - 1
            conns.append(cur)
            cur = {"first": k, "in": {}}
        elif e.startswith("deliver "):
            cur["in"][k] = M.unhex(e[8:])
    cur["last"] = len(tr.evs) - 1
    conns.append(cur)
    return conns


def inbound(tr, conn):
    """[(event at which the packet became complete, packet)] for one connection, or None"""
    buf, out = b"", []
    for k in sorted(conn["in"]):
        buf += conn["in"][k]
        while len(buf) >= 2:
            r = M.read_varint(buf, 1)
            if r is None:
                if len(buf) >= 5:
                    return None
                break
            n, j = r
            if len(buf) < j + n:
                break
            out.append((k, buf[:j + n]))
            buf = buf[j + n:]
    return out


def outbound(tr, conn):
    """[(event, info)] of client packets of one connection, or None when not whole packets"""
    out = []
    for k in range(conn["first"], conn["last"] + 1):
        ps = tr.out_packets(k)
        if ps is None:
            return None
        for p in ps:
            out.append((k, M.tx_info(p)))
    return out


def first_polls(tr):
    d = {}
    for k, e in enumerate(tr.evs):
        m = re.match(r"f?poll (\d+)$", e)
        if m and int(m.group(1)) not in d:
            d[int(m.group(1))] = k
    return d


def op_specs(tr):
    d = {}
    for k, e in enumerate(tr.evs):
        p = e.split()
        if p and p[0] == "start":
            d[int(p[1])] = {"kind": p[3], "args": kv(" ".join(p[4:])), "ev": k}
    return d


def run_window(tr):
    """(event of `run`, event at which run() returned or None)"""
    start = next((k for k, e in enumerate(tr.evs) if e == "run"), None)
    rr = tr.run_result()
    return start, (rr[0] if rr else None)


def has(tr, *names):
    return any(e.split()[0] in names for e in tr.evs if e)



def stream_strict(lines, op, expected):
    """expected: [(event at which the message was delivered, payload hex)] for the stream of operation `op`.
    Every message delivered before a poll of the stream that returned Pending (`N`) must have been yielded by then."""
    got = 0
    for l in lines:
        p = l.split(" ")
        if p[1] == "I" and int(p[2]) == op:
            got += 1
        elif p[1] == "N" and int(p[2]) == op:
            k = int(p[0])
            due = sum(1 for ke, _ in expected if ke < k)
            if got < due:
                return "stream %d returned Pending at event %d having yielded %d of the %d messages delivered to it" % (op, k, got, due)
    return None

# ---- C08 ------------------------------------------------------------------------------------------

def returned_without_cause(tr):
    """run() returned although the script contains nothing that ends it: no transport fault, no DISCONNECT in either
    direction, every handle and the Context alive"""
    rr = tr.run_result()
    if rr is None:
        return None
    if has(tr, "eof", "rerr", "rintr", "werr", "werr0", "wintr", "wblock", "dropctx", "drophandle", "reconnect", "hold"):
        return None
    if any(e.startswith("start ") and e.split()[3] == "disc" for e in tr.evs):
        return None
    for cn in connection_streams(tr):
        inp = inbound(tr, cn)
        if inp is None or any(p[0] >> 4 == 14 for _, p in inp):
            return None
    if rr[1].startswith("err") and not rr[1].startswith(("err SocketClosed", "err HandleClosed", "err Disconnected")):
        return None          # a codec error: reported by rejected_wellformed
    return "onlythen: run() returned %s at event %d; nothing in the script ends it (no DISCONNECT, no transport fault, handles alive)" % (rr[1][:40], rr[0])


def queued_across(case, tr):
    """requests submitted while no connection is up wait in the Context's queue; once the next connection runs they are
    performed, in order, and complete normally"""
    if not (case.get("id") or "").startswith("queued-before-"):
        return None
    done = tr.done()
    for op, sp in sorted(op_specs(tr).items()):
        rs = [r for _, r in done.get(op, [])]
        if not rs or not rs[0].startswith("ok"):
            return "queued: operation %d (%s), submitted between two connections of the Context, ended with %s instead of being performed on the next connection" % (
                op, sp["kind"], rs[:1] or "nothing (still pending)")
    return None


def rejected_wellformed(tr, what):
    """C07/C08/C09 cases deliver only packets built by the encoders of tools/mqtt.py (well formed by construction): run()
    giving up on one of them with a codec error leaves it, and everything after it, unacknowledged and undelivered"""
    rr = tr.run_result()
    if rr is not None and rr[1].startswith("err") and not rr[1].startswith(("err SocketClosed", "err HandleClosed", "err Disconnected")) \
            and not has(tr, "eof", "rerr", "werr", "werr0", "rintr"):
        last = max([k for k, e in enumerate(tr.evs[:rr[0] + 1]) if e.startswith("deliver ")] or [-1])
        return "accept: run() gave up with %s at event %d on a well-formed inbound packet (delivered at event %d: %s); %s" % (
            rr[1][4:40], rr[0], last, tr.evs[last][8:72] if last >= 0 else "?", what)
    return None

@oracle("C08")
def c08(case, lines):
    tr = Trace(case, lines)
    if not (case.get("meta") or {}).get("malformed"):
        r = rejected_wellformed(tr, "it and every later packet stay unacknowledged")
        if r:
            return r
    if has(tr, "reconnect") and not has(tr, "dropctx", "hold"):
        # a later connection of the same Context: exactly the acknowledgements due to ITS inbound packets, nothing left over
        for j, cn in enumerate(connection_streams(tr)[1:], 1):
            inj, outj = inbound(tr, cn), outbound(tr, cn)
            if inj is None:
                continue
            if outj is None:
                return "acks: what was written on connection %d is not a sequence of whole packets (left-overs of an earlier acknowledgement?)" % (j + 1)
            if any(e.startswith("werr") for e in tr.evs[cn["first"]:cn["last"] + 1]):
                continue
            wantj = []
            for k, p in inj[1:]:
                i = rx_info(p)
                if i["t"] == 3 and i["qos"] in (1, 2):
                    wantj.append(("puback" if i["qos"] == 1 else "pubrec", i["pid"]))
                elif i["t"] == 6:
                    wantj.append(("pubcomp", i["pid"]))
            gotj = [(i["kind"], i["pid"]) for k, i in outj if i["kind"] in ("puback", "pubrec", "pubcomp")]
            if gotj != wantj:
                return "acks: on connection %d the acknowledgements written %s differ from those due %s" % (j + 1, gotj[:6], wantj[:6])
        return None
    if has(tr, "wintr") and not has(tr, "reconnect", "dropctx", "hold", "start"):
        # a write that failed once with ErrorKind::Interrupted: whatever run() does about it, the bytes on the wire are a
        # beginning of the acknowledgements due, in order - never a byte twice
        conn = connection_streams(tr)[0]
        inp = inbound(tr, conn)
        start, _ = run_window(tr)
        if inp is not None and start is not None:
            due = bytearray()
            for k, p in inp:
                i = rx_info(p)
                if k > start and i["t"] == 3 and i["qos"] in (1, 2):
                    due += bytes([0x40 if i["qos"] == 1 else 0x50, 2, i["pid"] >> 8, i["pid"] & 255])
                elif k > start and i["t"] == 6:
                    due += bytes([0x70, 2, i["pid"] >> 8, i["pid"] & 255])
            wrote = bytearray()
            for k in sorted(tr.by):
                if k > start:
                    for r in tr.by[k]:
                        if r.startswith("W "):
                            wrote += M.unhex(r[2:])
            if bytes(due[:len(wrote)]) != bytes(wrote):
                return "acks: after an interrupted write the wire reads %s; the acknowledgements due are %s: the bytes written are not a beginning of them" % (M.hx(bytes(wrote[:24])), M.hx(bytes(due[:24])))
        return None
    if tr.faulty or has(tr, "reconnect", "dropctx", "hold"):
        return None
    conn = connection_streams(tr)[0]
    inp, outp = inbound(tr, conn), outbound(tr, conn)
    if inp is None:
        return None
    if outp is None:
        return "acks: what the client wrote while serving the connection is not a sequence of whole packets (a length field that does not match what follows it, or stray bytes)"
    start, end = run_window(tr)
    if start is None:
        return None
    want = []
    for k, p in inp:
        if k <= start or (end is not None and k > end):
            continue
        i = rx_info(p)
        if i["t"] == 3 and i["qos"] == 1:
            want.append(("puback", i["pid"]))
        elif i["t"] == 3 and i["qos"] == 2:
            want.append(("pubrec", i["pid"]))
        elif i["t"] == 6:
            want.append(("pubcomp", i["pid"]))
    got = [(i["kind"], i["pid"]) for k, i in outp if i["kind"] in ("puback", "pubrec", "pubcomp")]
    for k, i in outp:
        if i["kind"] in ("puback", "pubrec", "pubcomp") and len(i["raw"]) > 4 and i["raw"][4] >= 128:
            return "acks: the %s for identifier %d written at event %d carries the failing reason code 0x%02x: that is a refusal, not the acknowledgement of a message that was received" % (
                i["kind"], i["pid"], k, i["raw"][4])
    if end is not None:
        # packets of the event in which run() returned may or may not have been taken
        if got != want[:len(got)]:
            return "acks: acknowledgements written %s are not a prefix of those due %s" % (got, want)
        return None
    if got != want:
        return "acks: acknowledgements written %s differ from those due %s" % (got[:6], want[:6])
    return None


# ---- C09 ------------------------------------------------------------------------------------------
@oracle("C09")
def c09(case, lines):
    tr = Trace(case, lines)
    if (case.get("id") or "").startswith("pubcomp-fails-then-reuse"):
        # the PUBREL was received (its PUBCOMP could not be written): the identifier is released, the next message using it is new
        got = [kv(" ".join(l.split(" ")[3:]))["pl"] for l in lines if l.split(" ")[1] == "I"]
        if got != [M.hx(b"m5"), M.hx(b"n5")]:
            return "qos2: the stream yielded %s; m5 was released by its PUBREL, n5 is a new message under the same identifier: ['%s', '%s'] expected" % (got, M.hx(b"m5"), M.hx(b"n5"))
        return None
    if (case.get("id") or "").startswith("refused-attempt-then-resume"):
        # the refused CONNACK in between says nothing about the session: m1 (delivered, PUBREC sent, not released) is known
        got = [kv(" ".join(l.split(" ")[3:]))["pl"] for l in lines if l.split(" ")[1] == "I"]
        if got != [M.hx(b"m1"), M.hx(b"m2")]:
            return "qos2: the stream yielded %s; m1 was re-delivered after a refused connection attempt and a resumed session (Session Present 1), m2 followed its PUBREL: exactly-once means ['%s', '%s']" % (
                got, M.hx(b"m1"), M.hx(b"m2"))
        return None
    if (case.get("id") or "").startswith("pubrec-fails-then-resume"):
        # m2's PUBREC could not be written, the broker delivers m2 again on the next connection: m2 reaches the application once
        got = [kv(" ".join(l.split(" ")[3:]))["pl"] for l in lines if l.split(" ")[1] == "I"]
        if got != [M.hx(b"m1"), M.hx(b"m2")]:
            return "qos2: the stream yielded %s; m1 and m2 were each sent (m2 twice, the second time as a re-delivery): exactly-once means ['%s', '%s']" % (got, M.hx(b"m1"), M.hx(b"m2"))
        return None
    if not (case.get("meta") or {}).get("malformed"):
        r = rejected_wellformed(tr, "the message is never delivered")
        if r:
            return r
    if tr.faulty or has(tr, "reconnect", "dropctx", "hold", "dropstream"):
        return None
    conn = connection_streams(tr)[0]
    inp = inbound(tr, conn)
    if inp is None:
        return None
    start, end = run_window(tr)
    outp9 = outbound(tr, conn)
    for k, i in (outp9 or []):
        if i["kind"] in ("pubrec", "pubcomp") and len(i["raw"]) > 4 and i["raw"][4] >= 128:
            return "qos2: the %s for identifier %d written at event %d carries the failing reason code 0x%02x: to the broker the exchange has failed, it will not send PUBREL and may use the identifier for a new message, which the client would then take for a re-delivery" % (
                i["kind"], i["pid"], k, i["raw"][4])
    if end is not None:
        return None
    awaiting = set()
    expect = {}          # subid -> list of payload hex (QoS 2 only)
    for k, p in inp:
        i = rx_info(p)
        if i["t"] == 3 and i["qos"] == 2:
            if i["pid"] not in awaiting:
                awaiting.add(i["pid"])
                for sid in i["subids"][-1:]:
                    expect.setdefault(sid, []).append(bytes(i["payload"]))
        elif i["t"] == 6:
            awaiting.discard(i["pid"])
    # items actually yielded with q=2, per stream; streams map to subids in subscribe order
    subs = [i for i, o in sorted(op_specs(tr).items()) if o["kind"] == "sub"]
    fp = first_polls(tr)
    order = sorted([i for i in subs if i in fp], key=lambda i: fp[i])
    sid_of = {op: n + 1 for n, op in enumerate(order)}
    got = {}
    for l in lines:
        p = l.split(" ")
        if p[1] == "I":
            f = kv(" ".join(p[3:]))
            if f.get("q") == "2":
                got.setdefault(sid_of.get(int(p[2])), []).append(f["pl"])
    for sid, items in got.items():
        want = [M.hx(x) for x in expect.get(sid, [])]
        if items != want[:len(items)]:
            return "qos2: stream of subscription %s yielded %s, exactly-once delivery allows %s" % (sid, items, want)
    # nothing is lost either: a QoS 2 message that is not a re-delivery has been yielded by the time its stream is
    # polled to Pending
    awaiting = set()
    per = {}
    for k, p in inp:
        i = rx_info(p)
        if i["t"] == 3:
            new_msg = True
            if i["qos"] == 2:
                new_msg = i["pid"] not in awaiting
                awaiting.add(i["pid"])
            if new_msg:
                for sid in i["subids"][-1:]:
                    per.setdefault(sid, []).append((k, M.hx(i["payload"])))
        elif i["t"] == 6:
            awaiting.discard(i["pid"])
    for op, sid in sid_of.items():
        if fp.get(op) is None:
            continue
        exp = [(k, x) for k, x in per.get(sid, []) if k > fp[op]]
        m = stream_strict(lines, op, exp)
        if m:
            return "lost: " + m
    return None


# ---- C10 ------------------------------------------------------------------------------------------
def connack_props(tr):
    for e in tr.evs:
        for p in in_packets(e) or []:
            if p[0] >> 4 == 2:
                body = p[M.read_varint(p, 1)[1]:]
                pl, k = M.read_varint(body, 2)
                pr, i, d = body[k:k + pl], 0, {}
                while i < len(pr):
                    t = M.PTYPE.get(pr[i])
                    if t == "u16":
                        d[pr[i]] = (pr[i + 1] << 8) | pr[i + 2]
                        i += 3
                    elif t == "u32":
                        d[pr[i]] = int.from_bytes(pr[i + 1:i + 5], "big")
                        i += 5
                    elif t == "byte":
                        d[pr[i]] = pr[i + 1]
                        i += 2
                    else:
                        break
                return d
    return {}


def quota_walk(tr, conn, R, inflight0, label=""):
    """walk one connection: the in-flight set (QoS>0 PUBLISH written and not completed) never exceeds R, refusals happen
    exactly at in-flight = R, nothing else is limited"""
    inp, outp = inbound(tr, conn), outbound(tr, conn)
    if inp is None or outp is None:
        return None
    ev_in = {}
    for k, p in inp:
        ev_in.setdefault(k, []).append(rx_info(p))
    ev_out = {}
    for k, i in outp:
        ev_out.setdefault(k, []).append(i)
    inflight = set(inflight0)
    fp = first_polls(tr)
    specs = op_specs(tr)
    handled_at = {v: k for k, v in fp.items()}
    done = tr.done()
    for k in range(conn["first"], conn["last"] + 1):
        for i in ev_in.get(k, []):
            if (i["t"] in (4, 7) or (i["t"] == 5 and i["reason"] >= 128)) and i.get("pid") in inflight:
                inflight.discard(i["pid"])
        before = len(inflight)
        for o in ev_out.get(k, []):
            if o["kind"] == "publish" and o["qos"] > 0 and not o["dup"]:
                inflight.add(o["pid"])
        if len(inflight) > R:
            return "bound: %d QoS>0 PUBLISH packets in flight at event %d%s, Receive Maximum is %d" % (len(inflight), k, label, R)
        if k in handled_at:
            op = handled_at[k]
            sp = specs.get(op)
            res = [r for _, r in done.get(op, [])]
            if sp and sp["kind"] == "pub" and sp["args"].get("q", "0") != "0":
                refused = any("QuotaExceeded" in r for r in res)
                if refused and before < R:
                    return "refusal: publish %d refused with QuotaExceeded while only %d of %d slots were taken%s" % (op, before, R, label)
                if refused and len(inflight) != before:
                    return "refusal: a refused publish reached the wire"
            elif any("QuotaExceeded" in r for r in res):
                return "unlimited: operation %d (%s) was limited by the send quota" % (op, sp and sp["kind"])
    return None


@oracle("C10")
def c10(case, lines):
    tr = Trace(case, lines)
    if has(tr, "dropctx", "hold", "spin"):
        return None
    conns = connection_streams(tr)
    if len(conns) == 1:
        if tr.faulty:
            return None
        return quota_walk(tr, conns[0], connack_props(tr).get(33, 65535), set())
    # the same Context connected again: R is the new CONNACK's; what is re-sent on resumption is in flight from the start
    for j, conn in enumerate(conns):
        R = None
        for k in range(conn["first"], conn["last"] + 1):
            for x in tr.by.get(k, []):
                mm = re.match(r"C ok .*\brm=(\d+)", x)
                if mm:
                    R = int(mm.group(1))
        if R is None:
            continue
        inflight0 = set()
        if j > 0:
            outp = outbound(tr, conn)
            if outp is None:
                return None
            runj = next((k for k, e in enumerate(tr.evs) if e == "run" and conn["first"] < k <= conn["last"]), None)
            inflight0 = set(o["pid"] for k, o in outp if k == runj and ((o["kind"] == "publish" and o["dup"]) or o["kind"] == "pubrel"))
            if len(inflight0) > R:
                continue
        # transport faults end a connection; judge each connection up to its end
        r = quota_walk(tr, conn, R, inflight0, " of connection %d" % (j + 1))
        if r:
            return r
    return None


# ---- C11 ------------------------------------------------------------------------------------------
@oracle("C11")
def c11(case, lines):
    seen_order = []
    for l in lines:
        p = l.split(" ")
        if p[1] in ("T", "U"):
            d = kv(" ".join(p[2:]))
            if p[1] == "T":
                want = int(d["threads"]) * int(d["each"])
                if int(d["dup"]) or int(d["zero"]) or int(d["packets"]) != want:
                    return "threads: %s operations started concurrently from %s clones put %s identifier-bearing packets on the wire, %s with an identifier already in use, %s with identifier 0" % (
                        want, d["threads"], d["packets"], d["dup"], d["zero"])
            else:
                if int(d["dup"]) or int(d["zero"]) or d["distinct"] != d["calls"] or d["subscribes"] != d["calls"] or int(d["incomplete"]):
                    return "subid: %s subscribe() calls wrote %s SUBSCRIBE packets with %s distinct subscription identifiers (%s zero or missing, %s repeated%s, %s calls incomplete)" % (
                        d["calls"], d["subscribes"], d["distinct"], d["zero"], d["dup"], (": " + d["firstdup"]) if "firstdup" in d else "", d["incomplete"])
            continue
        if p[1] == "K":
            if "panic" in l:
                return "panic: allocating an identifier panicked (operation %s)" % p[2]
            if p[3] == "incomplete":
                return "incomplete: operation %s did not complete on its own acknowledgement" % p[2]
            if p[3].startswith("pid="):
                v = int(p[3][4:])
                if v == 0:
                    return "zero: packet identifier 0 handed out (operation %s)" % p[2]
                seen_order.append(v)
    # scripts with real concurrent operations: every PUBLISH (QoS>0), SUBSCRIBE and UNSUBSCRIBE on the wire carries a
    # non-zero identifier that no other still-outstanding operation carries, and every SUBSCRIBE its own subscription id
    tr = Trace(case, lines)
    subids = set()
    spin_unacked = any(e.startswith("spin ") and e.split()[-1] == "0" for e in tr.evs)
    for conn in (connection_streams(tr) if not spin_unacked and not has(tr, "spinsub", "threads") and not tr.faulty else []):
        inp, outp = inbound(tr, conn), outbound(tr, conn)
        if inp is not None and outp is not None:
            timeline = [(k, 0, o) for k, o in outp] + [(k, 1, rx_info(p)) for k, p in inp]
            timeline.sort(key=lambda x: (x[0], x[1]))
            outstanding = {}
            for k, side, x in timeline:
                if side == 0:
                    if (x["kind"] == "publish" and x["qos"] > 0 and not x["dup"]) or x["kind"] in ("subscribe", "unsubscribe"):
                        pid = x["pid"]
                        if pid == 0:
                            return "zero: packet identifier 0 on the wire (%s, event %d)" % (x["kind"], k)
                        if pid in outstanding:
                            return "unique: %s at event %d carries packet identifier %d, still in use by an outstanding %s" % (
                                x["kind"], k, pid, outstanding[pid])
                        outstanding[pid] = x["kind"]
                    if x["kind"] == "subscribe":
                        sid = x.get("subid")
                        if not sid or sid in subids:
                            return "subid: SUBSCRIBE at event %d carries subscription identifier %s (zero, missing or used before)" % (k, sid)
                        subids.add(sid)
                else:
                    want = {4: "publish", 7: "publish", 9: "subscribe", 11: "unsubscribe"}.get(x["t"])
                    if x["t"] == 5 and x.get("reason", 0) >= 128:
                        want = "publish"
                    if want and outstanding.get(x.get("pid")) == want:
                        del outstanding[x["pid"]]
    # identifiers handed out fewer than 65535 allocations apart differ
    last = {}
    for n, v in enumerate(seen_order):
        if v in last and n - last[v] < 65535:
            return "window: identifier %d handed out twice within %d allocations" % (v, n - last[v])
        last[v] = n
    return None


# ---- C12 ------------------------------------------------------------------------------------------
@oracle("C12")
def c12(case, lines):
    tr = Trace(case, lines)
    m = case.get("meta") or {}
    if "L" not in m:
        return c12_per_connection(tr)
    L, Mx, kind = m["L"], m["M"], m["kind"]
    if (case.get("id") or "").startswith("protocol-maximum"):
        # a packet of the protocol's maximum size; the harness prints such a write as L<length>:<digest>:<first 16 bytes>
        res = [r for _, r in tr.done().get(0, [])]
        big = [l.split(" ")[2] for l in lines if l.split(" ")[1] == "W" and l.split(" ")[2].startswith("L")]
        if Mx is not None and L > Mx:
            if big:
                return "reject: L=%d > M=%d but the packet was written (%s)" % (L, Mx, big[0][:40])
            if not any("MaximumPacketSizeExceeded" in r for r in res):
                return "reject: L=%d > M=%d but the operation ended with %s" % (L, Mx, res)
            return None
        if any("MaximumPacketSizeExceeded" in r for r in res):
            return "accept: L=%d <= M=%s (the largest packet MQTT can express) but the operation was refused" % (L, Mx)
        if len(big) != 1 or not big[0].startswith("L%d:" % L) or not big[0].endswith(":30ffffff7f00017400" + "00" * 7):
            return "accept: L=%d <= M=%s but the packet was not written in full (wire: %s)" % (L, Mx, [b_[:60] for b_ in big])
        if not any(r.startswith("ok") for r in res):
            return "accept: L=%d <= M=%s, the packet was written, the operation ended with %s" % (L, Mx, res)
        return None
    outp = outbound(tr, connection_streams(tr)[0])
    if outp is None:
        return "wire: the bytes written are not a sequence of whole packets"
    first = [i for k, i in outp if i["kind"] != "connect"]
    res = [r for _, r in tr.done().get(0, [])]
    want_kind = {"pub0": "publish", "pub1": "publish", "pub2": "publish", "sub": "subscribe", "unsub": "unsubscribe",
                 "ping": "pingreq", "disc": "disconnect"}[kind]
    too_big = Mx is not None and L > Mx
    if too_big:
        if not any("MaximumPacketSizeExceeded" in r for r in res):
            return "reject: L=%d > M=%d but the operation ended with %s" % (L, Mx, res)
        if first and first[0]["kind"] == want_kind and first[0]["len"] == L:
            return "reject: L=%d > M=%d but the packet was written" % (L, Mx)
    else:
        if any("MaximumPacketSizeExceeded" in r for r in res):
            return "accept: L=%d <= M=%s but the operation was refused" % (L, Mx)
        if not first or first[0]["kind"] != want_kind or first[0]["len"] != L:
            return "accept: L=%d <= M=%s but the packet was not written in full (first packet %s)" % (
                L, Mx, first[0]["kind"] + "/%d" % first[0]["len"] if first else None)
    if kind == "disc" and too_big and tr.run_result() is not None:
        return "reject: the oversized DISCONNECT was refused (nothing written) but run() returned %s" % tr.run_result()[1]
    # no quota slot left behind by a rejection: the follow-up QoS 1 publish (7 bytes) goes out iff it fits and a slot is free
    if kind != "disc":
        res1 = [r for _, r in tr.done().get(1, [])]
        fits = Mx is None or 7 <= Mx
        slot_taken = (not too_big) and kind in ("pub1", "pub2")
        if fits and not slot_taken and any("QuotaExceeded" in r for r in res1):
            return "sideeffect: a rejected or unlimited request consumed a send-quota slot"
    return None


def c12_per_connection(tr):
    """scripts that connect more than once or announce a limit of their own: the limit in force on a connection is the
    Maximum Packet Size of THAT connection's CONNACK, and nothing else - not an earlier connection's, not the client's own"""
    if tr.faulty and not has(tr, "reconnect"):
        return None
    specs, fp, done = op_specs(tr), first_polls(tr), tr.done()
    for conn in connection_streams(tr):
        Mx, ack_ev = None, None
        for k in range(conn["first"], conn["last"] + 1):
            for x in tr.by.get(k, []):
                mm = re.match(r"C ok .*\bmps==?(\d+|~)", x)
                if mm:
                    Mx, ack_ev = (None if mm.group(1) == "~" else int(mm.group(1))), k
        if ack_ev is None:
            continue
        outp = outbound(tr, conn)
        if outp is None:
            continue
        for k, o in outp:
            if k > ack_ev and Mx is not None and o["len"] > Mx:
                return "reject: a %s of %d bytes was written on a connection whose CONNACK announced Maximum Packet Size %d" % (o["kind"], o["len"], Mx)
        for op, sp in specs.items():
            k0 = fp.get(op)
            if k0 is None or not (ack_ev < k0 <= conn["last"]):
                continue
            res = [r for _, r in done.get(op, [])]
            refused = any("MaximumPacketSizeExceeded" in r for r in res)
            if refused and Mx is None:
                return "accept: operation %d (%s) was refused with MaximumPacketSizeExceeded on a connection whose CONNACK announced no Maximum Packet Size" % (op, sp["kind"])
            L = None
            a = sp["args"]
            if sp["kind"] == "pub" and set(a) <= {"q", "t", "pl"}:
                L = 2 + 2 + len(a.get("t", "")) // 2 + 1 + len(a.get("pl", "")) // 2 + (2 if a.get("q", "0") != "0" else 0)
            elif sp["kind"] == "ping":
                L = 2
            if L is not None and Mx is not None:
                if refused and L <= Mx:
                    return "accept: operation %d (%s, %d bytes) was refused although the CONNACK of its connection announced %d" % (op, sp["kind"], L, Mx)
                if not refused and L > Mx and res and not any("ContextExited" in r or "SocketClosed" in r for r in res):
                    return "reject: operation %d (%s, %d bytes) ended with %s although the CONNACK of its connection announced %d" % (op, sp["kind"], L, res, Mx)
    # no quota slot is left behind or handed back by a refusal: the accounting of C10 holds on every connection
    if not has(tr, "hold", "dropctx", "spin") and len(connection_streams(tr)) == 1 and not tr.faulty:
        R = connack_props(tr).get(33, 65535)
        q = quota_walk(tr, connection_streams(tr)[0], R, set())
        if q:
            return "sideeffect: " + q
    return None


# ---- C13 ------------------------------------------------------------------------------------------
@oracle("C13")
def c13(case, lines):
    tr = Trace(case, lines)
    start, end = run_window(tr)
    rr = tr.run_result()
    cid = case["id"]
    if cid.startswith("busy-reader-"):
        # a cause for run() to return arises while hundreds of inbound packets are ready to be read: it is not starved by them
        rr_ = tr.run_result()
        want = "ok" if "-disc-" in cid else "err HandleClosed"
        if rr_ is None or rr_[1] != want:
            return "exits: with the user's %s while inbound packets keep the read half busy, run() gave %s (the transport ended only after them)" % (
                "DISCONNECT queued" if "-disc-" in cid else "last handle dropped", rr_)
        return None
    if cid.startswith("again-after-disconnect"):
        # the first run() ended with the user's DISCONNECT; the second one, on the new connection, has no cause to end
        rl = [(int(l.split(" ")[0]), l) for l in lines if l.split(" ")[1] == "R"]
        k2 = next(k for k, e in enumerate(tr.evs) if e == "reconnect")
        late = [l for k, l in rl if k > k2]
        if late:
            return "onlythen: run() on the second connection returned (%s) although every handle is alive and nothing ended it" % late[0]
        bad = [op for op, rs in tr.done().items() if op > 0 and not rs[0][1].startswith("ok")]
        if bad or len([op for op in tr.done() if op > 0]) < 2:
            return "onlythen: operations on the second connection did not complete normally: %s" % {op: rs[0][1] for op, rs in tr.done().items()}
        return None
    if cid.startswith("connackcut-r"):
        c = [x for k in tr.by for x in tr.by[k] if x.startswith("C ")]
        if not c or not c[0].startswith("C ok "):
            return "connect: a CONNACK (reason 0) arriving in two reads gave %s" % (c[:1] or "nothing")
        return None
    if cid.startswith("connack-refusal-"):
        c = [x for k in tr.by for x in tr.by[k] if x.startswith("C ")]
        r = int(cid.split("-")[2][1:])
        if not c or not c[0].startswith("C err Connect r=%d " % r):
            return "connect: refusing CONNACK (reason %d) gave %s" % (r, c[:1])
        return None
    if cid.startswith("connack-r"):
        r = int(cid[9:])
        c = [x for k in tr.by for x in tr.by[k] if x.startswith("C ")]
        if not c:
            return "connect: connect() did not return on CONNACK"
        if r < 128 and not c[0].startswith("C ok ") or r >= 128 and not c[0].startswith("C err Connect r=%d " % r):
            return "connect: CONNACK reason %d gave %s" % (r, c[0][:40])
        return None
    if cid.startswith("challenge-"):
        c = [x for k in tr.by for x in tr.by[k] if x.startswith("C ")]
        if not c or not c[0].startswith("C auth r=24 "):
            return "connect: the server answered the CONNECT with an AUTH challenge (reason 0x18); connect() gave %s" % (c[:1] or "nothing")
        return None
    if cid.startswith("connect-"):
        c = [x for k in tr.by for x in tr.by[k] if x.startswith("C ")]
        if cid == "connect-auth":
            return None if (c and c[0].startswith("C auth ")) else "connect: AUTH challenge gave %s" % c[:1]
        if not c or "SocketClosed" not in c[-1]:
            return "connect: transport ended first but connect() gave %s" % c[:1]
        return None
    if start is None:
        return None
    kind = cid.split("-")[0]
    if kind == "nocause":
        return "onlythen: run() returned %s without a terminating cause" % rr[1] if rr else None
    if rr is None:
        return "exits: run() did not return on cause %s" % kind
    res = rr[1]
    if kind == "userdisc":
        if res != "ok":
            return "exits: user DISCONNECT gave %s" % res
        w = wire_of([l for l in lines if int(l.split(" ")[0]) >= start])
        ps = M.split_packets(w)
        if ps is None or any(p[0] >> 4 == 14 for p in ps[:-1]) or not ps or ps[-1][0] >> 4 != 14:
            return "afterdisc: something was written after the user's DISCONNECT"
    elif kind == "srvdisc":
        r = int(cid.split("-")[2][1:])
        if r == 0 and res != "ok":
            return "exits: server DISCONNECT reason 0 gave %s" % res
        if r != 0 and not res.startswith("err Disconnected r=%d " % r):
            return "exits: server DISCONNECT reason %d gave %s" % (r, res)
    elif kind == "glued":
        d = bytes.fromhex(cid.split("-")[-1])
        r = d[2] if d[1] > 0 else 0
        if r == 0 and res != "ok":
            return "exits: server DISCONNECT reason 0 delivered in the same read as another packet gave %s" % res
        if r != 0 and not res.startswith("err Disconnected r=%d " % r):
            return "exits: server DISCONNECT reason %d delivered in the same read as another packet gave %s" % (r, res)
    elif kind in ("eof", "rerr", "werr"):
        if res != "err SocketClosed":
            return "exits: %s gave %s" % (kind, res)
    elif kind == "handles":
        if res != "err HandleClosed":
            return "exits: all handles dropped gave %s" % res
        if rr[0] != len(tr.evs) - 1 - 0 and not tr.evs[rr[0]].startswith(("poll", "dropop", "drophandle")):
            return "exits: HandleClosed reported at an unrelated event"
    elif kind == "undecodable":
        if not res.startswith("err"):
            return "exits: undecodable input gave %s" % res
    return None


# ---- C14 ------------------------------------------------------------------------------------------
@oracle("C14")
def c14(case, lines):
    tr = Trace(case, lines)
    dk = next((k for k, e in enumerate(tr.evs) if e == "dropctx"), None)
    if dk is None:
        return None
    resolved = {op for op, rs in tr.done().items()}
    ended = set()
    for k in sorted(tr.by):
        for r in tr.by[k]:
            p = r.split(" ")
            if k > dk and p[0] == "P":
                return "pending: operation %s still pending when polled after the context was dropped" % p[1]
            if k > dk and p[0] == "D" and "SocketClosed" in r:
                # no handle operation ever reports the transport's state: what it learns once the Context is gone is that the
                # Context is gone
                return "variant: operation %s, pending when the Context was dropped, completes with %s; the property says ContextExited" % (
                    p[1], " ".join(p[2:])[:80])
            if k > dk and p[0] == "D" and not ("ContextExited" in r):
                # an operation whose request the context never processed (nothing of it reached the wire, no refusal
                # was sent to it) cannot report anything but ContextExited
                op = int(p[1])
                sp = op_specs(tr).get(op)
                fpk = first_polls(tr).get(op)
                if sp and fpk is not None and " ok" in (" " + r) and sp["kind"] in ("disc", "ping", "sub", "unsub", "pub"):
                    conn = connection_streams(tr)[0]
                    outp = outbound(tr, conn)
                    want = {"disc": "disconnect", "ping": "pingreq", "sub": "subscribe", "unsub": "unsubscribe", "pub": "publish"}[sp["kind"]]
                    if outp is not None and not any(i["kind"] == want and kk >= fpk for kk, i in outp):
                        return "pending: operation %d (%s) reports success after the context was dropped although its packet was never written" % (op, sp["kind"])
                    # ... and one that awaits an acknowledgement reports success only when that acknowledgement had arrived
                    q_ = int(sp["args"].get("q", 0)) if sp["kind"] == "pub" else 0
                    fin = {"sub": 9, "unsub": 11}.get(sp["kind"]) or ({1: 4, 2: 7}.get(q_) if sp["kind"] == "pub" else None)
                    inp14 = inbound(tr, conn)
                    if fin and outp is not None and inp14 is not None and not has(tr, "reconnect", "spin", "hold"):
                        mine = [i for kk, i in outp if kk == fpk and i["kind"] == want and i.get("pid")]
                        if len(mine) == 1:
                            acks = [kk for kk, pk in inp14 if kk < dk and rx_info(pk)["t"] == fin and rx_info(pk)["pid"] == mine[0]["pid"]]
                            if not acks:
                                return "pending: operation %d (%s) reports success at event %d, after the context was dropped, although the %s for its identifier %d never arrived" % (
                                    op, sp["kind"], k, {4: "PUBACK", 7: "PUBCOMP", 9: "SUBACK", 11: "UNSUBACK"}[fin], mine[0]["pid"])
            if p[0] == "E":
                ended.add(int(p[1]))
    # operations started after the drop fail immediately with ContextExited
    specs = op_specs(tr)
    for op, sp in specs.items():
        if sp["ev"] > dk:
            rs = [r for _, r in tr.done().get(op, [])]
            if first_polls(tr).get(op) is not None and not any("ContextExited" in r or "Codec" in r for r in rs):
                return "later: operation %d started after the drop ended with %s" % (op, rs)
    # every stream polled often enough ends
    polls = {}
    for k, e in enumerate(tr.evs):
        m = re.match(r"f?pollstream (\d+)$", e)
        if m and k > dk:
            polls.setdefault(int(m.group(1)), []).append(k)
    for j, ks in polls.items():
        last = tr.by.get(ks[-1], [])
        if any(x.startswith("N %d" % j) for x in last):
            return "streams: stream %d still pending after the context was dropped" % j
    # a stream that has reported its end has yielded everything that had been delivered to it before the Context went away
    if not tr.faulty or has(tr, "eof"):
        conn = connection_streams(tr)[0]
        inp = inbound(tr, conn)
        fp = first_polls(tr)
        order = sorted([i for i, o in specs.items() if o["kind"] == "sub" and i in fp and "f" in o["args"]], key=lambda i: fp[i])
        sid_of = {op: n + 1 for n, op in enumerate(order)}
        dropped_stream = {int(m.group(2)) for e in tr.evs for m in [re.match(r"(dropstream|dropop) (\d+)$", e)] if m}
        if inp is not None and not has(tr, "hold", "spin"):
            for op in order:
                if op not in ended or op in dropped_stream:
                    continue
                want, aw = [], set()
                for k, pk in inp:
                    i = rx_info(pk)
                    if i["t"] == 6:
                        aw.discard(i["pid"])
                    if i["t"] != 3 or k > dk:
                        continue
                    red = i["qos"] == 2 and i["pid"] in aw
                    if i["qos"] == 2:
                        aw.add(i["pid"])
                    if k > fp[op] and not red and sid_of[op] in i["subids"]:
                        want.append(M.hx(i["payload"]))
                got = [kv(" ".join(l.split(" ")[3:]))["pl"] for l in lines if l.split(" ")[1] == "I" and int(l.split(" ")[2]) == op]
                if got != want:
                    return "streams: stream %d reported its end having yielded %d of the %d messages delivered to it before the Context was dropped (%s...)" % (
                        op, len(got), len(want), got[:3])
    return None


def written_before_complete(case, lines):
    """a fire-and-forget request (QoS 0 publish, disconnect) reports success only once its packet is on the wire in full;
    nothing is reported while the transport has accepted only a part of it"""
    tr = Trace(case, lines)
    if has(tr, "reconnect", "werr"):
        return None
    specs, fp = op_specs(tr), first_polls(tr)
    wire = bytearray()
    for k in range(len(tr.evs)):
        for r in tr.by.get(k, []):
            if r.startswith("W "):
                wire += M.unhex(r[2:])
        for r in tr.by.get(k, []):
            if r.startswith("D "):
                op = int(r.split(" ")[1])
                sp = specs.get(op)
                if sp and r.split(" ", 2)[2] == "ok" and (sp["kind"] == "disc" or (sp["kind"] == "pub" and sp["args"].get("q", "0") == "0")):
                    if M.split_packets(bytes(wire)) is None:
                        return "early: operation %d (%s) reported success at event %d while its packet was only partly written (%d bytes on the wire)" % (
                            op, sp["kind"], k, len(wire))
    return None


# ---- C05 / C06 -------------------------------------------------------------------------------------
def completion_monitor(case, lines, strict_content=True):
    """each operation that reached the wire completes at most once, and only after the acknowledgement
    of its own type and identifier was delivered"""
    tr = Trace(case, lines)
    if has(tr, "reconnect"):
        return None
    conn = connection_streams(tr)[0]
    inp, outp = inbound(tr, conn), outbound(tr, conn)
    if inp is None or outp is None:
        return None
    done = tr.done()
    for op, rs in done.items():
        if len(rs) > 1:
            return "once: operation %d completed %d times" % (op, len(rs))
    specs, fp = op_specs(tr), first_polls(tr)
    # packets written in the event of an operation's first poll (or at release) belong to it
    acks_seen = {}
    for k, p in inp:
        i = rx_info(p)
        i["raw"] = p
        acks_seen.setdefault((i["t"], i.get("pid")), []).append((k, i))
    pings = sorted([op for op, sp in specs.items() if sp["kind"] == "ping" and op in fp], key=lambda o: fp[o])
    pingresps = sorted(k for k, p in inp if p[0] >> 4 == 13)
    hold = has(tr, "hold")
    for op, rs in done.items():
        k_done, res = rs[0]
        sp = specs.get(op)
        if not sp or op not in fp:
            continue
        own = [i for k, i in outp if k == fp[op] and i["kind"] in ("publish", "subscribe", "unsubscribe")]
        if sp["kind"] == "ping":
            if res == "ok" and not hold:
                n = pings.index(op)
                # the n-th ping still pending completes on the n-th PINGRESP after it was registered
                earlier = [k for k in pingresps if k > fp[op] and k <= k_done]
                if not earlier:
                    return "ownack: ping %d completed without a PINGRESP after it" % op
            continue
        if not own or hold:
            continue
        pkt = own[0]
        pid = pkt.get("pid")
        if "QuotaExceeded" in res or "MaximumPacketSizeExceeded" in res:
            return "refused-late: operation %d (%s id %s) was written at event %d and then failed with %s: a request is refused locally before anything of it is sent, or not at all" % (
                op, pkt["kind"], pid, fp[op], res[4:40])
        need = {"subscribe": [9], "unsubscribe": [11]}.get(pkt["kind"]) or ({1: [4], 2: [5, 7], 0: []}[pkt["qos"]])
        ok_res = res.startswith("ok") or res.startswith("err Pub")
        if ok_res and need:
            t_last = 5 if res.startswith("err Pubrec") else need[-1]
            base = fp[op]
            if t_last == 7:
                # the PUBCOMP that counts is the first one after this operation's PUBREL was written
                rel = [k for k, i in outp if i["kind"] == "pubrel" and i.get("pid") == pid and k > fp[op]]
                if not rel:
                    return "ownack: operation %d (publish id %s) completed with '%s' without having sent its PUBREL" % (op, pid, res[:30])
                base = rel[0]
            cands = [k for k, i in acks_seen.get((t_last, pid), []) if base < k <= k_done]
            if not cands:
                return "ownack: operation %d (%s id %s) completed with '%s' before its acknowledgement arrived" % (op, pkt["kind"], pid, res[:30])
            if strict_content:
                i = [i for k, i in acks_seen[(t_last, pid)] if base < k <= k_done][0]
                m = re.search(r"r=(\d+)", res)
                if res.startswith("err Pub") and (not m or int(m.group(1)) != i["reason"]):
                    return "content: operation %d reports reason %s, its acknowledgement carried %d" % (op, m and m.group(1), i["reason"])
                if res == "ok" and i["reason"] >= 128 and i["t"] in (4, 5, 7):
                    return "content: operation %d succeeded although its acknowledgement carried reason %d" % (op, i["reason"])
                # the whole content: reason code(s), reason string, user properties - as the standard's layout says
                try:
                    want = expected_view(i["raw"])
                except Exception:
                    want = None
                if want is not None and want != res and not (want == "ok" and res == "ok"):
                    return "content: operation %d completed with '%s', its acknowledgement (%s...) carries '%s'" % (op, res[:80], M.hx(i["raw"][:16]), want[:80])
    if hold or tr.faulty:
        return None
    dk = next((k for k, e in enumerate(tr.evs) if e == "dropctx"), None)
    start, end = run_window(tr)
    limit = min(x for x in (dk, end, len(tr.evs)) if x is not None)
    dropped = {}
    for k, e in enumerate(tr.evs):
        m = re.match(r"dropop (\d+)$", e)
        if m:
            dropped.setdefault(int(m.group(1)), k)
    polls = {}
    for k, e in enumerate(tr.evs):
        m = re.match(r"f?poll (\d+)$", e)
        if m:
            polls.setdefault(int(m.group(1)), []).append(k)
    # nobody is told the context has exited while it is alive and serving
    for op, rs in done.items():
        k_done, res = rs[0]
        if "ContextExited" in res and k_done < limit and (dk is None or k_done < dk) and (end is None or k_done < end):
            return "exited: operation %d completed with ContextExited at event %d while the context was alive" % (op, k_done)
    # pings complete one per PINGRESP in issue order (a dropped ping still absorbs its PINGRESP)
    queue, release = [], {}
    evs_ping = sorted([(fp[o], o) for o in pings])
    pi = 0
    for k in range(limit):
        while pi < len(evs_ping) and evs_ping[pi][0] == k:
            queue.append(evs_ping[pi][1])
            pi += 1
        for _ in [x for x in pingresps if x == k]:
            if queue:
                release[queue.pop(0)] = k
    for op in pings:
        rs = done.get(op)
        if rs and rs[0][1] == "ok":
            if op not in release or rs[0][0] < release[op]:
                return "pingorder: ping %d completed at event %d, its own PINGRESP (one per ping, in issue order) %s" % (
                    op, rs[0][0], ("arrived at event %d" % release[op]) if op in release else "never arrived")
        if op in release and op not in dropped:
            later = [k for k in polls.get(op, []) if k > release[op] and k < limit]
            if later and not rs:
                return "pingorder: ping %d still pending at event %d although its PINGRESP arrived at event %d" % (op, later[-1], release[op])
    # an operation polled after its (final) acknowledgement arrived has completed
    for op, sp in specs.items():
        if op not in fp or op in dropped or sp["kind"] == "ping":
            continue
        own = [i for k, i in outp if k == fp[op] and i["kind"] in ("publish", "subscribe", "unsubscribe")]
        if not own:
            continue
        pkt = own[0]
        t_ack = {"subscribe": 9, "unsubscribe": 11}.get(pkt["kind"]) or {1: 4, 2: None, 0: None}[pkt["qos"]]
        if t_ack is None and pkt["kind"] == "publish" and pkt["qos"] == 2:
            # QoS 2: the first PUBREC decides; >= 0x80 is final (and no PUBREL may follow), otherwise the PUBCOMP after
            # the PUBREL is final. Only while the identifier is not reused by a later PUBLISH.
            pid = pkt.get("pid")
            reuse = min([k for k, i in outp if i["kind"] == "publish" and i.get("pid") == pid and k > fp[op]] + [limit])
            recs = [(k, i) for k, i in acks_seen.get((5, pid), []) if fp[op] < k < reuse]
            if recs:
                k_rec, i_rec = recs[0]
                if i_rec["reason"] >= 128:
                    rel = [k for k, i in outp if i["kind"] == "pubrel" and i.get("pid") == pid and k_rec <= k < reuse]
                    if rel:
                        return "pubrel: a PUBREL for identifier %d was written at event %d after its PUBREC with reason %d (event %d)" % (pid, rel[0], i_rec["reason"], k_rec)
                    later = [k for k in polls.get(op, []) if k_rec < k < reuse]
                    if later and not done.get(op):
                        return "pending: operation %d (publish id %s) still pending at event %d, its PUBREC with reason %d arrived at event %d" % (
                            op, pid, later[-1], i_rec["reason"], k_rec)
                else:
                    rel = [k for k, i in outp if i["kind"] == "pubrel" and i.get("pid") == pid and k_rec <= k < reuse]
                    comps = [k for k, i in acks_seen.get((7, pid), []) if rel and rel[0] < k < reuse]
                    if comps:
                        later = [k for k in polls.get(op, []) if comps[0] < k < reuse]
                        if later and not done.get(op):
                            return "pending: operation %d (publish id %s) still pending at event %d, its PUBCOMP arrived at event %d" % (op, pid, later[-1], comps[0])
            continue
        if t_ack is None:
            continue
        arrived = [k for k, i in acks_seen.get((t_ack, pkt.get("pid")), []) if k > fp[op] and k < limit]
        if arrived:
            later = [k for k in polls.get(op, []) if k > arrived[0] and k < limit]
            if later and not done.get(op):
                return "pending: operation %d (%s id %s) still pending at event %d, its acknowledgement arrived at event %d" % (
                    op, pkt["kind"], pkt.get("pid"), later[-1], arrived[0])
    return None


@oracle("C05")
def c05(case, lines):
    if not (case.get("meta") or {}).get("malformed"):
        r_ = rejected_wellformed(Trace(case, lines), "the operations outstanding never get their acknowledgements")
        if r_:
            return r_
    return completion_monitor(case, lines)


@oracle("C06")
def c06(case, lines):
    w = written_before_complete(case, lines)
    if w:
        return w
    if not case.get("model", True):
        return None
    return c06_main(case, lines)


def c06_main(case, lines):
    tr0 = Trace(case, lines)
    qa_ = queued_across(case, tr0)
    if qa_:
        return qa_
    if not (case.get("meta") or {}).get("malformed"):
        r_ = rejected_wellformed(tr0, "the publishes outstanding never learn their outcome")
        if r_:
            return r_
    if not tr0.faulty and not has(tr0, "reconnect", "dropctx", "wblock"):
        # what was written must at least be a sequence of whole, well-formed client packets
        wire = wire_of(lines)
        pk = M.split_packets(bytes(wire))
        if pk is None:
            return "wire: the bytes written are not a sequence of whole packets (a length field does not match what follows it)"
        for q_ in pk:
            e = M.wellformed_client_packet(q_)
            if e:
                return "wire: a written packet (%s...) is not well-formed MQTT 5: %s" % (M.hx(q_[:12]), e)
    m = completion_monitor(case, lines)
    if m:
        return m
    tr = Trace(case, lines)
    w_ = returned_without_cause(tr)
    if w_:
        return w_ + ": the publishes outstanding never learn their outcome"
    if tr.faulty or has(tr, "reconnect", "dropctx"):
        return None
    conn = connection_streams(tr)[0]
    inp, outp = inbound(tr, conn), outbound(tr, conn)
    if inp is None or outp is None:
        return None
    seen_pub, seen_rel = {}, {}
    okrec = {}
    for k, p in inp:
        i = rx_info(p)
        if i["t"] == 5:
            okrec.setdefault(i["pid"], []).append((k, i["reason"]))
    for k, o in outp:
        if o["kind"] == "publish":
            if o["dup"]:
                return "dup: PUBLISH written with DUP=1 on its first transmission"
            if o["qos"] and not o.get("pid"):
                return "pid: QoS>0 PUBLISH without a packet identifier"
        if o["kind"] == "pubrel":
            recs = [r for kk, r in okrec.get(o["pid"], []) if kk <= k]
            if not recs:
                return "pubrel: PUBREL %d written before any PUBREC for it" % o["pid"]
            if recs[-1] >= 128 and all(r >= 128 for r in recs):
                return "pubrel: PUBREL %d written after a failing PUBREC" % o["pid"]
    # requested content on the wire
    specs, fp = op_specs(tr), first_polls(tr)
    if not has(tr, "hold"):
        for op, sp in specs.items():
            if sp["kind"] != "pub" or op not in fp:
                continue
            mine = [o for k, o in outp if k == fp[op] and o["kind"] == "publish"]
            res = [r for _, r in tr.done().get(op, [])]
            refused = any(x in r for r in res for x in ("QuotaExceeded", "MaximumPacketSize", "Codec", "ContextExited"))
            if len(mine) > 1:
                return "one: publish %d put %d PUBLISH packets on the wire" % (op, len(mine))
            if not mine:
                if res and not refused and "t" in sp["args"] and tr.run_result() is None:
                    return "one: publish %d was not refused but nothing was written" % op
                continue
            o = mine[0]
            a = sp["args"]
            if o["qos"] != int(a.get("q", 0)) or o["retain"] != int(a.get("ret", 0)) or \
               bytes(o["topic"]) != M.unhex(a.get("t", "-")) or bytes(o["payload"]) != M.unhex(a.get("pl", "-")):
                return "content: the PUBLISH of operation %d does not carry the requested qos/retain/topic/payload" % op
    return None


# ---- C07 ------------------------------------------------------------------------------------------
@oracle("C07")
def c07(case, lines):
    tr = Trace(case, lines)
    if not (case.get("meta") or {}).get("malformed"):
        r = rejected_wellformed(tr, "the message never reaches its stream")
        if r:
            return r
    if (case.get("id") or "") == "very-late-consumer":
        # tens of thousands of messages wait in the stream of a live subscription: all of them are yielded, in one go, and the
        # stream is neither ended nor robbed of its registration afterwards
        z = [kv(" ".join(l.split(" ")[3:])) for l in lines if l.split(" ")[1] == "Z"]
        if not z:
            return "backlog: no digest"
        d = z[0]
        if d["yielded"] != d["polls"] or int(d["pending"]) or int(d["ended"]):
            return "backlog: %s messages were delivered to the stream of a live subscription; %s polls yielded %s of them (%s Pending, %s end of stream%s)" % (
                d["polls"], d["polls"], d["yielded"], d["pending"], d["ended"], (", first gap at poll " + d["firstgap"]) if "firstgap" in d else "")
        tail = [l.split(" ")[1] for l in lines if l.split(" ")[1] in ("I", "N", "E") ]
        if tail[-2:] != ["I", "N"]:
            return "backlog: after the backlog was consumed a fresh message gave %s (expected the message, then Pending)" % tail[-2:]
        return None
    if (case.get("id") or "").startswith("stream-outlives-disconnect"):
        # a connection that ends (here: the user's DISCONNECT) does not end a stream - only the Context's departure does; the
        # stream serves the next connection of the same Context
        dk = next((k for k, e in enumerate(tr.evs) if e == "dropctx"), None)
        got = []
        for l in lines:
            p = l.split(" ")
            if p[1] == "E" and (dk is None or int(p[0]) < dk):
                return "end: stream %s reported its end at event %s, after the connection ended, although the Context is alive and nobody had dropped the stream" % (p[2], p[0])
            if p[1] == "I":
                got.append(kv(" ".join(p[3:]))["pl"])
        want = [M.hx(b"m1"), M.hx(b"m2")]
        if got != want:
            return "delivery: the stream yielded %s; its subscription identifier was carried by %s (the second one on the next connection of the same Context)" % (got, want)
        return None
    if (case.get("id") or "").startswith("ack-write-fails"):
        # the write fault hits the acknowledgement, after the message was handed to its stream
        got = [kv(" ".join(l.split(" ")[3:]))["pl"] for l in lines if l.split(" ")[1] == "I"]
        want = [M.hx(b"first"), M.hx(b"second")]
        if got != want:
            return "delivery: the stream yielded %s; delivered to it were %s (the second one's acknowledgement could not be written)" % (got, want)
        return None
    if tr.faulty or has(tr, "reconnect", "hold"):
        return None
    conn = connection_streams(tr)[0]
    inp = inbound(tr, conn)
    if inp is None:
        return None
    start, end = run_window(tr)
    if end is not None:
        return None
    specs, fp = op_specs(tr), first_polls(tr)
    order = sorted([i for i, o in specs.items() if o["kind"] == "sub" and i in fp and "f" in o["args"]], key=lambda i: fp[i])
    sid_of = {op: n + 1 for n, op in enumerate(order)}
    dropped_at = {}
    for k, e in enumerate(tr.evs):
        m = re.match(r"(dropstream|dropop) (\d+)$", e)
        if m:
            dropped_at.setdefault(int(m.group(2)), k)
    dk = next((k for k, e in enumerate(tr.evs) if e == "dropctx"), None)
    for op in order:
        sid = sid_of[op]
        want, wantv = [], []
        awaiting = set()
        for k, p in inp:
            i = rx_info(p)
            if i["t"] == 6:
                awaiting.discard(i["pid"])
            if i["t"] != 3:
                continue
            redelivery = False
            if i["qos"] == 2:
                redelivery = i["pid"] in awaiting
                awaiting.add(i["pid"])
            if k <= fp[op] or redelivery or (dk is not None and k > dk):
                continue
            if sid in i["subids"]:
                want.append(M.hx(i["payload"]))
                wantv.append(expected_view(p))
        got, gotv = [], []
        for l in lines:
            p = l.split(" ")
            if p[1] == "I" and int(p[2]) == op:
                got.append(kv(" ".join(p[3:]))["pl"])
                gotv.append(" ".join(p[3:]))
        if got != want[:len(got)]:
            return "delivery: stream %d yielded %s, its subscription identifier %d was carried by %s" % (op, got[:5], sid, want[:5])
        for n_, (g_, w_) in enumerate(zip(gotv, wantv)):
            if w_ is not None and g_ != w_ and not g_.startswith("L") and "pl=L" not in g_ and "pl=L" not in w_:
                return "unchanged: item %d of stream %d reads '%s', the PUBLISH delivered encodes '%s'" % (n_, op, g_[:200], w_[:200])
        if op not in dropped_at and dk is None:
            exp = []
            aw = set()
            for k, p in inp:
                i = rx_info(p)
                if i["t"] == 6:
                    aw.discard(i["pid"])
                if i["t"] != 3:
                    continue
                red = False
                if i["qos"] == 2:
                    red = i["pid"] in aw
                    aw.add(i["pid"])
                if k > fp[op] and not red and sid in i["subids"]:
                    exp.append((k, M.hx(i["payload"])))
            m = stream_strict(lines, op, exp)
            if m:
                return "delivery: " + m
        elif op in dropped_at and dk is None:
            # a stream that is dropped later: until then it is a stream like any other
            exp = []
            aw = set()
            for k, p in inp:
                i = rx_info(p)
                if i["t"] == 6:
                    aw.discard(i["pid"])
                if i["t"] != 3:
                    continue
                red = False
                if i["qos"] == 2:
                    red = i["pid"] in aw
                    aw.add(i["pid"])
                if fp[op] < k < dropped_at[op] and not red and sid in i["subids"]:
                    exp.append((k, M.hx(i["payload"])))
            m = stream_strict([l for l in lines if int(l.split(" ")[0]) < dropped_at[op]], op, exp)
            if m:
                return "delivery: " + m
        # a stream polled to Pending must have yielded everything delivered before that poll
        for l in lines:
            p = l.split(" ")
            if p[1] == "E" and int(p[2]) == op and dk is None and (op not in dropped_at or int(p[0]) < dropped_at[op]):
                return "end: stream %d reported its end at event %s although the context is alive and nobody had dropped it" % (op, p[0])
    return None


# ---- C15 ------------------------------------------------------------------------------------------
@oracle("C15")
def c15(case, lines):
    tr = Trace(case, lines)
    rr = tr.run_result()
    fp_ = first_polls(tr)
    polled_disc = any(sp["kind"] == "disc" and op in fp_ for op, sp in op_specs(tr).items())
    if rr is not None and not tr.faulty and not has(tr, "drophandle") and not polled_disc:
        conn = connection_streams(tr)[0]
        inp = inbound(tr, conn)
        if inp is not None and not any(p[0] >> 4 == 14 for _, p in inp):
            return "runsurvives: run() returned %s although only futures/streams were dropped" % rr[1]
    m = completion_monitor(case, lines)
    if m:
        return m
    if not has(tr, "hold", "reconnect", "dropctx") and not tr.faulty and rr is None:
        conn = connection_streams(tr)[0]
        inp, outp = inbound(tr, conn), outbound(tr, conn)
        if inp is not None and outp is not None:
            q2 = {i["pid"]: k for k, i in outp if i["kind"] == "publish" and i["qos"] == 2}
            rels = set(i["pid"] for k, i in outp if i["kind"] == "pubrel")
            for k, p in inp:
                i = rx_info(p)
                if i["t"] == 5 and i["reason"] < 128 and i["pid"] in q2 and q2[i["pid"]] < k and i["pid"] not in rels \
                        and k < len(tr.evs) - 1:
                    fpolls = first_polls(tr)
                    owner = [o for o, kk in fpolls.items() if kk == q2[i["pid"]]]
                    was_dropped = any(re.match(r"dropop %d$" % o, e) for o in owner for e in tr.evs[:k])
                    if was_dropped:
                        # (Receive Maximum exceeded is a different matter and is reported first)
                        b = c10(case, lines) if not has(tr, "hold") else None
                        if b and b.startswith("bound:"):
                            return b
                        return "k2: the PUBREC of QoS 2 publish id %d arrived after its future was dropped and no PUBREL was ever sent (the flow-control slot is never returned)" % i["pid"]
    # a PUBREL that was requested (the future was polled after its PUBREC) is sent even if the future is dropped before the
    # Context takes the request: the Context is committed to the exchange, only the PUBCOMP frees the slot
    if not has(tr, "reconnect", "dropctx") and not tr.faulty and rr is None:
        conn = connection_streams(tr)[0]
        inp, outp = inbound(tr, conn), outbound(tr, conn)
        if inp is not None and outp is not None:
            fpolls = first_polls(tr)
            q2 = {i["pid"]: k for k, i in outp if i["kind"] == "publish" and i["qos"] == 2 and not i["dup"]}
            rels = set(i["pid"] for k, i in outp if i["kind"] == "pubrel")
            for k, p in inp:
                i = rx_info(p)
                if i["t"] != 5 or i["reason"] >= 128 or i["pid"] not in q2 or q2[i["pid"]] >= k or i["pid"] in rels:
                    continue
                for o in [o for o, kk in fpolls.items() if kk == q2[i["pid"]]]:
                    dropped_at = next((kk for kk, e in enumerate(tr.evs) if e == "dropop %d" % o), len(tr.evs))
                    asked = [kk for kk, e in enumerate(tr.evs) if e in ("poll %d" % o, "fpoll %d" % o) and k < kk < dropped_at]
                    ran_after = asked and (not has(tr, "hold") or any(e == "release" for e in tr.evs[asked[0]:]))
                    if asked and ran_after and asked[0] < len(tr.evs) - 1:
                        return "pubrel: the PUBREL of QoS 2 publish id %d was requested at event %d (poll after its PUBREC) but never written; its flow-control slot is never returned" % (i["pid"], asked[0])
    # the late acknowledgement of an abandoned operation is absorbed silently: a PUBREC that refuses the message ends the
    # exchange, whoever still listens - nothing is written in answer to it
    if not has(tr, "reconnect", "dropctx", "spin") and not tr.faulty:
        conn = connection_streams(tr)[0]
        inp, outp = inbound(tr, conn), outbound(tr, conn)
        if inp is not None and outp is not None:
            for k, p in inp:
                i = rx_info(p)
                if i["t"] == 5 and i["reason"] >= 128:
                    later_pub = [kk for kk, o in outp if o["kind"] == "publish" and o.get("pid") == i["pid"] and kk > k]
                    for kk, o in outp:
                        if o["kind"] == "pubrel" and o["pid"] == i["pid"] and kk >= k and not any(lp <= kk for lp in later_pub):
                            return "absorbed: the PUBREC (reason 0x%02x) delivered at event %d ended the exchange of identifier %d, yet a PUBREL for it was written at event %d" % (
                                i["reason"], k, i["pid"], kk)
    r8 = c08(case, lines) if "dropped-stream" in (case.get("tags") or []) else None
    if r8:
        return r8
    r7 = c07(case, lines) if "dropped-stream" in (case.get("tags") or []) else None
    if r7:
        return r7
    if (case.get("id") or "").startswith(("cancel-pubrel-queued", "abandoned-with-pubrel-queued")):
        # the PUBREL of the abandoned publish went out, its PUBCOMP came back: the slot is free again, and these scripts
        # never have more than Receive Maximum publishes open afterwards
        for op, rs in sorted(tr.done().items()):
            if any("QuotaExceeded" in r for _, r in rs):
                return "slot: operation %d was refused with QuotaExceeded after the PUBCOMP of the abandoned QoS 2 publish had arrived: its flow-control slot was not returned" % op
    return c10(case, lines) if not has(tr, "hold") else None


# ---- C16 ------------------------------------------------------------------------------------------
@oracle("C16")
def c16(case, lines):
    if (case.get("id") or "").startswith("blocked-write-repolled-"):
        tr_ = Trace(case, lines)
        rr_ = tr_.run_result()
        if rr_ is not None:
            return "blocked: the transport blocked a write (Pending) and took it up again later; the task was polled in between and run() gave up with %s at event %d" % (rr_[1][:40], rr_[0])
        w_ = M.split_packets(bytes(wire_of(lines)))
        kinds = [M.tx_info(p_)["kind"] for p_ in (w_ or [])]
        if w_ is None or kinds.count("publish") != (2 if ("-request" in case["id"] or "-two" in case["id"]) else 1) or kinds.count("pingreq") != 1:
            return "blocked: after the blocked write was taken up again the wire holds %s (whole packets: %s); one CONNECT, one PINGREQ and each PUBLISH once were written" % (kinds, w_ is not None)
        d_ = tr_.done()
        inbound_pingresp = any(e == "deliver d000" for e in tr_.evs)
        if not any(r.startswith("ok") for _, r in d_.get(1, [])) or (inbound_pingresp and not d_.get(0)):
            return "blocked: the publish whose write had been blocked (and the ping whose PINGRESP arrived meanwhile) did not complete (%s)" % {k: v[:1] for k, v in d_.items()}
        return None
    if not (case.get("meta") or {}).get("malformed"):
        r_ = rejected_wellformed(Trace(case, lines), "an extra poll of the Context task in between destroyed bytes already read")
        if r_:
            return r_
    return completion_monitor(case, lines, strict_content=False)


# ---- C17 ------------------------------------------------------------------------------------------
@oracle("C17")
def c17(case, lines):
    tr = Trace(case, lines)
    conns = connection_streams(tr)
    if len(conns) < 2:
        return None
    pending = []          # unfinished handshakes in original order: (kind, pid, original packet info)
    for j, conn in enumerate(conns):
        inj, outj = inbound(tr, conn), outbound(tr, conn)
        if inj is None or outj is None:
            return None
        if j > 0:
            md = [e for e in tr.evs[conns[j - 1]["first"]:conn["first"]] if e.startswith("markdisc ")]
            if not md:
                return None
            elapsed = int(md[-1].split()[1])
            # the interval in force is the one this connection was opened with (Connection.session_expiry_interval:
            # the CONNECT's value, 0 when omitted, replaced by the CONNACK's when the server sends one)
            sei = 0
            ce = [e for e in tr.evs[conn["first"]:conn["last"] + 1] if e.startswith("connect")]
            m = re.search(r"sei=(\d+)", ce[0]) if ce else None
            if m:
                sei = int(m.group(1))
            for k in range(conn["first"], conn["last"] + 1):
                for x in tr.by.get(k, []):
                    m = re.match(r"C ok .*\bsei==(\d+)", x)
                    if m:
                        sei = int(m.group(1))
            expired = sei == 0 or (sei != 4294967295 and elapsed > sei)
            runj = next((k for k, e in enumerate(tr.evs) if e == "run" and conn["first"] < k <= conn["last"]), None)
            if runj is None:
                return None
            resent = [(o["kind"], o["pid"], o) for k, o in outj if k == runj and o["kind"] in ("publish", "pubrel")]
            want = [] if expired else pending
            head = resent[:len(want)]
            cut_short = any(e.startswith(("werr", "werr0")) for e in tr.evs[conn["first"]:runj + 1])
            if cut_short:
                # the transport broke during the resumption: what got out is a prefix of what was due; nothing is forgotten
                if [(a, b) for a, b, _ in resent] != [(a, b) for a, b, _ in want[:len(resent)]]:
                    return "resend: the resumption %d that a write fault cut short wrote %s, which is not a prefix of the unfinished handshakes %s" % (
                        j, [(a, b) for a, b, _ in resent], [(a, b) for a, b, _ in want])
                continue
            if [(a, b) for a, b, _ in head] != [(a, b) for a, b, _ in want]:
                return "resend: on resumption %d %s were re-sent, the unfinished handshakes are %s (expired=%s)" % (
                    j, [(a, b) for a, b, _ in resent], [(a, b) for a, b, _ in want], expired)
            for (kind, pid, o), (_, _, orig) in zip(head, want):
                if kind == "publish":
                    if not o["dup"]:
                        return "resend: re-sent PUBLISH %d without DUP=1" % pid
                    if o["raw"][1:] != orig["raw"][1:] or (o["raw"][0] & 0xf7) != (orig["raw"][0] & 0xf7):
                        return "resend: re-sent PUBLISH %d differs from the original" % pid
                elif kind == "pubrel":
                    if bytes(o["raw"]) != bytes(orig["raw"]):
                        return "resend: the PUBREL re-sent for identifier %d reads %s, the one first written %s (a PUBREL is re-sent as it was; its flags are fixed at 0010)" % (
                            pid, M.hx(bytes(o["raw"])), M.hx(bytes(orig["raw"])))
            extra = [(a, b) for a, b, o in resent[len(want):] if a == "pubrel" or o.get("dup")]
            if extra:
                return "resend: packets re-sent beyond the unfinished handshakes: %s" % extra
            if expired:
                pending = []
                # abandoned operations fail instead of hanging
                fp = first_polls(tr)
                for op, k in fp.items():
                    if k < conn["first"]:
                        last_poll = max(kk for kk, e in enumerate(tr.evs) if re.match(r"f?poll %d$" % op, e))
                        if last_poll > runj and any(x == "P %d" % op for x in tr.by.get(last_poll, [])):
                            sp = op_specs(tr)[op]
                            if sp["args"].get("q", "0") != "0":
                                return "expired: operation %d of the expired session is still pending" % op
        # what this connection adds to / removes from the unfinished handshakes, in the order things happened
        timeline = [(k, 0, o) for k, o in outj] + [(k, 1, rx_info(p)) for k, p in inj]
        timeline.sort(key=lambda x: (x[0], x[1]))
        for k, side, x in timeline:
            if side == 0:
                if x["kind"] == "publish" and x["qos"] > 0 and not x["dup"]:
                    if not any(a == "publish" and b == x["pid"] for a, b, _ in pending):
                        pending.append(("publish", x["pid"], x))
                elif x["kind"] == "pubrel":
                    if not any(a == "pubrel" and b == x["pid"] for a, b, _ in pending):
                        pending.append(("pubrel", x["pid"], x))
            else:
                if x["t"] in (4, 5):
                    pending = [y for y in pending if not (y[0] == "publish" and y[1] == x["pid"])]
                elif x["t"] == 7:
                    pending = [y for y in pending if not (y[0] == "pubrel" and y[1] == x["pid"])]
    return None


# ---- C03 ------------------------------------------------------------------------------------------
@oracle("C03")
def c03(case, lines):
    tr = Trace(case, lines)
    # a later connection of the same Context is framed from its own bytes only: its CONNACK is seen, its PINGRESP completes
    conns = connection_streams(tr)
    for j, cn in enumerate(conns[1:], 1):
        inj = inbound(tr, cn)
        if not inj or inj[0][1][0] >> 4 != 2:
            continue
        got = [x for k in range(cn["first"], cn["last"] + 1) for x in tr.by.get(k, []) if x.startswith("C ")]
        if not got or not got[0].startswith("C ok"):
            return "again: the CONNACK delivered at event %d on connection %d was not seen as such (connect() gave %s): bytes left over from the previous connection are still framed" % (
                inj[0][0], j + 1, got[:1] or "nothing")
        specs, fp, done = op_specs(tr), first_polls(tr), tr.done()
        for k, p in inj[1:]:
            if p[0] >> 4 == 13:
                pend = [o for o, sp in specs.items() if sp["kind"] == "ping" and cn["first"] < fp.get(o, -1) < k]
                polled_after = [o for o in pend if any(re.match(r"f?poll %d$" % o, e) for e in tr.evs[k + 1:cn["last"] + 1])]
                if polled_after and not any(done.get(o) for o in polled_after):
                    return "again: the PINGRESP delivered at event %d on connection %d completed no ping" % (k, j + 1)
    conn = connection_streams(tr)[0]
    inp = inbound(tr, conn)
    if inp is None:
        return None
    # the observable effect of every inbound packet is independent of chunking: acks written, items yielded
    want_acks, want_items = [], []
    for k, p in inp[1:]:
        i = rx_info(p)
        if i["t"] == 3:
            if i["qos"] == 1:
                want_acks.append(("puback", i["pid"]))
            if i["qos"] == 2:
                want_acks.append(("pubrec", i["pid"]))
            if 1 in i["subids"]:
                pl = bytes(i["payload"])
                want_items.append(M.hx(pl) if len(pl) <= 96 else None)
        elif i["t"] == 6:
            want_acks.append(("pubcomp", i["pid"]))
    outp = outbound(tr, conn)
    if outp is None:
        return "wire: written bytes are not whole packets"
    got_acks = [(o["kind"], o["pid"]) for k, o in outp if o["kind"] in ("puback", "pubrec", "pubcomp")]
    rr = tr.run_result()
    ended = any(e in ("eof", "rerr") for e in tr.evs) or any(e.startswith("start") and " disc" in e for e in tr.evs)
    if rr is not None and not ended:
        return "end: run() returned %s before the transport ended" % rr[1]
    if not ended and got_acks != want_acks:
        return "packets: acknowledgements %s written for inbound packets that require %s" % (got_acks[:5], want_acks[:5])
    # a PINGRESP in the stream completes the ping that is pending throughout
    if not ended and any(rx_info(p)["t"] == 13 for k, p in inp[1:]) and any(e == "poll 9" for e in tr.evs):
        if not any(r.startswith("ok") for _, r in tr.done().get(9, [])):
            return "packets: a PINGRESP was delivered but the pending ping did not complete (%s)" % tr.done().get(9)
    items = [kv(" ".join(l.split(" ")[3:]))["pl"] for l in lines if l.split(" ")[1] == "I"]
    polls = sum(1 for e in tr.evs if e.startswith("pollstream"))
    want = [w for w in want_items][:polls]
    for g, w in zip(items, want):
        if w is not None and g != w:
            return "packets: stream yielded %s where the byte stream carries %s" % (g, w)
    if not ended and len(items) < min(len(want_items), polls):
        return "packets: %d of %d delivered messages were yielded" % (len(items), min(len(want_items), polls))
    return None


# ---- C04: panic / stall only (generic) --------------------------------------------------------------
@oracle("C04")
def c04(case, lines):
    if (case.get("id") or "").startswith(("rerun-", "reconnect-same-transport-")):
        # after run() (or connect()) gave up on an undecodable packet, the same connection is served again: what follows is
        # framed from where the bad packet ended, and the ping gets its PINGRESP
        tr_ = Trace(case, lines)
        if not any(r.startswith("ok") for _, r in tr_.done().get(0, [])):
            return "stall: after the undecodable packet, run() was called again and well-formed packets followed, but the ping pending throughout never completed (%s)" % (
                tr_.done().get(0) or "still pending")
    """never wedged with unread input: when everything delivered in the running phase is a sequence of whole packets
    that the client keeps serving, the PINGRESP at the end completes the ping pending since the start"""
    tr = Trace(case, lines)
    if "varint5" in (case.get("tags") or []) and not has(tr, "reconnect", "dropctx", "hold"):
        # a remaining-length field with a fourth continuation byte can never become a packet: the client gives up on it when
        # it has arrived, it does not go on reading
        dk = next((k for k, e in enumerate(tr.evs) if e.startswith("deliver ") and M.unhex(e[8:])[1:5] in (b"\xff\xff\xff\xff", b"\x80\x80\x80\x80")), None)
        res = [(k, r) for k in sorted(tr.by) for r in tr.by[k] if r.startswith(("R ", "C ")) and dk is not None and k >= dk]
        if dk is not None and (not res or res[0][0] > dk):
            return "stall: the length field delivered at event %d has four continuation bytes; the client neither reported it nor stopped reading (%s)" % (
                dk, ("first result at event %d: %s" % res[0]) if res else "no result")
    if tr.faulty or tr.run_result() is not None or has(tr, "reconnect", "dropctx"):
        return None
    conn = connection_streams(tr)[0]
    inp = inbound(tr, conn)
    specs, fp = op_specs(tr), first_polls(tr)
    pings = [o for o, sp in specs.items() if sp["kind"] == "ping" and o in fp]
    if inp is None or not pings:
        return None
    buf = b"".join(conn["in"][k] for k in sorted(conn["in"]))
    if M.split_packets(buf) is None:
        return None
    op = pings[0]
    after = [k for k, p in inp if p[0] >> 4 == 13 and k > fp[op]]
    last_poll = max([k for k, e in enumerate(tr.evs) if e in ("poll %d" % op, "fpoll %d" % op)] or [-1])
    if after and last_poll > after[0] and not tr.done().get(op):
        return "stall: a PINGRESP was delivered at event %d (all input well formed, run() still serving) but the ping pending since event %d never completed" % (after[0], fp[op])
    return None


# ---- C01 / C02: the spec decoders extracted from Coq do the work (modelrun spec-*); until then, framing
def submission_order(tr):
    """one packet per submitted request, in submission order: the request packets on the wire are exactly the requests
    that were polled (submitted) and not refused locally, in the order of their first polls - whether or not the caller
    still holds the future when the Context gets to the request"""
    if tr.faulty or has(tr, "reconnect", "dropctx", "spin", "spinsub", "threads", "wblock", "drophandle") or tr.run_result() is not None:
        return None
    if has(tr, "hold") and not any(e == "release" for e in tr.evs[max(k for k, e in enumerate(tr.evs) if e == "hold"):]):
        return None
    conn = connection_streams(tr)[0]
    outp = outbound(tr, conn)
    if outp is None:
        return None
    specs, fp, done = op_specs(tr), first_polls(tr), tr.done()
    start, _ = run_window(tr)
    if start is None:
        return None
    kindmap = {"pub": "publish", "sub": "subscribe", "unsub": "unsubscribe", "ping": "pingreq", "disc": "disconnect"}
    want = []
    for op in sorted(fp, key=lambda o: fp[o]):
        sp = specs.get(op)
        if not sp or sp["ev"] < start:
            continue
        res = [r for _, r in done.get(op, [])]
        local = any(x in r for r in res for x in ("MaximumPacketSizeExceeded", "QuotaExceeded", "err Codec", "ContextExited", "HandleClosed", "err Builder", "panic"))
        if local:
            continue
        want.append(kindmap[sp["kind"]])
    got = [o["kind"] for k, o in outp if o["kind"] in kindmap.values() and not (o["kind"] == "publish" and o.get("dup"))]
    if "disconnect" in want:
        want = want[:want.index("disconnect") + 1]          # nothing follows the DISCONNECT
    if got != want:
        return "order: the requests submitted are %s, the request packets written are %s" % (want[:12], got[:12])
    return None


def connect_content(tr):
    """the CONNECT written carries the caller's will (present iff topic and payload were given - an empty payload is a payload)
    and the caller's user properties: CONNECT's in the CONNECT properties, the will's in the will properties, each in call order"""
    ce = [(k, e) for k, e in enumerate(tr.evs) if e.split(" ")[0] == "connect"]
    if not ce or tr.faulty:
        return None
    k0, e = ce[0]
    toks = e.split(" ")[1:]
    args = [t.split("=", 1) for t in toks if "=" in t]
    want_up = [tuple(M.unhex(x) for x in v.split(":")) for k, v in args if k == "up"]
    want_wup = [tuple(M.unhex(x) for x in v.split(":")) for k, v in args if k == "wup"]
    d = dict(args)
    want_will = "wt" in d and "wp" in d
    w = b"".join(M.unhex(r[2:]) for r in tr.by.get(k0, []) if r.startswith("W "))
    if not w or w[0] != 0x10:
        return None
    try:
        n, j = M.read_varint(w, 1)
        body = w[j:j + n]
        flags = body[7]
        pl, k = M.read_varint(body, 10)
        dp = decode_props(body[k:k + pl])
        k += pl
        cl = (body[k] << 8) | body[k + 1]
        k += 2 + cl
        has_will = bool(flags & 4)
        wdp = ({}, [])
        wpay = None
        if has_will:
            wl, k2 = M.read_varint(body, k)
            wdp = decode_props(body[k2:k2 + wl])
            k = k2 + wl
            tl = (body[k] << 8) | body[k + 1]
            k += 2 + tl
            pl2 = (body[k] << 8) | body[k + 1]
            wpay = bytes(body[k + 2:k + 2 + pl2])
    except Exception:
        return "connect: the CONNECT written cannot be decoded field by field"
    if dp is None or wdp is None:
        return "connect: a property section of the CONNECT written cannot be decoded"
    try:
        # after the will: User Name (flag bit 7), Password (flag bit 6), each present iff the caller gave it
        if has_will:
            k += 2 + pl2
        got_un = got_pw = None
        if flags & 0x80:
            ul = (body[k] << 8) | body[k + 1]
            got_un = bytes(body[k + 2:k + 2 + ul])
            k += 2 + ul
        if flags & 0x40:
            pwl = (body[k] << 8) | body[k + 1]
            got_pw = bytes(body[k + 2:k + 2 + pwl])
            k += 2 + pwl
        if k != len(body):
            return "connect: %d bytes of the CONNECT payload are left over after its last field" % (len(body) - k)
    except Exception:
        return "connect: the CONNECT payload written cannot be decoded field by field"
    want_un = M.unhex(d["un"]) if "un" in d else None
    want_pw = M.unhex(d["pw"]) if "pw" in d else None
    if (got_un, got_pw) != (want_un, want_pw):
        return "connect: the caller gave user name %s and password %s; the CONNECT written carries user name %s and password %s (flags byte 0x%02x)" % (
            want_un, want_pw, got_un, got_pw, flags)
    if has_will != want_will:
        return "connect: the caller %s a will (topic and payload given: %s), the CONNECT written has Will Flag %d" % (
            "asked for" if want_will else "did not ask for", want_will, int(has_will))
    if want_will:
        want_wq, want_wr = int(d.get("wq", "0")), int(d.get("wr", "0"))
        if ((flags >> 3) & 3, (flags >> 5) & 1) != (want_wq, want_wr):
            return "connect: the caller asked for a will with QoS %d and retain %d; the Connect Flags written (0x%02x) say Will QoS %d, Will Retain %d" % (
                want_wq, want_wr, flags, (flags >> 3) & 3, (flags >> 5) & 1)
    if want_will and wpay != M.unhex(d["wp"]):
        return "connect: the will payload written is %s, the caller gave %s" % (M.hx(wpay), d["wp"])
    if dp[1] != want_up:
        return "connect: the CONNECT properties carry the user properties %s, the caller gave %s (in this order)" % (dp[1], want_up)
    if want_will and wdp[1] != want_wup:
        return "connect: the will properties carry the user properties %s, the caller gave %s (in this order)" % (wdp[1], want_wup)
    return None


def auth_content(tr):
    """the AUTH written by authorize() carries the reason, authentication method / data and user properties the caller gave
    (the two-byte form stands for reason 0 and nothing else)"""
    if tr.faulty:
        return None
    for k0, e in enumerate(tr.evs):
        if e.split(" ")[0] != "auth":
            continue
        args = [t.split("=", 1) for t in e.split(" ")[1:] if "=" in t]
        d = dict(args)
        want_up = [tuple(M.unhex(x) for x in v.split(":")) for k, v in args if k == "up"]
        w = b"".join(M.unhex(r[2:]) for r in tr.by.get(k0, []) if r.startswith("W "))
        if not w or w[0] != 0xf0:
            continue
        try:
            n, j = M.read_varint(w, 1)
            body = w[j:j + n]
            reason = body[0] if body else 0
            dp = ({}, [])
            if len(body) > 1:
                pl, k = M.read_varint(body, 1)
                dp = decode_props(body[k:k + pl])
        except Exception:
            return "auth: the AUTH written cannot be decoded field by field"
        if dp is None:
            return "auth: the property section of the AUTH written cannot be decoded"
        want = (int(d.get("r", 0)), M.unhex(d["am"]) if "am" in d else None, M.unhex(d["ad"]) if "ad" in d else None, want_up)
        got = (reason, dp[0].get(21), dp[0].get(22), dp[1])
        if got != want:
            return "auth: authorize() was given reason %d, method %s, data %s, user properties %s; the AUTH written (%s) carries reason %d, method %s, data %s, user properties %s" % (
                want[0], want[1], want[2], want[3], M.hx(w[:16]), got[0], got[1], got[2], got[3])
    return None


@oracle("C01")
def c01(case, lines):
    tr = Trace(case, lines)
    r0 = connect_content(tr) or auth_content(tr) or queued_across(case, tr)
    if r0:
        return r0
    if (case.get("id") or "") in ("quota0-others", "pings-outstanding"):
        # nothing but a QoS>0 PUBLISH is ever refused for the send quota, and no valid request is refused for any other
        # reason: each is written, in submission order
        specs_, done_ = op_specs(tr), tr.done()
        for op_, rs_ in done_.items():
            sp_ = specs_.get(op_)
            if sp_ and rs_[0][1].startswith("err") and not (sp_["kind"] == "pub" and sp_["args"].get("q", "0") != "0" and "QuotaExceeded" in rs_[0][1]):
                return "refused: the valid request %d (%s) ended with '%s'" % (op_, sp_["kind"], rs_[0][1][:40])
        conn_ = connection_streams(tr)[0]
        outp_ = outbound(tr, conn_)
        if outp_ is not None:
            kinds_ = {"pub": "publish", "sub": "subscribe", "unsub": "unsubscribe", "ping": "pingreq", "disc": "disconnect"}
            fp_ = first_polls(tr)
            want_ = [kinds_[specs_[o]["kind"]] for o in sorted(fp_, key=lambda o: fp_[o]) if o in specs_]
            got_ = [o["kind"] for k, o in outp_ if o["kind"] in kinds_.values()]
            if got_ != want_:
                return "order: the requests submitted are %s, the request packets written are %s" % (want_, got_)
    if (case.get("id") or "").startswith("dropped-queued"):
        # (the rule needs every local refusal to be observed; these scripts make sure it is)
        r = submission_order(tr)
        if r:
            return r
    for conn in connection_streams(tr):
        if tr.faulty:
            continue
        wire = bytearray()
        for k in range(conn["first"], conn["last"] + 1):
            for r in tr.by.get(k, []):
                if r.startswith("W "):
                    wire += M.unhex(r[2:])
        pk = M.split_packets(bytes(wire))
        if pk is None:
            return "wire: the bytes written are not a concatenation of whole packets"
        for p in pk:
            e = M.wellformed_client_packet(p)
            if e:
                return "malformed: a written packet (%s...) is not well-formed MQTT 5: %s" % (M.hx(p[:12]), e)
    return None


def _fnv(b):
    h = 0x811c9dc5
    for x in b:
        h ^= x
        h = (h * 0x01000193) & 0xffffffff
    return h


def _big(b):
    b = bytes(b)
    return "L%d:%08x" % (len(b), _fnv(b)) if len(b) > 96 else M.hx(b)


def _opt(v, raw=False):
    if v is None:
        return "~"
    return "=" + (str(v) if raw else _big(v))


def decode_props(pr):
    """property section body -> (dict id -> last value, [user properties in wire order]) or None"""
    d, ups, i = {}, [], 0
    while i < len(pr):
        pid = pr[i]
        t = M.PTYPE.get(pid)
        i += 1
        if t == "byte":
            d[pid] = pr[i]
            i += 1
        elif t == "u16":
            d[pid] = (pr[i] << 8) | pr[i + 1]
            i += 2
        elif t == "u32":
            d[pid] = int.from_bytes(pr[i:i + 4], "big")
            i += 4
        elif t == "var":
            v, i = M.read_varint(pr, i)
            d[pid] = v
        elif t in ("str", "bin"):
            ln = (pr[i] << 8) | pr[i + 1]
            d[pid] = bytes(pr[i + 2:i + 2 + ln])
            i += 2 + ln
        elif t == "pair":
            kl = (pr[i] << 8) | pr[i + 1]
            k = bytes(pr[i + 2:i + 2 + kl])
            i += 2 + kl
            vl = (pr[i] << 8) | pr[i + 1]
            ups.append((k, bytes(pr[i + 2:i + 2 + vl])))
            i += 2 + vl
        else:
            return None
    return d, ups


def _ups(u):
    return ",".join("%s:%s" % (_big(k), _big(v)) for k, v in u) if u else "-"


def expected_view(p):
    """the accessor line the standard implies for a well-formed server packet (None: not modelled here)"""
    t = p[0] >> 4
    body = p[M.read_varint(p, 1)[1]:]
    if t == 2:
        pl, k = M.read_varint(body, 2)
        dp = decode_props(body[k:k + pl])
        if dp is None:
            return None
        d, u = dp
        sp, r = body[0] & 1, body[1]
        if r >= 128:
            return "C err Connect r=%d rs=%s sr=%s up=%s" % (r, _opt(d.get(31)), _opt(d.get(28)), _ups(u))
        if d.get(41) == 0:
            return None
        return ("C ok sp=%d r=%d wsa=%d sia=%d ssa=%d mq=%d ra=%d ska=%s rm=%d tam=%d sei=%s mps=%s aci=%s rs=%s ri=%s sr=%s am=%s ad=%s up=%s" % (
            sp, r, d.get(40, 1), d.get(41, 1), d.get(42, 1), d.get(36, 2), d.get(37, 1), _opt(d.get(19), True), d.get(33, 65535),
            d.get(34, 0), _opt(d.get(17), True), _opt(d.get(39), True), _opt(d.get(18)), _opt(d.get(31)), _opt(d.get(26)),
            _opt(d.get(28)), _opt(d.get(21)), _opt(d.get(22)), _ups(u)))
    if t == 15:
        if not body:
            return "C auth r=0 rs=~ am=~ ad=~ up=-"
        pl, k = M.read_varint(body, 1)
        dp = decode_props(body[k:k + pl])
        if dp is None:
            return None
        d, u = dp
        return "C auth r=%d rs=%s am=%s ad=%s up=%s" % (body[0], _opt(d.get(31)), _opt(d.get(21)), _opt(d.get(22)), _ups(u))
    if t == 3:
        i = rx_info(p)
        tl = (body[0] << 8) | body[1]
        topic = body[2:2 + tl]
        k = 2 + tl + (2 if i["qos"] else 0)
        pl, k2 = M.read_varint(body, k)
        dp = decode_props(body[k2:k2 + pl])
        if dp is None:
            return None
        d, u = dp
        return "dup=%d ret=%d q=%d t=%s pfi=%s ta=%s mei=%s cd=%s rt=%s ct=%s pl=%s up=%s" % (
            i["dup"], p[0] & 1, i["qos"], _big(topic), _opt(d.get(1), True), _opt(d.get(35), True), _opt(d.get(2), True),
            _opt(d.get(9)), _opt(d.get(8)), _opt(d.get(3)), _big(i["payload"]), _ups(u))
    if t in (4, 5, 7, 9, 11):
        pid = (body[0] << 8) | body[1]
        if t in (9, 11):
            pl, k = M.read_varint(body, 2)
            dp = decode_props(body[k:k + pl])
            if dp is None:
                return None
            d, u = dp
            return "ok %s rs=%s up=%s codes=%s" % ("sub" if t == 9 else "unsub", _opt(d.get(31)), _ups(u), M.hx(body[k + pl:]))
        reason = body[2] if len(body) > 2 else 0
        d, u = {}, []
        if len(body) > 3:
            pl, k = M.read_varint(body, 3)
            dp = decode_props(body[k:k + pl])
            if dp is None:
                return None
            d, u = dp
        if reason < 128:
            return "ok" if t != 5 else None
        return "err %s r=%d rs=%s up=%s" % ({4: "Puback", 5: "Pubrec", 7: "Pubcomp"}[t], reason, _opt(d.get(31)), _ups(u))
    if t == 14:
        reason = body[0] if body else 0
        d, u = {}, []
        if len(body) > 1:
            pl, k = M.read_varint(body, 1)
            dp = decode_props(body[k:k + pl])
            if dp is None:
                return None
            d, u = dp
        if reason == 0:
            return "R ok"
        return "R err Disconnected r=%d sei=0 rs=%s sr=%s up=%s" % (reason, _opt(d.get(31)), _opt(d.get(28)), _ups(u))
    return None


@oracle("C02")
def c02(case, lines):
    """every value exposed through the accessors equals the value encoded in the (well-formed) packet delivered, with the
    standard's defaults for absent properties - computed here from the packet bytes, independently of model and code"""
    tr = Trace(case, lines)
    if "reuse" in (case.get("tags") or []):
        got = [kv(" ".join(l.split(" ")[3:]))["pl"] for l in lines if l.split(" ")[1] == "I"]
        if got != [M.hx(b"first"), M.hx(b"second")]:
            return "accept: the PUBREL delivered (whatever its legal form and reason code) ends the exchange; the stream yielded %s, the broker sent ['%s', '%s'] as two separate messages" % (
                got, M.hx(b"first"), M.hx(b"second"))
    if "sub-pending" in (case.get("tags") or []):
        r7_ = c07(case, lines)
        if r7_:
            return "values: " + r7_
    if "tail2" in (case.get("tags") or []):
        # a two-byte packet at the very end of a read that brought other packets is seen like any other
        dk = max(k for k, e in enumerate(tr.evs) if e.startswith("deliver "))
        if "pingresp" in case["tags"]:
            if not any(r.startswith("ok") for _, r in tr.done().get(9, [])):
                return "accept: the PINGRESP at the end of the read delivered at event %d was not seen (the ping pending since before is still pending)" % dk
        else:
            rr = tr.run_result()
            if rr is None or rr[1] != "ok" or rr[0] != dk:
                return "accept: the DISCONNECT (reason 0) at the end of the read delivered at event %d was not seen there (run() gave %s)" % (dk, rr)
    if tr.faulty or has(tr, "reconnect", "dropctx", "hold", "spin", "dropop", "dropstream"):
        return None
    conn = connection_streams(tr)[0]
    inp, outp = inbound(tr, conn), outbound(tr, conn)
    if inp is None or outp is None:
        return None
    fp, specs = first_polls(tr), op_specs(tr)
    # every packet of a C02 case is well formed by construction (tools/mqtt.py encoders): none may be rejected
    if (case.get("id") or "").startswith("r") and not has(tr, "eof", "rerr", "werr"):
        for k in sorted(tr.by):
            for r in tr.by[k]:
                if r.startswith(("R err Codec", "C err Codec")):
                    return "accept: the well-formed packet(s) delivered at event %d were rejected (%s)" % (k, r)
    items = [l.split(" ", 3) for l in lines if l.split(" ")[1] == "I"]
    n_item = 0
    subs = sorted([o for o, sp in specs.items() if sp["kind"] == "sub" and o in fp], key=lambda o: fp[o])
    for k, p in inp:
        t = p[0] >> 4
        exp = expected_view(p)
        if exp is None:
            continue
        if t in (2, 15):
            got = [r for r in tr.by.get(k, []) if r.startswith("C ")]
            if got and got[0] != exp:
                return "values: connect()/authorize() returned '%s', the packet delivered encodes '%s'" % (got[0][:200], exp[:200])
        elif t == 14:
            got = [r for r in tr.by.get(k, []) if r.startswith("R ")]
            if got and got[0] != exp:
                return "values: run() returned '%s', the DISCONNECT delivered encodes '%s'" % (got[0][:200], exp[:200])
        elif t == 3:
            i = rx_info(p)
            if len(subs) == 1 and i["subids"] == [1] and k > fp[subs[0]]:
                if n_item < len(items):
                    got = items[n_item][3]
                    n_item += 1
                    if got != exp:
                        return "values: the stream yielded '%s', the PUBLISH delivered encodes '%s'" % (got[:200], exp[:200])
        else:
            pid = ((p[M.read_varint(p, 1)[1]] << 8) | p[M.read_varint(p, 1)[1] + 1])
            kind = {4: "publish", 5: "publish", 7: "publish", 9: "subscribe", 11: "unsubscribe"}[t]
            owner = [o for o, kk in fp.items() if any(i["kind"] == kind and i.get("pid") == pid and k2 == kk for k2, i in outp)]
            if len(owner) != 1:
                continue
            res = [(kd, r) for kd, r in tr.done().get(owner[0], []) if kd >= k]
            if not res:
                polled_after = [kk for kk, e in enumerate(tr.evs) if kk > k and e in ("poll %d" % owner[0], "fpoll %d" % owner[0])]
                if t in (4, 5, 7) and exp is not None and exp.startswith("err") and polled_after and not tr.done().get(owner[0]):
                    return "values: the acknowledgement delivered at event %d encodes '%s'; operation %d, polled at event %d, does not report it" % (
                        k, exp[:120], owner[0], polled_after[0])
                continue
            if t == 4 or t in (9, 11) or (t == 7) or (t == 5 and exp.startswith("err")):
                # QoS 2: the PUBREC result is final only when it fails; the PUBCOMP decides otherwise
                if t == 4 and specs[owner[0]]["args"].get("q") != "1":
                    continue
                if res[0][1] != exp:
                    return "values: operation %d completed with '%s', its acknowledgement encodes '%s'" % (owner[0], res[0][1][:200], exp[:200])
    return None
