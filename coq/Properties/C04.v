(* C04 - no inbound bytes can panic the decoders.  `Panic` is the model's outcome for every Rust
   expression that can panic (unwrap, unreachable!, Bytes::advance past the end, slice index,
   arithmetic overflow with overflow checks on). *)
From Poster Require Import Model.Rx Model.Framing Proofs.VarintP Proofs.RxP Proofs.FramingP.

(* every non-empty byte string (the framing layer never hands over an empty one): the packet
   decoder returns a packet or an error *)
Theorem C04_decode_total : forall bs : bytes, bs <> [] -> dec_packet bs <> Panic.
Proof. exact dec_packet_np. Qed.
Print Assumptions C04_decode_total.

(* the variable byte integer decoder never overflows its u32 accumulator *)
Theorem C04_varint_total : forall bs : bytes, vdec bs <> VPanic.
Proof. exact vdec_no_panic. Qed.
Print Assumptions C04_varint_total.

(* and what it accepts is in range and within the input *)
Theorem C04_varint_range : forall bs : bytes,
  match vdec bs with
  | VOk v l => v <= VMAX /\ 1 <= l /\ l <= lenN bs /\ l <= 4
  | VPanic => False
  | _ => True
  end.
Proof. exact vdec_spec. Qed.
Print Assumptions C04_varint_range.

(* the framing layer: for every buffer state, every transport script and every fuel, a poll never
   panics, and what it hands to the decoder is never empty when the state is well formed *)
Theorem C04_framing_total : forall (fuel : nat) (x : rx) (rd : reader),
  fst (fst (fpoll fuel x rd)) <> FPanic.
Proof. exact fpoll_no_panic. Qed.
Print Assumptions C04_framing_total.
