(* Variable byte integer: round trip, totality (no u32 overflow), consumed length. *)
From Poster Require Import Model.Varint.
From Coq Require Import ZArith ZifyN ZifyBool.
Ltac Zify.zify_post_hook ::= Z.div_mod_to_equations.
Arguments N.add : simpl never. Arguments N.mul : simpl never. Arguments N.land : simpl never.
Arguments N.ltb : simpl never. Arguments N.leb : simpl never. Arguments N.eqb : simpl never.
Arguments N.div : simpl never. Arguments N.modulo : simpl never.

Fixpoint upto (n : nat) : list N := match n with O => [] | S k => upto k ++ [N.of_nat k] end.
Lemma upto_in n b : (b < N.of_nat n)%N -> In b (upto n).
Proof.
  induction n as [|k IH]; intros H; [lia|].
  cbn [upto]. apply in_or_app.
  destruct (N.eq_dec b (N.of_nat k)) as [->|Hne]; [right; left; reflexivity|left; apply IH; lia].
Qed.
(* finite sweep over the 256 byte values, lifted to a universally quantified statement *)
Lemma byte_sweep (P : N -> bool) :
  forallb P (upto 256) = true -> forall b, b < 256 -> P b = true.
Proof.
  intros H b Hb. rewrite forallb_forall in H. apply H. apply upto_in. exact Hb.
Qed.

Lemma land127 b : b < 256 -> N.land b 127 = b mod 128.
Proof.
  intros Hb. apply N.eqb_eq.
  exact (byte_sweep (fun b => N.land b 127 =? b mod 128) eq_refl b Hb).
Qed.
Lemma land128 b : b < 256 -> (N.land b 128 =? 0) = (b <? 128).
Proof.
  intros Hb. apply eqb_true_iff.
  exact (byte_sweep (fun b => eqb (N.land b 128 =? 0) (b <? 128)) eq_refl b Hb).
Qed.
(* for arbitrary N (not only bytes) the masks are still bounded *)
Lemma land127_le b : N.land b 127 <= 127.
Proof.
  assert (H : N.land b 127 < 2 ^ 7).
  { destruct (N.eq_dec (N.land b 127) 0) as [->|Hne]; [reflexivity|].
    apply N.log2_lt_pow2; [lia|].
    eapply N.le_lt_trans; [apply N.log2_land|].
    change (N.log2 127) with 6. lia. }
  change (2 ^ 7) with 128 in H. lia.
Qed.

(* one iteration of the loop, continuation byte *)
Lemma vdec_cont b r idx mult val :
  mult <= VMAX -> val + N.land b 127 * mult < U32 -> mult * 128 < U32 -> N.land b 128 <> 0 ->
  vdec_loop (b :: r) idx mult val = vdec_loop r (idx + 1) (mult * 128) (val + N.land b 127 * mult).
Proof.
  intros Hm Hv Hm' Hc. cbn [vdec_loop].
  replace (VMAX <? mult) with false by (symmetry; apply N.ltb_ge; exact Hm).
  replace (U32 <=? val + N.land b 127 * mult) with false by (symmetry; apply N.leb_gt; exact Hv).
  replace (U32 <=? mult * 128) with false by (symmetry; apply N.leb_gt; exact Hm').
  cbn [orb]. replace (N.land b 128 =? 0) with false by (symmetry; apply N.eqb_neq; exact Hc).
  reflexivity.
Qed.
Lemma vdec_last b r idx mult val :
  mult <= VMAX -> val + N.land b 127 * mult < U32 -> mult * 128 < U32 -> N.land b 128 = 0 ->
  idx <= 3 ->
  vdec_loop (b :: r) idx mult val = VOk (val + N.land b 127 * mult) (idx + 1).
Proof.
  intros Hm Hv Hm' Hc Hi. cbn [vdec_loop].
  replace (VMAX <? mult) with false by (symmetry; apply N.ltb_ge; exact Hm).
  replace (U32 <=? val + N.land b 127 * mult) with false by (symmetry; apply N.leb_gt; exact Hv).
  replace (U32 <=? mult * 128) with false by (symmetry; apply N.leb_gt; exact Hm').
  cbn [orb]. rewrite Hc. change (0 =? 0) with true. cbv iota.
  replace (idx <=? 3) with true by (symmetry; apply N.leb_le; exact Hi). reflexivity.
Qed.

Definition vlen0 (n : N) : N := match vlen n with Some l => l | None => 0 end.

Lemma cont_byte x : x < 128 -> N.land (x + 128) 127 = x /\ N.land (x + 128) 128 <> 0.
Proof.
  intros Hx. split.
  - rewrite land127 by lia. lia.
  - intros H. assert (H' := land128 (x + 128) ltac:(lia)). rewrite H in H'.
    change (0 =? 0) with true in H'. symmetry in H'. apply N.ltb_lt in H'. lia.
Qed.
Lemma last_byte x : x < 128 -> N.land x 127 = x /\ N.land x 128 = 0.
Proof.
  intros Hx. split.
  - rewrite land127 by lia. lia.
  - assert (H' := land128 x ltac:(lia)).
    replace (x <? 128) with true in H' by (symmetry; apply N.ltb_lt; exact Hx).
    apply N.eqb_eq in H'. exact H'.
Qed.

Theorem vdec_venc n rest : n <= VMAX -> vdec (venc n ++ rest) = VOk n (vlen0 n).
Proof.
  unfold VMAX. intros Hn. unfold vdec, venc, vlen0, vlen, VMAX.
  destruct (n <=? 127) eqn:H1.
  { apply N.leb_le in H1. cbn [app].
    destruct (last_byte n ltac:(lia)) as [Ha Hb].
    rewrite vdec_last; unfold VMAX, U32; rewrite ?Ha; try lia. f_equal; lia. }
  apply N.leb_gt in H1.
  destruct (n <=? 16383) eqn:H2.
  { apply N.leb_le in H2. cbn [app].
    destruct (cont_byte (n mod 128) ltac:(lia)) as [Ha Hb].
    rewrite vdec_cont; unfold VMAX, U32; rewrite ?Ha; try lia.
    destruct (last_byte ((n / 128) mod 128) ltac:(lia)) as [Hc Hd].
    rewrite vdec_last; unfold VMAX, U32; rewrite ?Hc; try lia. f_equal; lia. }
  apply N.leb_gt in H2.
  destruct (n <=? 2097151) eqn:H3.
  { apply N.leb_le in H3. cbn [app].
    destruct (cont_byte (n mod 128) ltac:(lia)) as [Ha Hb].
    rewrite vdec_cont; unfold VMAX, U32; rewrite ?Ha; try lia.
    destruct (cont_byte ((n / 128) mod 128) ltac:(lia)) as [Hc Hd].
    rewrite vdec_cont; unfold VMAX, U32; rewrite ?Hc; try lia.
    destruct (last_byte ((n / 16384) mod 128) ltac:(lia)) as [He Hf].
    rewrite vdec_last; unfold VMAX, U32; rewrite ?He; try lia. f_equal; lia. }
  apply N.leb_gt in H3.
  replace (n <=? 268435455) with true by (symmetry; apply N.leb_le; exact Hn).
  cbn [app].
  destruct (cont_byte (n mod 128) ltac:(lia)) as [Ha Hb].
  rewrite vdec_cont; unfold VMAX, U32; rewrite ?Ha; try lia.
  destruct (cont_byte ((n / 128) mod 128) ltac:(lia)) as [Hc Hd].
  rewrite vdec_cont; unfold VMAX, U32; rewrite ?Hc; try lia.
  destruct (cont_byte ((n / 16384) mod 128) ltac:(lia)) as [He Hf].
  rewrite vdec_cont; unfold VMAX, U32; rewrite ?He; try lia.
  destruct (last_byte ((n / 2097152) mod 128) ltac:(lia)) as [Hg Hh].
  rewrite vdec_last; unfold VMAX, U32; rewrite ?Hg; try lia. f_equal; lia.
Qed.

(* loop invariant: mult = 128^idx while idx <= 4, val < mult; then no u32 operation overflows,
   the result is below 2^28, and the consumed length is within the input *)
Lemma vdec_loop_spec bs : forall idx mult val,
  idx <= 4 -> mult = 128 ^ idx -> val < mult ->
  match vdec_loop bs idx mult val with
  | VOk v l => v <= VMAX /\ idx + 1 <= l /\ l <= idx + lenN bs /\ l <= 4
  | VPanic => False
  | _ => True
  end.
Proof.
  induction bs as [|b r IH]; intros idx mult val Hi Hm Hv; cbn [vdec_loop]; [exact I|].
  destruct (VMAX <? mult) eqn:Hmax; [exact I|]. apply N.ltb_ge in Hmax. unfold VMAX in Hmax.
  assert (Hidx : idx <= 3).
  { destruct (N.le_gt_cases idx 3) as [|Hgt]; [assumption|].
    assert (idx = 4) by lia. subst idx. subst mult. change (128 ^ 4) with 268435456 in Hmax. lia. }
  assert (Hb := land127_le b).
  assert (Hpow : mult * 128 = 128 ^ (idx + 1)) by (subst mult; rewrite N.pow_add_r; reflexivity).
  assert (Hval : val + N.land b 127 * mult < mult * 128) by nia.
  assert (Hm28 : mult * 128 <= 268435456).
  { rewrite Hpow. change 268435456 with (128 ^ 4). apply N.pow_le_mono_r; lia. }
  replace (U32 <=? val + N.land b 127 * mult) with false
    by (symmetry; apply N.leb_gt; unfold U32; lia).
  replace (U32 <=? mult * 128) with false by (symmetry; apply N.leb_gt; unfold U32; lia).
  cbn [orb].
  destruct (N.land b 128 =? 0).
  - replace (idx <=? 3) with true by (symmetry; apply N.leb_le; exact Hidx).
    unfold VMAX, lenN. cbn [length]. lia.
  - specialize (IH (idx + 1) (mult * 128) (val + N.land b 127 * mult) ltac:(lia) Hpow Hval).
    destruct (vdec_loop r (idx + 1) (mult * 128) (val + N.land b 127 * mult)); try exact IH.
    unfold lenN in *. cbn [length]. lia.
Qed.

Theorem vdec_spec bs :
  match vdec bs with
  | VOk v l => v <= VMAX /\ 1 <= l /\ l <= lenN bs /\ l <= 4
  | VPanic => False
  | _ => True
  end.
Proof.
  unfold vdec. assert (H := vdec_loop_spec bs 0 1 0 ltac:(lia) eq_refl ltac:(lia)).
  destruct (vdec_loop bs 0 1 0); try exact H.
Qed.
Corollary vdec_no_panic bs : vdec bs <> VPanic.
Proof. intros H. assert (S := vdec_spec bs). rewrite H in S. exact S. Qed.
