(* C07 / C09 over every sequence of inbound packets: what a subscription stream receives. *)
From Poster Require Import Model.Client Proofs.BytesP Proofs.ClientP Proofs.HandshakeP.
Arguments N.add : simpl never. Arguments N.mul : simpl never. Arguments N.sub : simpl never.
Arguments N.ltb : simpl never. Arguments N.leb : simpl never. Arguments N.eqb : simpl never.

(* ---- specification, written from the properties -------------------------------------------------------------------
   aw = packet identifiers of inbound QoS 2 messages answered with PUBREC and not yet released by PUBREL.
   A QoS 2 PUBLISH whose identifier is in aw is a re-delivery; anything else is a message. *)
Definition spec_redelivery (aw : list N) (p : rxpkt) : bool := (r_qos p =? 2) && memN (r_pid p) aw.
Definition spec_aw_step (aw : list N) (p : rxpkt) : list N :=
  match rk p with
  | KPublish => if (r_qos p =? 2) && negb (memN (r_pid p) aw) then aw ++ [r_pid p] else aw
  | KPubrel => filter (fun i => negb (i =? r_pid p)) aw
  | _ => aw
  end.
(* the messages the stream of subscription identifier sid must be handed, in arrival order *)
Fixpoint spec_deliveries (aw : list N) (sid : N) (ps : list rxpkt) : list rxpkt :=
  match ps with
  | [] => []
  | p :: r =>
    (match rk p, pub_subid p with
     | KPublish, Some s' => if (s' =? sid) && negb (spec_redelivery aw p) then [p] else []
     | _, _ => [] end) ++ spec_deliveries (spec_aw_step aw p) sid r
  end.

(* ---- one packet --------------------------------------------------------------------------------------------------- *)
Definition stream_state (s : sys) (sid j : N) (st : strm) : Prop :=
  alookup sid (subs (c s)) = Some j /\ alookup j (streams s) = Some st /\ st_recv st = true.

Lemma alookup_aremove_ne {A} k j (l : list (N * A)) : j <> k -> alookup j (aremove k l) = alookup j l.
Proof. apply alookup_aremove_other. Qed.

Lemma in_aremove_sub {A} (x : N * A) k l : In x (aremove k l) -> In x l.
Proof.
  induction l as [|[k' a'] l IH]; cbn [aremove]; [auto|]. destruct (k' =? k); [intros H; right; exact H|].
  intros [H|H]; [left; exact H|right; apply IH; exact H].
Qed.
Lemma alookup_in' {A} k (a : A) l : alookup k l = Some a -> In (k, a) l.
Proof.
  induction l as [|[k' a'] l IH]; cbn [alookup]; [discriminate|]. destruct (k' =? k) eqn:E.
  - apply N.eqb_eq in E. subst. intros H. inversion H. left. reflexivity.
  - intros H. right. apply IH. exact H.
Qed.

(* what dispatch does to the registrations and to the streams *)
Lemma dispatch_effect s sid' p :
  (subs (c (dispatch s sid' p)) = subs (c s) \/ subs (c (dispatch s sid' p)) = aremove sid' (subs (c s))) /\
  (forall k, (forall j', alookup sid' (subs (c s)) = Some j' -> j' <> k) ->
             alookup k (streams (dispatch s sid' p)) = alookup k (streams s)) /\
  await_rel (c (dispatch s sid' p)) = await_rel (c s).
Proof.
  unfold dispatch. destruct (alookup sid' (subs (c s))) as [j'|] eqn:E; [|auto].
  destruct (alookup j' (streams s)) as [st'|] eqn:E2.
  - destruct (st_recv st').
    + cbn [c subs streams set_streams]. split; [left; reflexivity|]. split; [|reflexivity].
      intros k Hk. specialize (Hk j' eq_refl). apply alookup_aset_other. congruence.
    + unfold close_stream_sender. cbn [streams set_c]. rewrite E2. cbn [c subs streams set_streams set_c with_subs await_rel].
      split; [right; reflexivity|]. split; [|reflexivity].
      intros k Hk. specialize (Hk j' eq_refl). apply alookup_aset_other. congruence.
  - cbn [c subs streams set_c with_subs await_rel]. auto.
Qed.

(* every registration (sid', j') with j' = j is the one under sid: two identifiers never share a stream *)
Definition sub_inj (s : sys) (sid j : N) : Prop := forall sid' j', In (sid', j') (subs (c s)) -> j' = j -> sid' = sid.

(* dispatching on another identifier leaves this stream and its registration alone *)
Lemma dispatch_other s sid j st sid' p : stream_state s sid j st -> sub_inj s sid j -> sid' <> sid ->
  stream_state (dispatch s sid' p) sid j st /\ sub_inj (dispatch s sid' p) sid j.
Proof.
  intros [H1 [H2 H3]] Hinj Hne. destruct (dispatch_effect s sid' p) as [Hs [Hst _]].
  assert (Hk : forall j', alookup sid' (subs (c s)) = Some j' -> j' <> j).
  { intros j' Hl Hj. apply Hne. apply (Hinj sid' j'); [apply alookup_in'; exact Hl|exact Hj]. }
  split.
  - split; [|split; [rewrite (Hst j Hk); exact H2|exact H3]].
    destruct Hs as [-> | ->]; [exact H1|]. rewrite alookup_aremove_other by congruence. exact H1.
  - intros a b Hin Hb. apply (Hinj a b); [|exact Hb]. destruct Hs as [Hs|Hs]; rewrite Hs in Hin; [exact Hin|].
    eapply in_aremove_sub. exact Hin.
Qed.
(* dispatching on this identifier appends the packet to this stream's buffer *)
Lemma dispatch_this s sid j st p : stream_state s sid j st -> sub_inj s sid j ->
  stream_state (dispatch s sid p) sid j (mkst (st_buf st ++ [p]) (st_sender st) true (st_taken st)) /\
  sub_inj (dispatch s sid p) sid j.
Proof.
  intros [H1 [H2 H3]] Hinj. unfold dispatch. rewrite H1, H2, H3. cbn [c subs streams set_streams].
  split; [|exact Hinj]. split; [exact H1|]. split; [apply alookup_aset_same|reflexivity].
Qed.

(* the part of the state these properties talk about *)
Definition view3 (s : sys) := (subs (c s), streams s, await_rel (c s)).
Lemma view3_write s p : view3 (fst (write s p)) = view3 s.
Proof. unfold write. destruct (wbudget s); [destruct (_ <=? _)|]; reflexivity. Qed.
Lemma view3_ack_waiter s a p : view3 (ack_waiter s a p) = view3 s.
Proof.
  unfold ack_waiter. destruct (alookup a (awaiting (c s))) as [[i ph]|]; [|reflexivity].
  unfold view3. rewrite complete_c, complete_streams. reflexivity.
Qed.
Lemma stream_state_view s s' sid j st : view3 s' = view3 s -> stream_state s sid j st -> stream_state s' sid j st.
Proof. unfold view3, stream_state. intros H. inversion H as [[H1 H2 H3]]. rewrite H1, H2. auto. Qed.
Lemma sub_inj_view s s' sid j : view3 s' = view3 s -> sub_inj s sid j -> sub_inj s' sid j.
Proof. unfold view3, sub_inj. intros H. inversion H as [[H1 H2 H3]]. rewrite H1. auto. Qed.

Definition one_delivery (aw : list N) (sid : N) (p : rxpkt) : list rxpkt :=
  match rk p, pub_subid p with
  | KPublish, Some s' => if (s' =? sid) && negb (spec_redelivery aw p) then [p] else []
  | _, _ => [] end.

Lemma handle_packet_view3 s p : rk p <> KPublish -> rk p <> KPubrel -> view3 (fst (handle_packet s p)) = view3 s.
Proof.
  intros H1 H2. unfold handle_packet. cbv zeta. destruct (rk p); try contradiction; cbn [fst];
    rewrite ?view3_ack_waiter; unfold view3, bump_quota; cbn [c set_c subs streams await_rel with_retx];
    repeat match goal with |- context [if ?b then _ else _] => destruct b end; reflexivity.
Qed.

Lemma handle_packet_stream3 s p sid j st : stream_state s sid j st -> sub_inj s sid j ->
  let s' := fst (handle_packet s p) in
  stream_state s' sid j (mkst (st_buf st ++ one_delivery (await_rel (c s)) sid p) (st_sender st) true (st_taken st)) /\
  sub_inj s' sid j /\ await_rel (c s') = spec_aw_step (await_rel (c s)) p.
Proof.
  intros Hst Hinj. cbv zeta.
  assert (Hst0 : stream_state s sid j (mkst (st_buf st) (st_sender st) true (st_taken st))).
  { destruct Hst as [H1 [H2 H3]]. repeat split; auto. rewrite H2. destruct st; cbn in *; subst; reflexivity. }
  assert (Hsame : rk p <> KPublish -> rk p <> KPubrel ->
     stream_state (fst (handle_packet s p)) sid j (mkst (st_buf st ++ one_delivery (await_rel (c s)) sid p) (st_sender st) true (st_taken st)) /\
     sub_inj (fst (handle_packet s p)) sid j /\
     await_rel (c (fst (handle_packet s p))) = spec_aw_step (await_rel (c s)) p).
  { intros N1 N2. pose proof (handle_packet_view3 s p N1 N2) as Hv.
    assert (E1 : one_delivery (await_rel (c s)) sid p = []) by (unfold one_delivery; destruct (rk p); try reflexivity; contradiction).
    assert (E2 : spec_aw_step (await_rel (c s)) p = await_rel (c s)) by (unfold spec_aw_step; destruct (rk p); try reflexivity; contradiction).
    rewrite E1, E2, app_nil_r. split; [eapply stream_state_view; eassumption|]. split; [eapply sub_inj_view; eassumption|].
    unfold view3 in Hv. inversion Hv. reflexivity. }
  destruct (rk p) eqn:K; try (apply Hsame; discriminate).
  all: unfold handle_packet, one_delivery, spec_aw_step; rewrite K; cbv zeta; cbn [fst].
  - (* publish *)
    unfold spec_redelivery.
    set (red := (r_qos p =? 2) && memN (r_pid p) (await_rel (c s))) in *.
    set (s1 := if (r_qos p =? 2) && negb red then set_c s (with_rel (c s) (await_rel (c s) ++ [r_pid p])) else s) in *.
    assert (Hs1 : stream_state s1 sid j st /\ sub_inj s1 sid j /\
                  await_rel (c s1) = (if (r_qos p =? 2) && negb (memN (r_pid p) (await_rel (c s))) then await_rel (c s) ++ [r_pid p] else await_rel (c s))).
    { subst s1 red. destruct (r_qos p =? 2); cbn [andb negb]; [|auto].
      destruct (memN (r_pid p) (await_rel (c s))); cbn [negb]; auto. }
    destruct Hs1 as [B1 [B2 B3]].
    set (s2 := if red then s1 else match pub_subid p with Some sid0 => dispatch s1 sid0 p | None => s1 end) in *.
    assert (Hs2 : stream_state s2 sid j (mkst (st_buf st ++ match pub_subid p with
                      | Some s' => if (s' =? sid) && negb red then [p] else [] | None => [] end) (st_sender st) true (st_taken st)) /\
                  sub_inj s2 sid j /\ await_rel (c s2) = await_rel (c s1)).
    { assert (Hnone : stream_state s1 sid j (mkst (st_buf st ++ []) (st_sender st) true (st_taken st))).
      { rewrite app_nil_r. destruct B1 as [H1 [H2 H3]]. repeat split; auto. rewrite H2. destruct st; cbn in *; subst; reflexivity. }
      subst s2. destruct red; [destruct (pub_subid p) as [s'|]; [rewrite andb_false_r|]; auto|].
      destruct (pub_subid p) as [s'|]; [|auto]. destruct (s' =? sid) eqn:E; cbn [andb negb].
      - apply N.eqb_eq in E. subst s'. destruct (dispatch_this s1 sid j st p B1 B2) as [C1 C2].
        split; [exact C1|]. split; [exact C2|]. apply dispatch_effect.
      - apply N.eqb_neq in E. destruct (dispatch_other s1 sid j st s' p B1 B2 E) as [C1 C2].
        split; [|split; [exact C2|apply dispatch_effect]].
        rewrite app_nil_r. destruct C1 as [H1 [H2 H3]]. repeat split; auto. rewrite H2. destruct st; cbn in *; subst; reflexivity. }
    destruct Hs2 as [C1 [C2 C3]].
    assert (Hv : forall s3, view3 s3 = view3 s2 ->
       stream_state s3 sid j (mkst (st_buf st ++ match pub_subid p with
                      | Some s' => if (s' =? sid) && negb red then [p] else [] | None => [] end) (st_sender st) true (st_taken st)) /\
       sub_inj s3 sid j /\ await_rel (c s3) = (if (r_qos p =? 2) && negb (memN (r_pid p) (await_rel (c s))) then await_rel (c s) ++ [r_pid p] else await_rel (c s))).
    { intros s3 H3. split; [eapply stream_state_view; eassumption|]. split; [eapply sub_inj_view; eassumption|].
      unfold view3 in H3. inversion H3 as [[D1 D2 D3]]. rewrite D3, C3. exact B3. }
    destruct (r_qos p =? 0); cbn [fst].
    + destruct (Hv s2 eq_refl) as [E1 [E2 E3]]. split; [exact E1|split; [exact E2|exact E3]].
    + destruct (Hv (fst (write s2 (if r_qos p =? 1 then enc_puback (r_pid p) else enc_pubrec (r_pid p)))) (view3_write _ _)) as [E1 [E2 E3]].
      split; [exact E1|split; [exact E2|exact E3]].
  - (* pubrel *)
    set (s1 := set_c s (with_rel (c s) (filter (fun i => negb (i =? r_pid p)) (await_rel (c s))))) in *.
    pose proof (view3_write s1 (enc_pubcomp (r_pid p))) as Hv. unfold view3 in Hv. inversion Hv as [[D1 D2 D3]].
    destruct Hst as [H1 [H2 H3]]. rewrite app_nil_r.
    repeat split; try assumption.
    + rewrite D1. exact H1.
    + rewrite D2, H2. destruct st; cbn in *; subst; reflexivity.
    + intros a b Hin. rewrite D1 in Hin. apply Hinj. exact Hin.
Qed.

Lemma handle_packet_stream s p sid j st : stream_state s sid j st -> sub_inj s sid j -> wbudget s = None ->
  let s' := fst (handle_packet s p) in
  stream_state s' sid j (mkst (st_buf st ++ one_delivery (await_rel (c s)) sid p) (st_sender st) true (st_taken st)) /\
  sub_inj s' sid j /\ await_rel (c s') = spec_aw_step (await_rel (c s)) p /\ wbudget s' = None.
Proof.
  intros Hst Hinj Hb. cbv zeta. destruct (handle_packet_stream3 s p sid j st Hst Hinj) as [H1 [H2 H3]].
  split; [exact H1|]. split; [exact H2|]. split; [exact H3|].
  pose proof (handle_packet_wire s p Hb) as H. unfold wb in H. inversion H. reflexivity.
Qed.

Lemma spec_deliveries_cons aw sid p r :
  spec_deliveries aw sid (p :: r) = one_delivery aw sid p ++ spec_deliveries (spec_aw_step aw p) sid r.
Proof. reflexivity. Qed.

(* C07 + C09 over every sequence of inbound packets, from any state in which the stream is registered and alive:
   its buffer grows by exactly the messages that carry its subscription identifier and are not QoS 2
   re-deliveries - unchanged, in arrival order, each once - whatever else arrives in between *)
Theorem stream_history ps : forall s sid j st, stream_state s sid j st -> sub_inj s sid j -> wbudget s = None ->
  let s' := take_packets s ps in
  stream_state s' sid j (mkst (st_buf st ++ spec_deliveries (await_rel (c s)) sid ps) (st_sender st) true (st_taken st)) /\
  await_rel (c s') = fold_left spec_aw_step ps (await_rel (c s)).
Proof.
  induction ps as [|p ps IH]; intros s sid j st Hst Hinj Hb; cbn [take_packets fold_left spec_deliveries].
  - rewrite app_nil_r. split; [|reflexivity]. destruct Hst as [H1 [H2 H3]]. repeat split; auto.
    rewrite H2. destruct st; cbn in *; subst; reflexivity.
  - destruct (handle_packet_stream s p sid j st Hst Hinj Hb) as [A1 [A2 [A3 A4]]].
    specialize (IH (fst (handle_packet s p)) sid j _ A1 A2 A4). cbv zeta in IH. unfold take_packets in IH.
    cbn [st_buf st_sender st_taken] in IH. rewrite A3 in IH. rewrite <- app_assoc in IH.
    fold (one_delivery (await_rel (c s)) sid p). exact IH.
Qed.
