"""Trace oracles: what each property demands of an implementation trace, written over the
observable alphabet only (script + harness lines).  Used to search for a concrete failing input
when a proof obligation or the correspondence breaks, and to classify known findings.
check(pid, case, lines) -> None | "kind: message"."""
import re
import mqtt as M


def by_event(lines):
    d = {}
    for l in lines:
        k, _, rest = l.partition(" ")
        d.setdefault(int(k), []).append(rest)
    return d


def events(case):
    # `startown` is `start` with the library's method called on the stored handle itself instead of a clone of it
    return [("start " + e.strip()[9:]) if e.strip().startswith("startown ") else e.strip() for e in case["script"].split(";")]


def wire_of(lines):
    out = bytearray()
    for l in lines:
        p = l.split(" ", 2)
        if p[1] == "W":
            out += M.unhex(p[2])
    return bytes(out)


def documented_assert(case, upto):
    """the CONNACK completed at event `upto` is a successful one announcing Subscription Identifiers
    unavailable: the library documents an assertion for it (exempted by C02 / C04)"""
    buf = b""
    evs = events(case)
    for k, e in enumerate(evs[:upto + 1]):
        if e == "reconnect":
            buf = b""
        if e.startswith("deliver "):
            buf += M.unhex(e[8:])
    pk = M.split_packets(buf)
    if not pk:
        # trailing bytes after the CONNACK: take the leading whole packets
        pk, i = [], 0
        while i + 1 < len(buf):
            r = M.read_varint(buf, i + 1)
            if r is None or r[1] + r[0] > len(buf):
                break
            pk.append(buf[i:r[1] + r[0]])
            i = r[1] + r[0]
    for p in pk:
        if p[0] >> 4 == 2:
            body = p[M.read_varint(p, 1)[1]:]
            if len(body) >= 3 and body[1] < 128:
                pl = M.read_varint(body, 2)
                if pl:
                    pr = body[pl[1]:pl[1] + pl[0]]
                    # scan properties for 0x29 0x00 (last occurrence wins)
                    i, val = 0, None
                    while i < len(pr):
                        t = M.PTYPE.get(pr[i])
                        if pr[i] == 41 and i + 1 < len(pr):
                            val = pr[i + 1]
                        if t == "byte":
                            i += 2
                        elif t == "u16":
                            i += 3
                        elif t == "u32":
                            i += 5
                        elif t in ("str", "bin") and i + 2 < len(pr):
                            i += 3 + ((pr[i + 1] << 8) | pr[i + 2])
                        elif t == "pair" and i + 2 < len(pr):
                            kl = (pr[i + 1] << 8) | pr[i + 2]
                            if i + 4 + kl >= len(pr):
                                break
                            i += 5 + kl + ((pr[i + 3 + kl] << 8) | pr[i + 4 + kl])
                        else:
                            break
                    if val == 0:
                        return True
    return False


def generic(case, lines, allow_assert=False):
    for l in lines:
        p = l.split(" ")
        if p[1] == "X" and p[2] == "ctx" and documented_assert(case, int(p[0])):
            continue
        if p[1] == "X" and not allow_assert:
            return "panic: the client panicked (%s) at event %s" % (" ".join(p[2:]), p[0])
        if p[1] == "S":
            return "stall: context task not woken although the transport has input (event %s)" % p[0]
        if p[1] == "L":
            return "lostwake: a task made progress only when polled without a wakeup (event %s, %s)" % (p[0], " ".join(p[2:]))
    return None


def kv(rest):
    return dict(x.split("=", 1) for x in rest.split(" ") if "=" in x)


class Trace:
    """decoded view of a script and its trace: inbound packets per event, outbound packets per event,
    completions"""

    def __init__(self, case, lines):
        self.evs = events(case)
        self.by = by_event(lines)
        self.lines = lines
        self.faulty = any(e.startswith(("werr", "eof", "rerr")) for e in self.evs)

    def out_packets(self, k):
        """client packets written during event k (None if not whole packets)"""
        b = bytearray()
        for r in self.by.get(k, []):
            if r.startswith("W "):
                b += M.unhex(r[2:])
        return M.split_packets(bytes(b))

    def done(self):
        """op -> (event, result string)"""
        d = {}
        for k in sorted(self.by):
            for r in self.by[k]:
                if r.startswith("D "):
                    p = r.split(" ", 2)
                    d.setdefault(int(p[1]), []).append((k, p[2]))
        return d

    def run_result(self):
        for k in sorted(self.by):
            for r in self.by[k]:
                if r.startswith("R "):
                    return k, r[2:]
        return None


def in_packets(ev):
    """inbound packets of a deliver event when it holds whole packets, else None"""
    if not ev.startswith("deliver "):
        return []
    return M.split_packets(M.unhex(ev[8:]))


def rx_info(p):
    t = p[0] >> 4
    r = M.read_varint(p, 1)
    body = p[r[1]:]
    d = {"t": t, "raw": p}
    if t == 3:
        d["qos"], d["dup"] = (p[0] >> 1) & 3, (p[0] >> 3) & 1
        tl = (body[0] << 8) | body[1]
        k = 2 + tl
        if d["qos"]:
            d["pid"] = (body[k] << 8) | body[k + 1]
            k += 2
        pl, k2 = M.read_varint(body, k)
        d["subids"] = []
        pr, i = body[k2:k2 + pl], 0
        while i < len(pr):
            pid = pr[i]
            ty = M.PTYPE.get(pid)
            if ty == "byte":
                i += 2
            elif ty == "u16":
                i += 3
            elif ty == "u32":
                i += 5
            elif ty == "var":
                v, j = M.read_varint(pr, i + 1)
                d["subids"].append(v)
                i = j
            elif ty in ("str", "bin"):
                i += 3 + ((pr[i + 1] << 8) | pr[i + 2])
            elif ty == "pair":
                kl = (pr[i + 1] << 8) | pr[i + 2]
                vl = (pr[i + 3 + kl] << 8) | pr[i + 4 + kl]
                i += 5 + kl + vl
            else:
                break
        d["payload"] = body[k2 + pl:]
    elif t in (4, 5, 6, 7, 9, 11):
        d["pid"] = (body[0] << 8) | body[1]
        d["reason"] = body[2] if t in (4, 5, 6, 7) and len(body) > 2 else 0
    elif t == 14:
        d["reason"] = body[0] if body else 0
    return d


# ------------------------------------------------------------------------------------------------
def check(pid, case, lines):
    f = CHECKS.get(pid)
    g = generic(case, lines, allow_assert=False)
    if g:
        return g
    try:
        return f(case, lines) if f else None
    except Exception:
        # a monitor that cannot even parse what the client wrote: if a written packet is not well-formed MQTT 5 that is the
        # failing input; anything else is a defect of the monitor itself and is raised
        import mqtt as M_
        wire = bytearray()
        for l in lines:
            p = l.split(" ", 2)
            if len(p) == 3 and p[1] == "W":
                wire += M_.unhex(p[2])
        try:
            pk = M_.split_packets(bytes(wire))
        except Exception:
            pk = None
        if pk is None:
            return "malformed: the bytes written are not a concatenation of whole MQTT packets"
        for q in pk:
            try:
                e = M_.wellformed_client_packet(q)
            except Exception as ex:
                e = "cannot be parsed (%s)" % type(ex).__name__
            if e:
                return "malformed: a written packet (%s...) is not well-formed MQTT 5: %s" % (M_.hx(q[:12]), e)
        raise


def known_class(pid, case, lines):
    m = case.get("meta") or {}
    if pid == "C07" and m.get("multi_subid"):
        return "two_or_more_subids"
    if pid == "C07":
        for e in events(case):
            for p in in_packets(e) or []:
                if p[0] >> 4 == 3 and len(set(rx_info(p)["subids"])) >= 2:
                    return "two_or_more_subids"
    if pid == "C15":
        msg = CHECKS["C15"](case, lines) if "C15" in CHECKS else None
        if msg and msg.startswith("k2:"):
            return "qos2_dropped_in_phase1"
    return None


CHECKS = {}


def oracle(pid):
    def deco(f):
        CHECKS[pid] = f
        return f
    return deco


import oracles_impl  # noqa: E402,F401
