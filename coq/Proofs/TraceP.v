(* The history a poll of the Context task takes, explicitly: trace fuel s lists, in order, the inbound packets and the
   queued requests the run loop handles. The loop is the run of Context steps over exactly that history (RefineP, made
   constructive), and the packets in it are exactly the frames the framing layer cuts from the transport's bytes, in
   order, decoded - so the chain bytes in -> frames (C03) -> packets (C02) -> Context steps -> bytes out (C06/C08)
   is closed inside the model. *)
From Poster Require Import Model.Sim Spec.Frames Proofs.BytesP Proofs.ClientP Proofs.QuotaP Proofs.HandshakeP Proofs.ResumeP Proofs.WireP
  Proofs.FramingP Proofs.FramingMainP Proofs.SimInvP Proofs.SettleP Proofs.RefineP Proofs.OwnP Proofs.StreamP.
Arguments N.add : simpl never. Arguments N.mul : simpl never. Arguments N.sub : simpl never.
Arguments N.ltb : simpl never. Arguments N.leb : simpl never. Arguments N.eqb : simpl never.

Fixpoint trace (fuel : nat) (s : sys) : list qev :=
  match fuel with
  | O => []
  | S fuel =>
    match cph s with
    | CRunning =>
      match fpoll (poll_fuel (rd s)) (fr s) (rd s) with
      | (FItem bs, f, r) =>
        match dec_packet bs with
        | Ok p => QPkt p :: match handle_packet (set_io s r f) p with (s1, Continue) => trace fuel s1 | _ => [] end
        | _ => []
        end
      | (FPending, f, r) =>
        match msgq (set_io s r f) with
        | m :: q => QMsg m :: match handle_message (set_msgq (set_io s r f) q) m with (s1, Continue) => trace fuel s1 | _ => [] end
        | [] => []
        end
      | _ => []
      end
    | _ => []
    end
  end.

Definition pkts (evs : list qev) : list rxpkt :=
  flat_map (fun e => match e with QPkt p => [p] | QMsg _ => [] end) evs.

(* the loop is the run over its trace; the requests in the trace are a prefix of the queue *)
Theorem settle_loop_trace fuel : forall s, cph s = CRunning ->
  view (settle_loop fuel s) = view (run_q s (trace fuel s)) /\
  exists rest, msgq s = msgs (trace fuel s) ++ rest /\ (cph (settle_loop fuel s) = CRunning -> msgq (settle_loop fuel s) = rest).
Proof.
  induction fuel as [|fuel IH]; intros s Hc; cbn [settle_loop trace].
  - split; [reflexivity|]. exists (msgq s). cbn [msgs flat_map app]. auto.
  - rewrite Hc. unfold run_turn. destruct (fpoll (poll_fuel (rd s)) (fr s) (rd s)) as [[o f] r].
    assert (Hstop : forall x res, view x = view s ->
       view (exit_run x res) = view (run_q s []) /\
       exists rest, msgq s = msgs [] ++ rest /\ (cph (exit_run x res) = CRunning -> msgq (exit_run x res) = rest)).
    { intros x res Hv. split; [rewrite view_exit; exact Hv|]. exists (msgq s). split; [reflexivity|cbn; discriminate]. }
    destruct o as [bs| | | |]; try (apply Hstop; reflexivity).
    + destruct (dec_packet bs) as [p| |]; try (apply Hstop; reflexivity).
      change (set_io s r f) with (U r f (msgq s) s). rewrite U_handle_packet.
      pose proof (cq_handle_packet s p) as Hcq. destruct (handle_packet s p) as [s1 a] eqn:Eh. cbn [fst snd] in *.
      unfold cq in Hcq. injection Hcq as Hc1 Hm1. cbn [run_q qstep msgs flat_map app]. rewrite Eh. cbn [fst].
      destruct a.
      * assert (Hc2 : cph (U r f (msgq s) s1) = CRunning) by (cbn; congruence).
        destruct (IH (U r f (msgq s) s1) Hc2) as [Hv (rest & Hq & Hr)]. split.
        -- rewrite Hv. apply view_run_U.
        -- exists rest. split; [exact Hq|exact Hr].
      * cbn [fst snd run_q]. split; [reflexivity|]. exists (msgq s). split; [reflexivity|cbn; discriminate].
    + change (set_io s r f) with (U r f (msgq s) s). change (msgq (U r f (msgq s) s)) with (msgq s).
      destruct (msgq s) as [|m q] eqn:Eq.
      * destruct (live_senders _ =? 0); [apply Hstop; reflexivity|]. cbn [fst run_q msgs flat_map app].
        split; [reflexivity|]. exists []. split; [reflexivity|]. intros _. reflexivity.
      * change (set_msgq (U r f (m :: q) s) q) with (U r f q s). rewrite U_handle_message.
        pose proof (cq_handle_message s m) as Hcq. destruct (handle_message s m) as [s1 a] eqn:Eh. cbn [fst snd] in *.
        unfold cq in Hcq. injection Hcq as Hc1 Hm1. cbn [run_q qstep msgs flat_map app]. rewrite Eh. cbn [fst].
        destruct a.
        -- assert (Hc2 : cph (U r f q s1) = CRunning) by (cbn; congruence).
           destruct (IH (U r f q s1) Hc2) as [Hv (rest & Hq & Hr)]. split.
           ++ rewrite Hv. apply view_run_U.
           ++ exists rest. split; [|exact Hr]. cbn [msgq U set_msgq] in Hq. cbn [app]. f_equal. exact Hq.
        -- cbn [fst snd run_q]. split; [reflexivity|]. exists q. split; [reflexivity|cbn; discriminate].
Qed.

(* the packets of the trace are the frames the framing layer yields, in order, decoded *)
Lemma drain_pending x rd x' rd' fuel n : fpoll fuel x rd = (FPending, x', rd') -> fst (drain n x' rd') = [].
Proof.
  intros Hp. destruct n as [|n]; [reflexivity|]. cbn [drain]. destruct (poll_fuel_S rd') as [k Hk].
  rewrite Hk, (fpoll_pending_idempotent _ _ _ _ _ Hp k). reflexivity.
Qed.
Theorem trace_frames fuel : forall s, cph s = CRunning ->
  exists n, Forall2 (fun p bs => dec_packet bs = Ok p) (pkts (trace fuel s))
                    (firstn (length (pkts (trace fuel s))) (fst (drain n (fr s) (rd s)))).
Proof.
  induction fuel as [|fuel IH]; intros s Hc; cbn [trace]; [exists O; constructor|].
  rewrite Hc. destruct (fpoll (poll_fuel (rd s)) (fr s) (rd s)) as [[o f] r] eqn:Ef.
  destruct o as [bs| | | |]; try (exists O; constructor).
  - destruct (dec_packet bs) as [p| |] eqn:Ed; try (exists O; constructor).
    pose proof (cq_handle_packet (set_io s r f) p) as Hcq. pose proof (io_handle_packet (set_io s r f) p) as Hio.
    destruct (handle_packet (set_io s r f) p) as [s1 a]. cbn [fst] in *.
    unfold cq in Hcq. injection Hcq as Hc1 _. unfold io in Hio. injection Hio as Hr1 Hf1 _.
    destruct a.
    + assert (Hc2 : cph s1 = CRunning) by (cbn in Hc1; congruence).
      destruct (IH s1 Hc2) as [n Hn]. exists (S n). cbn [pkts flat_map app length firstn drain]. rewrite Ef.
      destruct (drain n f r) as [ps e] eqn:Edr. cbn [fst firstn]. constructor; [exact Ed|].
      cbn [rd fr set_io] in Hr1, Hf1. rewrite Hr1, Hf1, Edr in Hn. exact Hn.
    + exists 1%nat. cbn [pkts flat_map app length firstn drain]. rewrite Ef. cbn [drain fst firstn]. constructor; [exact Ed|constructor].
  - destruct (msgq (set_io s r f)) as [|m q]; [exists O; constructor|].
    pose proof (cq_handle_message (set_msgq (set_io s r f) q) m) as Hcq. pose proof (io_handle_message (set_msgq (set_io s r f) q) m) as Hio.
    destruct (handle_message (set_msgq (set_io s r f) q) m) as [s1 a]. cbn [fst] in *.
    unfold cq in Hcq. injection Hcq as Hc1 _. unfold io in Hio. injection Hio as Hr1 Hf1 _.
    cbn [pkts flat_map app]. destruct a; [|exists O; constructor].
    assert (Hc2 : cph s1 = CRunning) by (cbn in Hc1; congruence).
    destruct (IH s1 Hc2) as [n Hn]. cbn [rd fr set_io set_msgq] in Hr1, Hf1. rewrite Hr1, Hf1 in Hn.
    rewrite (drain_pending _ _ _ _ _ n Ef) in Hn. fold (pkts (trace fuel s1)) in *.
    destruct (pkts (trace fuel s1)); [exists O; constructor|]. cbn in Hn. inversion Hn.
Qed.

(* ---- run() on a Context that recorded a disconnection (C17) ----------------------------------------------------------------- *)
Lemma settle_wire_grows s : wbudget s = None -> cph s = CRunning ->
  wire_ev (settle s) = wire_ev s ++ (if hold s || negb (ctx_alive s) then [] else spec_wire s (trace (settle_fuel s) s)).
Proof.
  intros Hb Hc. unfold settle. destruct (hold s || negb (ctx_alive s)); [rewrite app_nil_r; reflexivity|].
  destruct (settle_loop_trace (settle_fuel s) s Hc) as [Hv _].
  assert (Hw : wire_ev (settle_loop (settle_fuel s) s) = wire_ev (run_q s (trace (settle_fuel s) s))) by (unfold view in Hv; congruence).
  rewrite Hw. apply WireP.wire_history. exact Hb.
Qed.

(* the session has not expired: before anything else - before any request queued meanwhile, before any answer to what the
   server sends - run() writes the retransmit queue, in order *)
Theorem start_run_resumes s t : wbudget s = None -> disc_ts (c s) = Some t -> session_expired (c s) t = false ->
  exists tail, wire_ev (start_run s) = wire_ev s ++ concat (map snd (retx (c s))) ++ tail.
Proof.
  intros Hb Hd He. unfold start_run. cbv zeta. cbn [c set_cph]. rewrite Hd, He.
  set (s2 := set_c (set_cph s CIdle) (with_sei_ts (c (set_cph s CIdle)) (sei (c (set_cph s CIdle))) None)).
  assert (Hb2 : wbudget s2 = None) by exact Hb.
  destruct (retransmit_wire (retx (c s2)) s2 Hb2) as (Hw & Hok & _ & _ & _).
  destruct (retransmit s2 (retx (c s2))) as [s3 ok] eqn:Er. cbn [fst snd] in Hw, Hok. subst ok.
  assert (Hb3 : wbudget (set_cph s3 CRunning) = None).
  { cbn [wbudget set_cph]. pose proof (qstep_wb_none) as _. 
    assert (H : wbudget (fst (retransmit s2 (retx (c s2)))) = None).
    { generalize (retx (c s2)) as l. generalize s2 Hb2. clear. intros s0 H0 l. revert s0 H0.
      induction l as [|[a pkt] l IH]; intros s0 H0; cbn [retransmit]; [exact H0|].
      rewrite write_nofault_snd, write_nofault_fst by exact H0. apply IH. reflexivity. }
    rewrite Er in H. exact H. }
  rewrite (settle_wire_grows (set_cph s3 CRunning) Hb3 eq_refl). cbn [wire_ev set_cph]. rewrite Hw.
  change (wire_ev s2) with (wire_ev s). change (retx (c s2)) with (retx (c s)). rewrite <- app_assoc. eexists. reflexivity.
Qed.

(* the session has expired: the retransmit queue and the awaited acknowledgements are dropped - nothing of the old session
   is re-sent - and every operation that was awaiting an acknowledgement is resolved (its next poll reports ContextExited) *)
Theorem start_run_expired s t : disc_ts (c s) = Some t -> session_expired (c s) t = true ->
  let s1 := reset_session (set_cph s CIdle) in
  retx (c s1) = [] /\ awaiting (c s1) = [] /\ subs (c s1) = [] /\
  (forall a i ph, In (a, (i, ph)) (awaiting (c s)) -> ~ unresolved s1 i (nph ph)) /\
  start_run s = settle (set_cph (set_c s1 (with_sei_ts (c s1) (sei (c s1)) None)) CRunning).
Proof.
  intros Hd He. cbv zeta. split; [reflexivity|]. split; [reflexivity|]. split; [reflexivity|]. split.
  - intros a i ph Hin. destruct (reset_session_sum (set_cph s CIdle)) as (_ & _ & _ & _ & _ & Hn). apply (Hn a i ph). exact Hin.
  - unfold start_run. cbv zeta. cbn [c set_cph]. rewrite Hd, He. cbn [retransmit]. reflexivity.
Qed.

(* ---- the accounting of C10 carries over to a whole poll of the Context task ------------------------------------------------ *)
Lemma conf_run_is_run_q evs : forall s g s' g', conf_run s g evs = Some (s', g') -> s' = run_q s evs.
Proof.
  induction evs as [|e evs IH]; intros s g s' g' H; cbn [conf_run run_q] in *; [inversion H; reflexivity|].
  destruct e as [m|p]; [apply IH in H; exact H|].
  destruct (completes p) as [k|]; [destruct (kmem k g); [apply IH in H; exact H|discriminate]|apply IH in H; exact H].
Qed.
Theorem quota_after_poll s g s' g' : cph s = CRunning -> hold s = false -> ctx_alive s = true -> wbudget s = None ->
  quota (c s) + lenN g = rmax (c s) ->
  conf_run s g (trace (settle_fuel s) s) = Some (s', g') ->
  quota (c (settle s)) + lenN g' = rmax (c (settle s)) /\ rmax (c (settle s)) = rmax (c s) /\ lenN g' <= rmax (c s).
Proof.
  intros Hc Hh Ha Hb Hq Hr. pose proof (conf_run_is_run_q _ _ _ _ _ Hr) as E.
  destruct (conf_run_inv _ _ _ _ _ Hb Hq Hr) as (H1 & H2 & _).
  assert (Hcs : c (settle s) = c s').
  { unfold settle. rewrite Hh, Ha. cbn [orb negb]. destruct (settle_loop_trace (settle_fuel s) s Hc) as [Hv _].
    unfold view in Hv. rewrite E. congruence. }
  rewrite Hcs. split; [exact H1|]. split; [exact H2|]. rewrite <- H2. lia.
Qed.

(* and the retransmit queue of C17 *)
Theorem retx_after_poll s : cph s = CRunning -> hold s = false -> ctx_alive s = true -> wbudget s = None ->
  retx (c (settle s)) = unfinished s (retx (c s)) (trace (settle_fuel s) s).
Proof.
  intros Hc Hh Ha Hb. destruct (retx_history (trace (settle_fuel s) s) s Hb) as [H1 _]. rewrite <- H1.
  unfold settle. rewrite Hh, Ha. cbn [orb negb]. destruct (settle_loop_trace (settle_fuel s) s Hc) as [Hv _].
  unfold view in Hv. f_equal. congruence.
Qed.

(* ---- C07 / C09 over mixed histories: requests of other operations in between change nothing for a stream ------------------- *)
Lemma view3_complete s i ph v : view3 (complete s i ph v) = view3 s.
Proof. unfold complete. destruct (alookup i (ops s)); reflexivity. Qed.
Lemma view3_cancel s i ph : view3 (cancel s i ph) = view3 s.
Proof. unfold cancel. destruct (alookup i (ops s)); reflexivity. Qed.
Lemma alookup_app_some {A} k (a : A) l l' : alookup k l = Some a -> alookup k (l ++ l') = Some a.
Proof. induction l as [|[k' a'] l IH]; cbn [alookup app]; [discriminate|]. destruct (k' =? k); [auto|exact IH]. Qed.

Lemma handle_message_stream s m sid j st : stream_state s sid j st -> sub_inj s sid j -> fst (msg_op m) <> j ->
  let s' := fst (handle_message s m) in
  stream_state s' sid j st /\ sub_inj s' sid j /\ await_rel (c s') = await_rel (c s).
Proof.
  intros Hst Hinj Hne. cbv zeta.
  assert (Hsame : forall s', view3 s' = view3 s -> stream_state s' sid j st /\ sub_inj s' sid j /\ await_rel (c s') = await_rel (c s)).
  { intros s' Hv. split; [eapply stream_state_view; eassumption|]. split; [eapply sub_inj_view; eassumption|].
    unfold view3 in Hv. congruence. }
  unfold handle_message. cbv zeta. destruct m as [i p|i ph a p|i a sid' p]; cbn [msg_op fst] in Hne.
  - destruct (negb (size_ok (c s) p)); cbn [fst]; [apply Hsame; apply view3_complete|].
    destruct (negb (snd (write s p))); cbn [fst]; apply Hsame; rewrite ?view3_cancel, ?view3_complete, view3_write; reflexivity.
  - destruct (negb (size_ok (c s) p)); cbn [fst]; [apply Hsame; apply view3_complete|].
    destruct (ptype_of p =? 3).
    + destruct (quota (c s) =? 0); cbn [fst]; [apply Hsame; apply view3_complete|].
      destruct (negb (snd (write _ p))); cbn [fst]; apply Hsame.
      * rewrite view3_cancel, view3_write. reflexivity.
      * match goal with |- view3 (set_c ?x _) = _ => change (view3 (set_c x _)) with (view3 x) end. rewrite view3_write. reflexivity.
    + destruct (ptype_of p =? 6); destruct (negb (snd (write s p))); cbn [fst]; apply Hsame;
        try (rewrite view3_cancel, view3_write; reflexivity);
        match goal with |- view3 (set_c ?x _) = _ => change (view3 (set_c x _)) with (view3 x) end; rewrite view3_write; reflexivity.
  - destruct Hst as (H1 & H2 & H3).
    destruct (negb (size_ok (c s) p)); cbn [fst].
    + (* refused: the sender of stream i (not j) is dropped *)
      pose proof (view3_complete s i 1 CTooBig) as Hv1. remember (complete s i 1 CTooBig) as s1 eqn:Es1. clear Es1.
      assert (V1 : subs (c s1) = subs (c s)) by (unfold view3 in Hv1; congruence).
      assert (V2 : streams s1 = streams s) by (unfold view3 in Hv1; congruence).
      assert (V3 : await_rel (c s1) = await_rel (c s)) by (unfold view3 in Hv1; congruence).
      unfold close_stream_sender. destruct (alookup i (streams s1)) as [sti|] eqn:Ei.
      * split; [|split].
        -- unfold stream_state. cbn [c set_streams streams]. rewrite V1, V2. split; [exact H1|]. split; [|exact H3].
           rewrite alookup_aset_other by (intros E; apply Hne; symmetry; exact E). exact H2.
        -- unfold sub_inj. cbn [c set_streams]. rewrite V1. exact Hinj.
        -- cbn [c set_streams]. exact V3.
      * split; [|split]; [unfold stream_state; rewrite V1, V2; auto|unfold sub_inj; rewrite V1; exact Hinj|exact V3].
    + match goal with |- context [fst (write ?x p)] => set (s1 := x) end.
      pose proof (view3_write s1 p) as Hv. unfold view3 in Hv. injection Hv as V1 V2 V3.
      split; [|split].
      * unfold stream_state. rewrite V1, V2. cbn [s1 c set_c subs with_subs with_awaiting streams].
        split; [apply alookup_app_some; exact H1|]. auto.
      * unfold sub_inj. rewrite V1. cbn [s1 c set_c subs with_subs with_awaiting]. intros sid0 j0 Hin Hj.
        apply in_app_or in Hin. destruct Hin as [Hin|[He|[]]]; [apply (Hinj sid0 j0 Hin Hj)|]. inversion He; subst. contradiction.
      * rewrite V3. reflexivity.
Qed.

Theorem stream_history_mixed evs : forall s sid j st, stream_state s sid j st -> sub_inj s sid j -> wbudget s = None ->
  (forall m, In m (msgs evs) -> fst (msg_op m) <> j) ->
  let s' := run_q s evs in
  stream_state s' sid j (mkst (st_buf st ++ spec_deliveries (await_rel (c s)) sid (pkts evs)) (st_sender st) true (st_taken st)) /\
  await_rel (c s') = fold_left spec_aw_step (pkts evs) (await_rel (c s)).
Proof.
  induction evs as [|e evs IH]; intros s sid j st Hst Hinj Hb Hm; cbn [run_q pkts flat_map app].
  - cbn [spec_deliveries fold_left]. rewrite app_nil_r. split; [|reflexivity]. destruct Hst as [H1 [H2 H3]]. repeat split; auto.
    rewrite H2. destruct st; cbn in *; subst; reflexivity.
  - destruct e as [m|p]; cbn [qstep].
    + destruct (handle_message_stream s m sid j st Hst Hinj) as (A1 & A2 & A3).
      { apply Hm. cbn [msgs flat_map app]. left. reflexivity. }
      cbn [app]. fold (pkts evs). rewrite <- A3. apply IH; [exact A1|exact A2|apply (qstep_wb_none s (QMsg m) Hb)|].
      intros m' Hin. apply Hm. cbn [msgs flat_map app]. right. exact Hin.
    + destruct (handle_packet_stream s p sid j st Hst Hinj Hb) as [A1 [A2 [A3 A4]]].
      assert (Hm' : forall m, In m (msgs evs) -> fst (msg_op m) <> j) by (intros m' Hin; apply Hm; exact Hin).
      specialize (IH (fst (handle_packet s p)) sid j _ A1 A2 A4 Hm'). cbv zeta in IH.
      cbn [st_buf st_sender st_taken] in IH. cbn [app fold_left]. fold (pkts evs). rewrite spec_deliveries_cons.
      rewrite A3 in IH. rewrite <- app_assoc in IH. exact IH.
Qed.

Theorem stream_after_poll s sid j st : cph s = CRunning -> hold s = false -> ctx_alive s = true -> wbudget s = None ->
  stream_state s sid j st -> sub_inj s sid j -> (forall m, In m (msgq s) -> fst (msg_op m) <> j) ->
  let evs := trace (settle_fuel s) s in
  stream_state (settle s) sid j
    (mkst (st_buf st ++ spec_deliveries (await_rel (c s)) sid (pkts evs)) (st_sender st) true (st_taken st)) /\
  await_rel (c (settle s)) = fold_left spec_aw_step (pkts evs) (await_rel (c s)).
Proof.
  intros Hc Hh Ha Hb Hst Hinj Hq. cbv zeta.
  destruct (settle_loop_trace (settle_fuel s) s Hc) as [Hv (rest & Hm & _)].
  assert (Hmm : forall m, In m (msgs (trace (settle_fuel s) s)) -> fst (msg_op m) <> j).
  { intros m Hin. apply Hq. rewrite Hm. apply in_or_app. left. exact Hin. }
  destruct (stream_history_mixed (trace (settle_fuel s) s) s sid j st Hst Hinj Hb Hmm) as [H1 H2]. cbv zeta in H1, H2.
  unfold settle. rewrite Hh, Ha. cbn [orb negb]. unfold view in Hv.
  assert (Ec : c (settle_loop (settle_fuel s) s) = c (run_q s (trace (settle_fuel s) s))) by congruence.
  assert (Es : streams (settle_loop (settle_fuel s) s) = streams (run_q s (trace (settle_fuel s) s))) by congruence.
  split; [|rewrite Ec; exact H2]. unfold stream_state in *. rewrite Ec, Es. exact H1.
Qed.
