(* C15 over every history of Context steps: removing an operation's future from the table (what dropping it does)
   commutes with every step of the Context. So whatever happens afterwards - requests of other callers, inbound
   packets, the late acknowledgement of the abandoned operation itself - the Context state, the wire, the queue, the
   streams, the decision to keep running, and every other operation's channels are exactly what they would have been
   had the future been kept. *)
From Poster Require Import Model.Client Proofs.BytesP Proofs.ClientP Proofs.QuotaP Proofs.HandshakeP Proofs.ResumeP Proofs.OwnP.
Arguments N.add : simpl never. Arguments N.mul : simpl never. Arguments N.sub : simpl never.
Arguments N.ltb : simpl never. Arguments N.leb : simpl never. Arguments N.eqb : simpl never.

Definition rm (i : N) (s : sys) : sys := set_ops s (aremove i (ops s)).

Lemma aremove_aset_same {A} i (a : A) l : aremove i (aset i a l) = aremove i l.
Proof.
  induction l as [|[k b] l IH]; cbn [aset aremove]; [rewrite N.eqb_refl; reflexivity|].
  destruct (k =? i) eqn:E; cbn [aremove]; [rewrite N.eqb_refl; reflexivity|]. rewrite E, IH. reflexivity.
Qed.
Lemma aremove_aset_comm {A} i j (a : A) l : j <> i -> aremove i (aset j a l) = aset j a (aremove i l).
Proof.
  intros Hne. induction l as [|[k b] l IH]; cbn [aset aremove].
  - replace (j =? i) with false by (symmetry; apply N.eqb_neq; exact Hne). reflexivity.
  - destruct (k =? j) eqn:Ej; destruct (k =? i) eqn:Ei; cbn [aset aremove]; rewrite ?Ej, ?Ei.
    + apply N.eqb_eq in Ej, Ei. congruence.
    + replace (j =? i) with false by (symmetry; apply N.eqb_neq; exact Hne). reflexivity.
    + reflexivity.
    + rewrite IH. reflexivity.
Qed.

Lemma rm_complete i s j ph v : Uniq s -> complete (rm i s) j ph v = rm i (complete s j ph v).
Proof.
  intros Hu. unfold complete, rm. cbn [ops set_ops]. destruct (N.eq_dec j i) as [->|Hne].
  - destruct (aremove_keys i (ops s) Hu) as (_ & Hl & _). rewrite Hl.
    destruct (alookup i (ops s)) as [o|]; [|reflexivity]. cbn [ops set_ops]. rewrite aremove_aset_same. reflexivity.
  - rewrite alookup_aremove_other by exact Hne. destruct (alookup j (ops s)) as [o|]; [|reflexivity].
    cbn [ops set_ops o_kind o_phase o_ch1 o_ch2 o_pid]. rewrite aremove_aset_comm by exact Hne. reflexivity.
Qed.
Lemma rm_cancel i s j ph : Uniq s -> cancel (rm i s) j ph = rm i (cancel s j ph).
Proof.
  intros Hu. unfold cancel, rm. cbn [ops set_ops]. destruct (N.eq_dec j i) as [->|Hne].
  - destruct (aremove_keys i (ops s) Hu) as (_ & Hl & _). rewrite Hl.
    destruct (alookup i (ops s)) as [o|]; [|reflexivity]. cbn [ops set_ops]. rewrite aremove_aset_same. reflexivity.
  - rewrite alookup_aremove_other by exact Hne. destruct (alookup j (ops s)) as [o|]; [|reflexivity].
    cbn [ops set_ops]. rewrite aremove_aset_comm by exact Hne. reflexivity.
Qed.
Lemma rm_write i s p : write (rm i s) p = (rm i (fst (write s p)), snd (write s p)).
Proof. unfold write, rm. cbn [wbudget set_ops]. destruct (wbudget s) as [b|]; [destruct (lenN p <=? b)|]; reflexivity. Qed.
Lemma rm_close i s j : close_stream_sender (rm i s) j = rm i (close_stream_sender s j).
Proof. unfold close_stream_sender, rm. cbn [streams set_ops]. destruct (alookup j (streams s)); reflexivity. Qed.
Lemma rm_dispatch i s sid p : dispatch (rm i s) sid p = rm i (dispatch s sid p).
Proof.
  unfold dispatch. change (c (rm i s)) with (c s). change (streams (rm i s)) with (streams s).
  destruct (alookup sid (subs (c s))) as [j|]; [|reflexivity].
  destruct (alookup j (streams s)) as [st|]; [|reflexivity]. destruct (st_recv st); [reflexivity|].
  change (set_c (rm i s) ?x) with (rm i (set_c s x)). apply rm_close.
Qed.
Lemma Uniq_set_c s x : Uniq s -> Uniq (set_c s x).
Proof. exact (fun H => H). Qed.
Lemma rm_ack_waiter i s a p : Uniq s -> ack_waiter (rm i s) a p = rm i (ack_waiter s a p).
Proof.
  intros Hu. unfold ack_waiter. change (c (rm i s)) with (c s).
  destruct (alookup a (awaiting (c s))) as [[j ph]|]; [|reflexivity].
  change (set_c (rm i s) ?x) with (rm i (set_c s x)). apply rm_complete. exact Hu.
Qed.

Lemma Uniq_write s p : Uniq s -> Uniq (fst (write s p)).
Proof. intros H. eapply Uniq_keys; [|exact H]. apply keys_write. Qed.

Lemma rm_handle_message i s m : Uniq s ->
  handle_message (rm i s) m = (rm i (fst (handle_message s m)), snd (handle_message s m)).
Proof.
  intros Hu. unfold handle_message. cbv zeta. change (c (rm i s)) with (c s).
  destruct m as [j p|j ph a p|j a sid p].
  - destruct (negb (size_ok (c s) p)); cbn [fst snd]; [rewrite rm_complete by exact Hu; reflexivity|].
    rewrite rm_write. cbn [fst snd]. destruct (negb (snd (write s p))); cbn [fst snd].
    + rewrite rm_cancel by (apply Uniq_write; exact Hu). reflexivity.
    + rewrite rm_complete by (apply Uniq_write; exact Hu). reflexivity.
  - destruct (negb (size_ok (c s) p)); cbn [fst snd]; [rewrite rm_complete by exact Hu; reflexivity|].
    destruct (ptype_of p =? 3).
    + destruct (quota (c s) =? 0); cbn [fst snd]; [rewrite rm_complete by exact Hu; reflexivity|].
      change (set_c (rm i s) ?x) with (rm i (set_c s x)). rewrite rm_write. cbn [fst snd].
      destruct (negb (snd (write (set_c s (with_quota (c s) (quota (c s) - 1))) p))); cbn [fst snd].
      * rewrite rm_cancel by (apply Uniq_write; exact Hu). reflexivity.
      * reflexivity.
    + destruct (ptype_of p =? 6); rewrite rm_write; cbn [fst snd]; destruct (negb (snd (write s p))); cbn [fst snd];
        try (rewrite rm_cancel by (apply Uniq_write; exact Hu)); reflexivity.
  - destruct (negb (size_ok (c s) p)); cbn [fst snd].
    + rewrite rm_complete by exact Hu. rewrite rm_close. reflexivity.
    + change (set_c (rm i s) ?x) with (rm i (set_c s x)). rewrite rm_write. cbn [fst snd]. reflexivity.
Qed.

Lemma rm_handle_packet i s p : Uniq s ->
  handle_packet (rm i s) p = (rm i (fst (handle_packet s p)), snd (handle_packet s p)).
Proof.
  intros Hu. unfold handle_packet. cbv zeta. change (c (rm i s)) with (c s).
  destruct (rk p); cbn [fst snd];
    try (change (set_c (rm i s) ?x) with (rm i (set_c s x)); rewrite rm_ack_waiter by exact Hu; reflexivity);
    try reflexivity.
  - (* publish *)
    set (red := (r_qos p =? 2) && memN (r_pid p) (await_rel (c s))).
    set (s1 := if (r_qos p =? 2) && negb red then set_c s (with_rel (c s) (await_rel (c s) ++ [r_pid p])) else s).
    assert (E1 : (if (r_qos p =? 2) && negb red then set_c (rm i s) (with_rel (c s) (await_rel (c s) ++ [r_pid p])) else rm i s) = rm i s1)
      by (unfold s1; destruct ((r_qos p =? 2) && negb red); reflexivity).
    rewrite E1.
    set (s2 := if red then s1 else match pub_subid p with Some sid => dispatch s1 sid p | None => s1 end).
    assert (E2 : (if red then rm i s1 else match pub_subid p with Some sid => dispatch (rm i s1) sid p | None => rm i s1 end) = rm i s2).
    { unfold s2. destruct red; [reflexivity|]. destruct (pub_subid p); [apply rm_dispatch|reflexivity]. }
    rewrite E2. destruct (r_qos p =? 0); [reflexivity|]. rewrite rm_write. reflexivity.
  - (* pubrel *)
    change (set_c (rm i s) ?x) with (rm i (set_c s x)). rewrite rm_write. reflexivity.
Qed.

Lemma Uniq_qstep s e : Uniq s -> Uniq (qstep s e).
Proof.
  intros H. destruct e as [m|p]; cbn [qstep]; (eapply Uniq_keys; [|exact H]); [apply keys_handle_message|apply keys_handle_packet].
Qed.

Theorem drop_commutes evs : forall i s, Uniq s -> run_q (rm i s) evs = rm i (run_q s evs).
Proof.
  induction evs as [|e evs IH]; intros i s Hu; cbn [run_q]; [reflexivity|].
  assert (E : qstep (rm i s) e = rm i (qstep s e)).
  { destruct e as [m|p]; cbn [qstep]; [rewrite rm_handle_message|rewrite rm_handle_packet]; try exact Hu; reflexivity. }
  rewrite E. apply IH. apply Uniq_qstep. exact Hu.
Qed.

(* what that means for an observer: after any history, with or without the abandoned future, *)
Theorem drop_invisible evs i s : Uniq s ->
  let a := run_q (rm i s) evs in let b := run_q s evs in
  c a = c b /\ wire_ev a = wire_ev b /\ wbudget a = wbudget b /\ msgq a = msgq b /\ streams a = streams b /\
  (forall j, j <> i -> alookup j (ops a) = alookup j (ops b)) /\ alookup i (ops a) = None.
Proof.
  intros Hu. cbv zeta. rewrite drop_commutes by exact Hu. unfold rm. cbn [c wire_ev wbudget msgq streams ops set_ops].
  repeat split; try reflexivity.
  - intros j Hj. apply alookup_aremove_other. exact Hj.
  - assert (Hu' : Uniq (run_q s evs)).
    { clear i. revert s Hu. induction evs as [|e evs IH]; intros s Hu; cbn [run_q]; [exact Hu|]. apply IH, Uniq_qstep, Hu. }
    destruct (aremove_keys i (ops (run_q s evs)) Hu') as (_ & Hl & _). exact Hl.
Qed.

(* and at every single step the Context takes the same decision (keep running / leave run() and how) *)
Theorem drop_same_decision i s : Uniq s ->
  (forall m, snd (handle_message (rm i s) m) = snd (handle_message s m)) /\
  (forall p, snd (handle_packet (rm i s) p) = snd (handle_packet s p)).
Proof.
  intros Hu. split; [intros m; rewrite rm_handle_message by exact Hu|intros p; rewrite rm_handle_packet by exact Hu]; reflexivity.
Qed.

(* drop_op is rm for every operation but a subscribe whose stream receiver was never taken out of its response *)
Lemma drop_op_rm s i o : alookup i (ops s) = Some o ->
  (forall so, o_kind o = OSub so -> match alookup i (streams s) with Some st => st_taken st = true | None => True end) ->
  drop_op s i = rm i s.
Proof.
  intros Hl Hk. unfold drop_op. rewrite Hl. destruct (o_kind o) eqn:Ek; try reflexivity.
  match goal with so : subscribe_opts |- _ => specialize (Hk so eq_refl) end. destruct (alookup i (streams s)) as [st|]; [rewrite Hk|]; reflexivity.
Qed.
