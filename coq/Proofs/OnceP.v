(* C05 "completes exactly once", over every history: as long as an operation label is not started anew, its future
   reports a result at most once - from ANY state, whatever else happens (acknowledgements repeated or stray, other
   operations, faults, reconnects, the Context dropped). A result is reported only by a poll of that future, and from
   then on the future is finished for good. *)
From Poster Require Import Model.Sim Proofs.BytesP Proofs.ClientP Proofs.HandshakeP Proofs.SimInvP Proofs.OwnP.
From Coq Require Import Lia.
Arguments N.add : simpl never. Arguments N.mul : simpl never. Arguments N.sub : simpl never.
Arguments N.ltb : simpl never. Arguments N.leb : simpl never. Arguments N.eqb : simpl never.

(* how many results operation i may still report: 1 while its future exists and is not finished, else 0 *)
Definition cap (s : sys) (i : N) : nat :=
  match alookup i (ops s) with Some o => match o_phase o with Finished => 0 | _ => 1 end | None => 0 end.
Definition is_done (i : N) (o : obs) : bool := match o with ODone j _ => j =? i | _ => false end.
Definition dones (i : N) (l : list obs) : nat := length (filter (is_done i) l).
Lemma dones_app i a b : dones i (a ++ b) = (dones i a + dones i b)%nat.
Proof. unfold dones. rewrite filter_app, app_length. reflexivity. Qed.

(* the phases of the operation table *)
Definition phases (s : sys) : list (N * phase) := map (fun e => (fst e, o_phase (snd e))) (ops s).
Lemma cap_phases s s' i : phases s' = phases s -> cap s' i = cap s i.
Proof.
  unfold phases, cap. intros H.
  assert (L : forall l : list (N * op), option_map o_phase (alookup i l) = alookup i (map (fun e => (fst e, o_phase (snd e))) l)).
  { induction l as [|[k a] l IH]; cbn [map alookup fst snd]; [reflexivity|]. destruct (k =? i); [reflexivity|exact IH]. }
  pose proof (L (ops s')) as H1. pose proof (L (ops s)) as H2. rewrite H in H1. rewrite <- H1 in H2.
  destruct (alookup i (ops s')) as [o'|]; destruct (alookup i (ops s)) as [o|]; cbn in H2; try discriminate; [|reflexivity].
  inversion H2 as [H3]. rewrite H3. reflexivity.
Qed.
Lemma phases_aset_same s j o o' : alookup j (ops s) = Some o -> o_phase o' = o_phase o ->
  phases (set_ops s (aset j o' (ops s))) = phases s.
Proof.
  unfold phases. cbn [ops set_ops]. intros Hl Hp. induction (ops s) as [|[k a] l IH]; cbn [alookup aset map fst snd] in *; [discriminate|].
  destruct (k =? j) eqn:E; cbn [map fst snd].
  - apply N.eqb_eq in E. inversion Hl; subst. rewrite Hp. reflexivity.
  - f_equal. apply IH. exact Hl.
Qed.
Lemma phases_complete s j ph v : phases (complete s j ph v) = phases s.
Proof.
  unfold complete. destruct (alookup j (ops s)) as [o|] eqn:E; [|reflexivity].
  apply (phases_aset_same s j o); [exact E|]. destruct (ph =? 1); reflexivity.
Qed.
Lemma phases_cancel s j ph : phases (cancel s j ph) = phases s.
Proof.
  unfold cancel. destruct (alookup j (ops s)) as [o|] eqn:E; [|reflexivity].
  apply (phases_aset_same s j o); [exact E|]. destruct (ph =? 1); reflexivity.
Qed.
Lemma phases_core s s' : core s' = core s -> phases s' = phases s.
Proof. unfold core, phases. intros H. assert (H1 : ops s' = ops s) by congruence. rewrite H1. reflexivity. Qed.
Lemma phases_ack_waiter s a p : phases (ack_waiter s a p) = phases s.
Proof. unfold ack_waiter. destruct (alookup a (awaiting (c s))) as [[j ph]|]; [|reflexivity]. rewrite phases_complete. reflexivity. Qed.
Lemma phases_write s p : phases (fst (write s p)) = phases s.
Proof. apply phases_core. apply core_write. Qed.
Lemma phases_close s j : phases (close_stream_sender s j) = phases s.
Proof. apply phases_core. apply core_close. Qed.
Lemma phases_dispatch s sid p : phases (dispatch s sid p) = phases s.
Proof. apply phases_core. apply core_dispatch. Qed.
Lemma phases_handle_packet s p : phases (fst (handle_packet s p)) = phases s.
Proof.
  unfold handle_packet. cbv zeta. destruct (rk p); cbn [fst]; rewrite ?phases_ack_waiter, ?phases_write; try reflexivity.
  destruct (r_qos p =? 0); cbn [fst]; rewrite ?phases_write;
    repeat match goal with
    | |- context [if ?b then _ else _] => destruct b
    | |- context [match pub_subid p with _ => _ end] => destruct (pub_subid p)
    end; rewrite ?phases_dispatch; reflexivity.
Qed.
Lemma phases_set_c s x : phases (set_c s x) = phases s. Proof. reflexivity. Qed.
Lemma phases_set_cph s x : phases (set_cph s x) = phases s. Proof. reflexivity. Qed.
Lemma phases_set_tail s x : phases (set_tail s x) = phases s. Proof. reflexivity. Qed.
Lemma phases_exit_run s r : phases (exit_run s r) = phases s. Proof. reflexivity. Qed.
Ltac ph_simpl := repeat (rewrite ?phases_set_c, ?phases_cancel, ?phases_write, ?phases_complete, ?phases_close).
Lemma phases_handle_message s m : phases (fst (handle_message s m)) = phases s.
Proof.
  unfold handle_message. cbv zeta. destruct m as [i p|i ph a p|i a sid p].
  - destruct (negb (size_ok (c s) p)); cbn [fst]; [apply phases_complete|].
    destruct (negb (snd (write s p))); cbn [fst]; ph_simpl; reflexivity.
  - destruct (negb (size_ok (c s) p)); cbn [fst]; [apply phases_complete|].
    destruct (ptype_of p =? 3).
    + destruct (quota (c s) =? 0); cbn [fst]; [apply phases_complete|].
      destruct (negb (snd (write _ p))); cbn [fst]; ph_simpl; reflexivity.
    + destruct (ptype_of p =? 6); destruct (negb (snd (write s p))); cbn [fst]; ph_simpl; reflexivity.
  - destruct (negb (size_ok (c s) p)); cbn [fst]; ph_simpl; reflexivity.
Qed.
Lemma phases_run_turn s : phases (fst (run_turn s)) = phases s.
Proof.
  unfold run_turn. destruct (fpoll (poll_fuel (rd s)) (fr s) (rd s)) as [[o f] r].
  destruct o as [bs| | | |]; try reflexivity.
  - destruct (dec_packet bs) as [p| |]; try reflexivity.
    pose proof (phases_handle_packet (set_io s r f) p) as H. destruct (handle_packet (set_io s r f) p) as [s1 a]. cbn [fst] in *.
    destruct a; exact H.
  - destruct (msgq (set_io s r f)) as [|m q]; [destruct (live_senders _ =? 0); reflexivity|].
    pose proof (phases_handle_message (set_msgq (set_io s r f) q) m) as H.
    destruct (handle_message (set_msgq (set_io s r f) q) m) as [s1 a]. cbn [fst] in *. destruct a; exact H.
Qed.
Lemma phases_conn_turn s : phases (conn_turn s) = phases s.
Proof.
  unfold conn_turn. destruct (fpoll (poll_fuel (rd s)) (fr s) (rd s)) as [[o f] r].
  destruct o as [bs| | | |]; try reflexivity. destruct (dec_packet bs) as [p| |]; try reflexivity. destruct (rk p); reflexivity.
Qed.
Lemma phases_settle_loop fuel : forall s, phases (settle_loop fuel s) = phases s.
Proof.
  induction fuel as [|fuel IH]; intros s; cbn [settle_loop]; [reflexivity|].
  destruct (cph s); [reflexivity|apply phases_conn_turn|].
  pose proof (phases_run_turn s) as H. destruct (run_turn s) as [s1 t]. cbn [fst] in H. destruct t; [exact H|rewrite IH; exact H].
Qed.
Lemma phases_settle s : phases (settle s) = phases s.
Proof. unfold settle. destruct (hold s || negb (ctx_alive s)); [reflexivity|apply phases_settle_loop]. Qed.
Lemma phases_fold {A} (f : sys -> A -> sys) (l : list A) : (forall s a, phases (f s a) = phases s) ->
  forall s, phases (fold_left f l s) = phases s.
Proof. intros H. induction l as [|a l IH]; intros s; cbn [fold_left]; [reflexivity|]. rewrite IH. apply H. Qed.
Lemma phases_reset_session s : phases (reset_session s) = phases s.
Proof.
  unfold reset_session. cbv zeta. rewrite phases_set_c.
  rewrite phases_fold by (intros; apply phases_close). rewrite phases_fold by (intros; apply phases_cancel). reflexivity.
Qed.
Lemma phases_drop_msg s m : phases (drop_msg s m) = phases s.
Proof. destruct m; cbn [drop_msg]; rewrite ?phases_close, ?phases_cancel; reflexivity. Qed.
Lemma phases_drop_ctx s : phases (drop_ctx s) = phases s.
Proof.
  unfold drop_ctx. cbv zeta. unfold phases at 1. cbn [ops]. fold (phases (fold_left drop_msg (msgq (reset_session s)) (reset_session s))).
  rewrite phases_fold by (intros; apply phases_drop_msg). apply phases_reset_session.
Qed.
Lemma phases_retransmit l : forall s, phases (fst (retransmit s l)) = phases s.
Proof.
  induction l as [|[a pkt] l IH]; intros s; cbn [retransmit]; [reflexivity|].
  destruct (snd (write s pkt)); [rewrite IH, phases_set_c|cbn [fst]]; apply phases_write.
Qed.
Lemma phases_start_conn s pkt sei : phases (start_conn s pkt sei) = phases s.
Proof.
  unfold start_conn. cbv zeta. destruct pkt as [b| |]; try reflexivity.
  set (s1 := match sei with Some v => set_c s (with_sei_ts (c s) v (disc_ts (c s))) | None => s end).
  assert (H1 : phases s1 = phases s) by (subst s1; destruct sei; reflexivity).
  destruct (snd (write s1 b)); [rewrite phases_settle|]; rewrite ?phases_set_tail, ?phases_set_cph, phases_write; exact H1.
Qed.
Lemma phases_start_run s : phases (start_run s) = phases s.
Proof.
  unfold start_run. cbv zeta. destruct (disc_ts (c (set_cph s CIdle))) as [t|]; [|rewrite phases_settle; reflexivity].
  set (s1 := if session_expired (c (set_cph s CIdle)) t then reset_session (set_cph s CIdle) else set_cph s CIdle).
  assert (H1 : phases s1 = phases s) by (subst s1; destruct (session_expired _ _); [rewrite phases_reset_session|]; reflexivity).
  set (s2 := set_c s1 (with_sei_ts (c s1) (sei (c s1)) None)).
  pose proof (phases_retransmit (retx (c s2)) s2) as Hr. destruct (retransmit s2 (retx (c s2))) as [s3 ok]. cbn [fst] in Hr.
  destruct ok; [rewrite phases_settle, phases_set_cph|rewrite phases_exit_run]; rewrite Hr; exact H1.
Qed.

(* ---- the handle side ------------------------------------------------------------------------------------------------------ *)
Lemma ops_send s m s' : send s m = Some s' -> ops s' = ops s.
Proof. unfold send. destruct (ctx_alive s); [|discriminate]. intros H. inversion H. reflexivity. Qed.
Lemma ops_drop_recv s j : ops (drop_recv s j) = ops s.
Proof. unfold drop_recv. destruct (alookup j (streams s)); reflexivity. Qed.

Section Leaf.
Variables (s : sys) (i j : N) (o : op).
Hypothesis Hl : alookup j (ops s) = Some o.
Hypothesis Hp : o_phase o <> Finished.
Lemma cap_one : j = i -> cap s i = 1%nat.
Proof. intros <-. unfold cap. rewrite Hl. destruct (o_phase o); try reflexivity. contradiction. Qed.
Lemma leaf_finish X r : ops X = ops s ->
  (dones i (snd (finish X j o r)) + cap (fst (finish X j o r)) i <= cap s i)%nat.
Proof.
  intros Ho. cbn [finish fst snd]. unfold dones, cap. cbn [filter is_done put_op ops set_ops]. rewrite Ho.
  destruct (N.eq_dec j i) as [E|E].
  - pose proof (cap_one E) as H. unfold cap in H. rewrite H. rewrite E, N.eqb_refl, alookup_aset_same. cbn. lia.
  - replace (j =? i) with false by (symmetry; apply N.eqb_neq; exact E). rewrite alookup_aset_other by (intros ->; apply E; reflexivity).
    cbn. lia.
Qed.
Lemma leaf_pending X ph pid : ops X = ops s -> ph <> Finished ->
  (dones i (snd (pending X j o ph pid)) + cap (fst (pending X j o ph pid)) i <= cap s i)%nat.
Proof.
  intros Ho Hph. cbn [pending fst snd]. unfold dones, cap. cbn [filter is_done put_op ops set_ops]. rewrite Ho.
  destruct (N.eq_dec j i) as [E|E].
  - pose proof (cap_one E) as H. unfold cap in H. rewrite H. rewrite E, alookup_aset_same. cbn [o_phase].
    destruct ph; cbn; lia.
  - rewrite alookup_aset_other by (intros ->; apply E; reflexivity). cbn. lia.
Qed.
Lemma leaf_same : (dones i [OPend j] + cap s i <= cap s i)%nat.
Proof. cbn. lia. Qed.
End Leaf.

Lemma first_poll_once s i j o : alookup j (ops s) = Some o -> o_phase o <> Finished ->
  (dones i (snd (first_poll s j o)) + cap (fst (first_poll s j o)) i <= cap s i)%nat.
Proof.
  intros Hl Hp. unfold first_poll. cbv zeta.
  assert (Henq : forall s0 pid m, ops s0 = ops s ->
     (dones i (snd (match send s0 m with Some s1 => pending s1 j o Wait1 pid | None => finish s0 j o RErrExited end)) +
      cap (fst (match send s0 m with Some s1 => pending s1 j o Wait1 pid | None => finish s0 j o RErrExited end)) i <= cap s i)%nat).
  { intros s0 pid m H0. destruct (send s0 m) as [s1|] eqn:Es.
    - apply (leaf_pending s i j o Hl Hp); [rewrite (ops_send _ _ _ Es); exact H0|discriminate].
    - apply (leaf_finish s i j o Hl Hp). exact H0. }
  destruct (o_kind o) as [po|so|uo| |d].
  - destruct (po_qos po =? 0).
    + destruct (enc_publish po 0); [apply Henq; reflexivity|apply (leaf_finish s i j o Hl Hp); reflexivity|apply (leaf_finish s i j o Hl Hp); reflexivity].
    + destruct (alloc_pid (pid_ctr s)) as [pid ctr].
      destruct (enc_publish po pid); [apply Henq; reflexivity|apply (leaf_finish s i j o Hl Hp); reflexivity|apply (leaf_finish s i j o Hl Hp); reflexivity].
  - destruct (alloc_pid (pid_ctr s)) as [pid ctr]. destruct (alloc_subid (sub_ctr s)) as [sid sctr].
    destruct (enc_subscribe so pid sid); [|apply (leaf_finish s i j o Hl Hp); reflexivity|apply (leaf_finish s i j o Hl Hp); reflexivity].
    match goal with |- context [send ?s0 ?m] => destruct (send s0 m) as [s1|] eqn:Es end.
    + apply (leaf_pending s i j o Hl Hp); [rewrite (ops_send _ _ _ Es); reflexivity|discriminate].
    + apply (leaf_finish s i j o Hl Hp). reflexivity.
  - destruct (alloc_pid (pid_ctr s)) as [pid ctr].
    destruct (enc_unsubscribe uo pid); [apply Henq; reflexivity|apply (leaf_finish s i j o Hl Hp); reflexivity|apply (leaf_finish s i j o Hl Hp); reflexivity].
  - apply Henq; reflexivity.
  - destruct (enc_disconnect d); [apply Henq; reflexivity|apply (leaf_finish s i j o Hl Hp); reflexivity|apply (leaf_finish s i j o Hl Hp); reflexivity].
Qed.
Lemma poll_wait1_once s i j o : alookup j (ops s) = Some o -> o_phase o <> Finished ->
  (dones i (snd (poll_wait1 s j o)) + cap (fst (poll_wait1 s j o)) i <= cap s i)%nat.
Proof.
  intros Hl Hp. unfold poll_wait1.
  assert (F : forall X r, ops X = ops s -> (dones i (snd (finish X j o r)) + cap (fst (finish X j o r)) i <= cap s i)%nat)
    by (intros; apply (leaf_finish s i j o Hl Hp); assumption).
  destruct (o_ch1 o) as [|v|]; [apply leaf_same| |].
  - destruct (o_kind o) as [po|so|uo| |d]; destruct v as [|p| |]; try (apply F; try apply ops_drop_recv; reflexivity);
      try (destruct (rk p); apply F; reflexivity).
    destruct (po_qos po =? 1); destruct (rk p); try (apply F; reflexivity);
      try (destruct (128 <=? r_reason p); apply F; reflexivity).
    destruct (128 <=? r_reason p); [apply F; reflexivity|].
    match goal with |- context [send ?s0 ?m] => destruct (send s0 m) as [s1|] eqn:Es end.
    + apply (leaf_pending s i j o Hl Hp); [exact (ops_send _ _ _ Es)|discriminate].
    + apply F. reflexivity.
  - destruct (o_kind o); apply F; try apply ops_drop_recv; reflexivity.
Qed.
Lemma poll_wait2_once s i j o : alookup j (ops s) = Some o -> o_phase o <> Finished ->
  (dones i (snd (poll_wait2 s j o)) + cap (fst (poll_wait2 s j o)) i <= cap s i)%nat.
Proof.
  intros Hl Hp. unfold poll_wait2.
  assert (F : forall X r, ops X = ops s -> (dones i (snd (finish X j o r)) + cap (fst (finish X j o r)) i <= cap s i)%nat)
    by (intros; apply (leaf_finish s i j o Hl Hp); assumption).
  destruct (o_ch2 o) as [|v|]; [apply leaf_same| |apply F; reflexivity].
  destruct v as [|p| |]; try (apply F; reflexivity). destruct (rk p); apply F; reflexivity.
Qed.
Lemma poll_op_once s i j : (dones i (snd (poll_op s j)) + cap (fst (poll_op s j)) i <= cap s i)%nat.
Proof.
  unfold poll_op. destruct (alookup j (ops s)) as [o|] eqn:El; [|cbn; lia].
  destruct (o_phase o) eqn:Ep.
  - apply first_poll_once; [exact El|rewrite Ep; discriminate].
  - apply poll_wait1_once; [exact El|rewrite Ep; discriminate].
  - apply poll_wait2_once; [exact El|rewrite Ep; discriminate].
  - cbn. lia.
Qed.

(* ---- the C / R lines of an event are never operation results ------------------------------------------------------------- *)
Definition quiet (l : list obs) : Prop := forall i, dones i l = 0%nat.
Lemma quiet_nil : quiet []. Proof. intros i. reflexivity. Qed.
Lemma quiet_app a b : quiet a -> quiet b -> quiet (a ++ b).
Proof. intros Ha Hb i. rewrite dones_app, Ha, Hb. reflexivity. Qed.
Lemma quiet_run r : quiet [ORun r]. Proof. intros i. reflexivity. Qed.
Lemma quiet_conn r : quiet [OConn r]. Proof. intros i. reflexivity. Qed.
Definition TQ (s : sys) : Prop := quiet (tail_ev s).
Lemma TQ_io s s' : io s' = io s -> TQ s -> TQ s'.
Proof. unfold io, TQ. intros H. injection H as _ _ H3. rewrite H3. auto. Qed.
Lemma TQ_exit s r : TQ s -> TQ (exit_run s r).
Proof. intros H. unfold TQ, exit_run. cbn [tail_ev set_tail]. apply quiet_app; [exact H|apply quiet_run]. Qed.
Lemma TQ_run_turn s : TQ s -> TQ (fst (run_turn s)).
Proof.
  intros HI. unfold run_turn. destruct (fpoll (poll_fuel (rd s)) (fr s) (rd s)) as [[o f] r].
  assert (HI1 : TQ (set_io s r f)) by exact HI.
  destruct o as [bs| | | |]; cbn [fst]; try (apply TQ_exit; exact HI1).
  - destruct (dec_packet bs) as [p| |]; try (cbn [fst]; apply TQ_exit; exact HI1).
    assert (HI2 : TQ (fst (handle_packet (set_io s r f) p))) by (eapply TQ_io; [apply io_handle_packet|exact HI1]).
    destruct (handle_packet (set_io s r f) p) as [s1 a]. cbn [fst] in *. destruct a; cbn [fst]; [exact HI2|apply TQ_exit; exact HI2].
  - destruct (msgq (set_io s r f)) as [|m q] eqn:Eq.
    + destruct (live_senders (set_io s r f) =? 0); cbn [fst]; [apply TQ_exit|]; exact HI1.
    + assert (HI2 : TQ (fst (handle_message (set_msgq (set_io s r f) q) m))) by (eapply TQ_io; [apply io_handle_message|exact HI1]).
      destruct (handle_message (set_msgq (set_io s r f) q) m) as [s1 a]. cbn [fst] in *.
      destruct a; cbn [fst]; [exact HI2|apply TQ_exit; exact HI2].
Qed.
Lemma TQ_fin_conn s r : TQ s -> TQ (set_tail (set_cph s CIdle) (tail_ev s ++ [OConn r])).
Proof. intros H. unfold TQ. cbn [tail_ev set_tail]. apply quiet_app; [exact H|apply quiet_conn]. Qed.
Lemma TQ_conn_turn s : TQ s -> TQ (conn_turn s).
Proof.
  intros HI. unfold conn_turn. destruct (fpoll (poll_fuel (rd s)) (fr s) (rd s)) as [[o f] r].
  assert (HI1 : TQ (set_io s r f)) by exact HI.
  destruct o as [bs| | | |]; try (apply (TQ_fin_conn (set_io s r f)); exact HI1); [|exact HI1].
  destruct (dec_packet bs) as [p| |]; try (apply (TQ_fin_conn (set_io s r f)); exact HI1).
  destruct (rk p); try (apply (TQ_fin_conn (set_io s r f)); exact HI1).
Qed.
Lemma TQ_settle_loop fuel : forall s, TQ s -> TQ (settle_loop fuel s).
Proof.
  induction fuel as [|fuel IH]; intros s HI; cbn [settle_loop]; [exact HI|].
  destruct (cph s); [exact HI|apply TQ_conn_turn; exact HI|].
  pose proof (TQ_run_turn s HI) as H. destruct (run_turn s) as [s1 t]. cbn [fst] in H. destruct t; [exact H|apply IH; exact H].
Qed.
Lemma TQ_settle s : TQ s -> TQ (settle s).
Proof. intros HI. unfold settle. destruct (hold s || negb (ctx_alive s)); [exact HI|apply TQ_settle_loop; exact HI]. Qed.
Lemma TQ_start_conn s pkt sei : TQ s -> TQ (start_conn s pkt sei).
Proof.
  intros HI. unfold start_conn. cbv zeta. destruct pkt as [b| |]; try (apply TQ_fin_conn; exact HI).
  set (s1 := match sei with Some v => set_c s (with_sei_ts (c s) v (disc_ts (c s))) | None => s end).
  assert (HI1 : TQ s1) by (subst s1; destruct sei; exact HI).
  assert (HI2 : TQ (fst (write s1 b))) by (eapply TQ_io; [apply io_write|exact HI1]).
  destruct (snd (write s1 b)); [apply TQ_settle; exact HI2|apply TQ_fin_conn; exact HI2].
Qed.
Lemma TQ_start_run s : TQ s -> TQ (start_run s).
Proof.
  intros HI. unfold start_run. cbv zeta.
  assert (HI0 : TQ (set_cph s CIdle)) by exact HI.
  destruct (disc_ts (c (set_cph s CIdle))) as [t|]; [|apply TQ_settle; exact HI0].
  set (s1 := if session_expired (c (set_cph s CIdle)) t then reset_session (set_cph s CIdle) else set_cph s CIdle).
  assert (HI1 : TQ s1) by (subst s1; destruct (session_expired _ _); [eapply TQ_io; [apply io_reset_session|]|]; exact HI0).
  set (s2 := set_c s1 (with_sei_ts (c s1) (sei (c s1)) None)).
  pose proof (io_retransmit (retx (c s2)) s2) as Hr. destruct (retransmit s2 (retx (c s2))) as [s3 ok]. cbn [fst] in Hr.
  assert (HI3 : TQ s3) by (eapply TQ_io; [exact Hr|exact HI1]).
  destruct ok; [apply TQ_settle; exact HI3|apply TQ_exit; exact HI3].
Qed.

(* ---- every event --------------------------------------------------------------------------------------------------------- *)
Definition no_restart (i : N) (e : event) : Prop :=
  match e with EStart j _ _ => j <> i | ESpin _ _ _ _ => False | _ => True end.

Lemma dones_end_ev s pre i : TQ s -> dones i (end_ev s pre) = dones i pre.
Proof.
  intros H. unfold end_ev. rewrite !dones_app, (H i). destruct (wire_ev s); cbn; lia.
Qed.

Theorem step_once s e i : Uniq s -> no_restart i e ->
  (dones i (snd (step s e)) + cap (fst (step s e)) i <= cap s i)%nat.
Proof.
  intros Hu Hn. unfold step. cbv zeta. set (s0 := begin_ev s).
  assert (Hc0 : cap s0 i = cap s i) by reflexivity. assert (Hq0 : TQ s0) by (intros k; reflexivity).
  assert (Hfin : forall s1 pre, TQ s1 -> (dones i pre + cap s1 i <= cap s i)%nat ->
     (dones i (snd (s1, end_ev s1 pre)) + cap (fst (s1, end_ev s1 pre)) i <= cap s i)%nat).
  { intros s1 pre H1 H2. cbn [fst snd]. rewrite dones_end_ev by exact H1. exact H2. }
  assert (Hsame : forall s1, TQ s1 -> phases s1 = phases s0 ->
     (dones i (snd (s1, end_ev s1 [])) + cap (fst (s1, end_ev s1 [])) i <= cap s i)%nat).
  { intros s1 H1 H2. apply Hfin; [exact H1|]. rewrite (cap_phases _ _ i H2), Hc0. cbn. lia. }
  assert (Hid : (dones i (snd (s0, end_ev s0 [])) + cap (fst (s0, end_ev s0 [])) i <= cap s i)%nat)
    by (apply Hsame; [exact Hq0|reflexivity]).
  destruct e; cbn [no_restart] in Hn.
  - destruct (negb (ctx_alive s0)); [exact Hid|]. apply Hsame; [apply TQ_start_conn; exact Hq0|apply phases_start_conn].
  - destruct (negb (ctx_alive s0)); [exact Hid|]. apply Hsame; [apply TQ_start_conn; exact Hq0|apply phases_start_conn].
  - destruct (negb (ctx_alive s0)); [exact Hid|]. apply Hsame; [apply TQ_start_run; exact Hq0|apply phases_start_run].
  - destruct b; (apply Hsame; [apply TQ_settle; exact Hq0|rewrite phases_settle; reflexivity]).
  - apply Hsame; [apply TQ_settle; exact Hq0|rewrite phases_settle; reflexivity].
  - apply Hsame; [apply TQ_settle; exact Hq0|rewrite phases_settle; reflexivity].
  - apply Hsame; [exact Hq0|reflexivity].
  - exact Hid.
  - destruct (memN h (handles s0)).
    + apply Hfin; [exact Hq0|].
      match goal with |- (_ + cap ?X i <= _)%nat => assert (E : cap X i = cap s0 i) end.
      { unfold cap. cbn [put_op ops set_ops]. rewrite alookup_aset_other by (intros E; apply Hn; symmetry; exact E). reflexivity. }
      rewrite E, Hc0. cbn. lia.
    + apply Hfin; [exact Hq0|]. rewrite Hc0. cbn. lia.
  - pose proof (poll_op_once s0 i i0) as Hp. pose proof (io_poll_op s0 i0) as Hio.
    destruct (poll_op s0 i0) as [s1 o]. cbn [fst snd] in *. apply Hfin; [apply TQ_settle; eapply TQ_io; [exact Hio|exact Hq0]|].
    rewrite (cap_phases _ _ i (phases_settle s1)). rewrite Hc0 in Hp. exact Hp.
  - apply Hfin; [apply TQ_settle; eapply TQ_io; [apply io_drop_op|exact Hq0]|].
    rewrite (cap_phases _ _ i (phases_settle _)). cbn [dones filter length]. unfold drop_op.
    destruct (alookup i0 (ops s0)) as [o|] eqn:El; [|rewrite Hc0; lia].
    assert (Hle : forall X, ops X = ops s0 -> (cap (set_ops X (aremove i0 (ops X))) i <= cap s0 i)%nat).
    { intros X HX. unfold cap. cbn [ops set_ops]. rewrite HX. destruct (N.eq_dec i i0) as [->|Hne].
      - destruct (aremove_keys i0 (ops s0) Hu) as (_ & K2 & _). rewrite K2. lia.
      - rewrite alookup_aremove_other by exact Hne. lia. }
    rewrite <- Hc0. destruct (o_kind o); try (apply Hle; reflexivity).
    destruct (match alookup i0 (streams s0) with Some st => negb (st_taken st) | None => false end); apply Hle; [apply ops_drop_recv|reflexivity].
  - destruct (alookup i0 (streams s0)) as [st|]; [|apply Hfin; [exact Hq0|rewrite Hc0; cbn; lia]].
    destruct (op_phase_of s0 i0) as [[| | |]|]; try (apply Hfin; [exact Hq0|rewrite Hc0; cbn; lia]).
    destruct (st_recv st && negb (st_taken st)); [apply Hsame; [exact Hq0|reflexivity]|apply Hfin; [exact Hq0|rewrite Hc0; cbn; lia]].
  - pose proof (io_poll_stream s0 j) as Hio.
    assert (Hph : phases (fst (poll_stream s0 j)) = phases s0).
    { unfold poll_stream. destruct (alookup j (streams s0)) as [st|]; [|reflexivity].
      destruct (negb (st_taken st)); [reflexivity|]. destruct (st_buf st); [destruct (st_sender st)|]; reflexivity. }
    assert (Hob : dones i (snd (poll_stream s0 j)) = 0%nat).
    { unfold poll_stream. destruct (alookup j (streams s0)) as [st|]; [|reflexivity].
      destruct (negb (st_taken st)); [reflexivity|]. destruct (st_buf st); [destruct (st_sender st)|]; reflexivity. }
    destruct (poll_stream s0 j) as [s1 o]. cbn [fst snd] in *. apply Hfin; [apply TQ_settle; eapply TQ_io; [exact Hio|exact Hq0]|].
    rewrite (cap_phases _ _ i (phases_settle s1)), (cap_phases _ _ i Hph), Hob, Hc0. lia.
  - assert (Hd : phases (set_streams (drop_recv s0 j) (aremove j (streams (drop_recv s0 j)))) = phases s0).
    { unfold phases. cbn [ops set_streams]. rewrite ops_drop_recv. reflexivity. }
    assert (Hq : TQ (set_streams (drop_recv s0 j) (aremove j (streams (drop_recv s0 j))))).
    { pose proof (io_drop_recv s0 j) as H. unfold io in H. injection H as _ _ H3. unfold TQ. cbn [tail_ev set_streams]. rewrite H3. exact Hq0. }
    destruct (op_phase_of s0 j) as [[| | |]|]; (apply Hsame; [apply TQ_settle; assumption|rewrite phases_settle; assumption || reflexivity]).
  - destruct (memN h (handles s0) && negb (memN h2 (handles s0))); [apply Hsame; [exact Hq0|reflexivity]|exact Hid].
  - apply Hsame; [apply TQ_settle; exact Hq0|rewrite phases_settle; reflexivity].
  - apply Hsame; [|apply phases_drop_ctx]. destruct (drop_ctx_rd s0) as (_ & _ & H3). unfold TQ. rewrite H3. exact Hq0.
  - apply Hsame; [exact Hq0|reflexivity].
  - apply Hsame; [apply TQ_settle; exact Hq0|rewrite phases_settle; reflexivity].
  - destruct (ctx_alive s0); [apply Hsame; [exact Hq0|reflexivity]|exact Hid].
  - apply Hsame; [exact Hq0|reflexivity].
  - contradiction.
Qed.

(* all the observations of a run *)
Fixpoint all_obs (s : sys) (evs : list event) : list obs :=
  match evs with [] => [] | e :: r => snd (step s e) ++ all_obs (fst (step s e)) r end.

(* from any state satisfying the reachable-state invariant, over any events that do not start label i anew, the
   future of operation i reports a result at most once - and not at all when it has already finished or was dropped *)
Theorem at_most_once evs : forall s i, OI s -> Forall (no_restart i) evs ->
  (dones i (all_obs s evs) + cap (final_state s evs) i <= cap s i)%nat.
Proof.
  induction evs as [|e evs IH]; intros s i HI Hf; cbn [all_obs final_state]; [cbn; lia|].
  inversion Hf as [|? ? He Hr]; subst. rewrite dones_app.
  pose proof (step_once s e i (proj2 HI) He) as H1. pose proof (IH (fst (step s e)) i (OI_step s e HI) Hr) as H2. lia.
Qed.
Corollary at_most_once_reachable pre evs i : Forall (no_restart i) evs ->
  (dones i (all_obs (final_state sys_init pre) evs) <= 1)%nat.
Proof.
  intros Hf. pose proof (at_most_once evs (final_state sys_init pre) i (OI_reachable pre sys_init OI_init) Hf) as H.
  assert (cap (final_state sys_init pre) i <= 1)%nat by (unfold cap; destruct (alookup i _) as [o|]; [destruct (o_phase o)|]; lia). lia.
Qed.

(* ---- the phases of an operation future only move forward ----------------------------------------------------------------- *)
Definition rank (p : phase) : nat := match p with NotStarted => 0 | Wait1 => 1 | Wait2 => 2 | Finished => 3 end.
Definition prank (s : sys) (i : N) : nat := match alookup i (ops s) with Some o => rank (o_phase o) | None => 4 end.
Lemma prank_phases s s' i : phases s' = phases s -> prank s' i = prank s i.
Proof.
  unfold phases, prank. intros H.
  assert (L : forall l : list (N * op), option_map o_phase (alookup i l) = alookup i (map (fun e => (fst e, o_phase (snd e))) l)).
  { induction l as [|[k a] l IH]; cbn [map alookup fst snd]; [reflexivity|]. destruct (k =? i); [reflexivity|exact IH]. }
  pose proof (L (ops s')) as H1. pose proof (L (ops s)) as H2. rewrite H in H1. rewrite <- H1 in H2.
  destruct (alookup i (ops s')) as [o'|]; destruct (alookup i (ops s)) as [o|]; cbn in H2; try discriminate; [|reflexivity].
  inversion H2 as [H3]. rewrite H3. reflexivity.
Qed.

Section LeafRank.
Variables (s : sys) (i j : N) (o : op).
Hypothesis Hl : alookup j (ops s) = Some o.
Lemma rank_finish X r : ops X = ops s -> (prank s i <= prank (fst (finish X j o r)) i)%nat.
Proof.
  intros Ho. cbn [finish fst]. unfold prank. cbn [put_op ops set_ops]. rewrite Ho. destruct (N.eq_dec j i) as [E|E].
  - rewrite <- E, Hl, alookup_aset_same. cbn [o_phase rank]. destruct (o_phase o); cbn; lia.
  - rewrite alookup_aset_other by (intros E'; apply E; symmetry; exact E'). lia.
Qed.
Lemma rank_pending X ph pid : ops X = ops s -> (rank (o_phase o) <= rank ph)%nat ->
  (prank s i <= prank (fst (pending X j o ph pid)) i)%nat.
Proof.
  intros Ho Hr. cbn [pending fst]. unfold prank. cbn [put_op ops set_ops]. rewrite Ho. destruct (N.eq_dec j i) as [E|E].
  - rewrite <- E, Hl, alookup_aset_same. cbn [o_phase]. exact Hr.
  - rewrite alookup_aset_other by (intros E'; apply E; symmetry; exact E'). lia.
Qed.
End LeafRank.

Lemma first_poll_rank s i j o : alookup j (ops s) = Some o -> o_phase o = NotStarted ->
  (prank s i <= prank (fst (first_poll s j o)) i)%nat.
Proof.
  intros Hl Hp. unfold first_poll. cbv zeta.
  assert (F : forall X r, ops X = ops s -> (prank s i <= prank (fst (finish X j o r)) i)%nat) by (intros; apply (rank_finish s i j o Hl); assumption).
  assert (P : forall X pid, ops X = ops s -> (prank s i <= prank (fst (pending X j o Wait1 pid)) i)%nat)
    by (intros; apply (rank_pending s i j o Hl); [assumption|rewrite Hp; cbn; lia]).
  assert (Henq : forall s0 pid m, ops s0 = ops s ->
     (prank s i <= prank (fst (match send s0 m with Some s1 => pending s1 j o Wait1 pid | None => finish s0 j o RErrExited end)) i)%nat).
  { intros s0 pid m H0. destruct (send s0 m) as [s1|] eqn:Es; [apply P; rewrite (ops_send _ _ _ Es); exact H0|apply F; exact H0]. }
  destruct (o_kind o) as [po|so|uo| |d].
  - destruct (po_qos po =? 0).
    + destruct (enc_publish po 0); [apply Henq|apply F|apply F]; reflexivity.
    + destruct (alloc_pid (pid_ctr s)) as [pid ctr]. destruct (enc_publish po pid); [apply Henq|apply F|apply F]; reflexivity.
  - destruct (alloc_pid (pid_ctr s)) as [pid ctr]. destruct (alloc_subid (sub_ctr s)) as [sid sctr].
    destruct (enc_subscribe so pid sid); [|apply F; reflexivity|apply F; reflexivity].
    match goal with |- context [send ?s0 ?m] => destruct (send s0 m) as [s1|] eqn:Es end; [apply P; rewrite (ops_send _ _ _ Es); reflexivity|apply F; reflexivity].
  - destruct (alloc_pid (pid_ctr s)) as [pid ctr]. destruct (enc_unsubscribe uo pid); [apply Henq|apply F|apply F]; reflexivity.
  - apply Henq; reflexivity.
  - destruct (enc_disconnect d); [apply Henq|apply F|apply F]; reflexivity.
Qed.
Lemma poll_wait1_rank s i j o : alookup j (ops s) = Some o -> o_phase o = Wait1 ->
  (prank s i <= prank (fst (poll_wait1 s j o)) i)%nat.
Proof.
  intros Hl Hp. unfold poll_wait1.
  assert (F : forall X r, ops X = ops s -> (prank s i <= prank (fst (finish X j o r)) i)%nat) by (intros; apply (rank_finish s i j o Hl); assumption).
  destruct (o_ch1 o) as [|v|]; [cbn [fst]; lia| |].
  - destruct (o_kind o) as [po|so|uo| |d]; destruct v as [|p| |]; try (apply F; try apply ops_drop_recv; reflexivity);
      try (destruct (rk p); apply F; reflexivity).
    destruct (po_qos po =? 1); destruct (rk p); try (apply F; reflexivity);
      try (destruct (128 <=? r_reason p); apply F; reflexivity).
    destruct (128 <=? r_reason p); [apply F; reflexivity|].
    match goal with |- context [send ?s0 ?m] => destruct (send s0 m) as [s1|] eqn:Es end.
    + apply (rank_pending s i j o Hl); [exact (ops_send _ _ _ Es)|rewrite Hp; cbn; lia].
    + apply F. reflexivity.
  - destruct (o_kind o); apply F; try apply ops_drop_recv; reflexivity.
Qed.
Lemma poll_wait2_rank s i j o : alookup j (ops s) = Some o ->
  (prank s i <= prank (fst (poll_wait2 s j o)) i)%nat.
Proof.
  intros Hl. unfold poll_wait2.
  assert (F : forall X r, ops X = ops s -> (prank s i <= prank (fst (finish X j o r)) i)%nat) by (intros; apply (rank_finish s i j o Hl); assumption).
  destruct (o_ch2 o) as [|v|]; [cbn [fst]; lia| |apply F; reflexivity].
  destruct v as [|p| |]; try (apply F; reflexivity). destruct (rk p); apply F; reflexivity.
Qed.
Lemma poll_op_rank s i j : (prank s i <= prank (fst (poll_op s j)) i)%nat.
Proof.
  unfold poll_op. destruct (alookup j (ops s)) as [o|] eqn:El; [|cbn [fst]; lia].
  destruct (o_phase o) eqn:Ep; [apply first_poll_rank|apply poll_wait1_rank|apply poll_wait2_rank|cbn [fst]; lia]; assumption.
Qed.

Theorem step_rank s e i : Uniq s -> no_restart i e -> (prank s i <= prank (fst (step s e)) i)%nat.
Proof.
  intros Hu Hn. unfold step. cbv zeta. set (s0 := begin_ev s).
  assert (Hc0 : prank s0 i = prank s i) by reflexivity.
  assert (Hsame : forall s1, phases s1 = phases s0 -> (prank s i <= prank s1 i)%nat).
  { intros s1 H. rewrite (prank_phases _ _ i H), Hc0. lia. }
  destruct e; cbn [no_restart] in Hn; cbn [fst].
  - destruct (negb (ctx_alive s0)); cbn [fst]; apply Hsame; [reflexivity|apply phases_start_conn].
  - destruct (negb (ctx_alive s0)); cbn [fst]; apply Hsame; [reflexivity|apply phases_start_conn].
  - destruct (negb (ctx_alive s0)); cbn [fst]; apply Hsame; [reflexivity|apply phases_start_run].
  - destruct b; cbn [fst]; apply Hsame; rewrite phases_settle; reflexivity.
  - apply Hsame. rewrite phases_settle. reflexivity.
  - apply Hsame. rewrite phases_settle. reflexivity.
  - apply Hsame. reflexivity.
  - apply Hsame. reflexivity.
  - destruct (memN h (handles s0)); cbn [fst]; [|apply Hsame; reflexivity].
    match goal with |- (_ <= prank ?X i)%nat => assert (E : prank X i = prank s0 i) end.
    { unfold prank. cbn [put_op ops set_ops]. rewrite alookup_aset_other by (intros E; apply Hn; symmetry; exact E). reflexivity. }
    rewrite E, Hc0. lia.
  - pose proof (poll_op_rank s0 i i0) as Hp. destruct (poll_op s0 i0) as [s1 o]. cbn [fst] in *.
    rewrite (prank_phases _ _ i (phases_settle s1)). lia.
  - rewrite (prank_phases _ _ i (phases_settle _)). unfold drop_op.
    destruct (alookup i0 (ops s0)) as [o|] eqn:El; [|lia].
    assert (Hle : forall X, ops X = ops s0 -> (prank s0 i <= prank (set_ops X (aremove i0 (ops X))) i)%nat).
    { intros X HX. unfold prank. cbn [ops set_ops]. rewrite HX. destruct (N.eq_dec i i0) as [->|Hne].
      - destruct (aremove_keys i0 (ops s0) Hu) as (_ & K2 & _). rewrite K2. destruct (alookup i0 (ops s0)) as [o0|]; [destruct (o_phase o0); cbn; lia|lia].
      - rewrite alookup_aremove_other by exact Hne. lia. }
    rewrite <- Hc0. destruct (o_kind o); try (apply Hle; reflexivity).
    destruct (match alookup i0 (streams s0) with Some st => negb (st_taken st) | None => false end); apply Hle; [apply ops_drop_recv|reflexivity].
  - destruct (alookup i0 (streams s0)) as [st|]; [|apply Hsame; reflexivity].
    destruct (op_phase_of s0 i0) as [[| | |]|]; try (apply Hsame; reflexivity).
    destruct (st_recv st && negb (st_taken st)); cbn [fst]; apply Hsame; reflexivity.
  - assert (Hph : phases (fst (poll_stream s0 j)) = phases s0).
    { unfold poll_stream. destruct (alookup j (streams s0)) as [st|]; [|reflexivity].
      destruct (negb (st_taken st)); [reflexivity|]. destruct (st_buf st); [destruct (st_sender st)|]; reflexivity. }
    destruct (poll_stream s0 j) as [s1 o]. cbn [fst] in *. apply Hsame. rewrite phases_settle. exact Hph.
  - assert (Hd : phases (set_streams (drop_recv s0 j) (aremove j (streams (drop_recv s0 j)))) = phases s0).
    { unfold phases. cbn [ops set_streams]. rewrite ops_drop_recv. reflexivity. }
    destruct (op_phase_of s0 j) as [[| | |]|]; cbn [fst]; apply Hsame; rewrite phases_settle; assumption || reflexivity.
  - destruct (memN h (handles s0) && negb (memN h2 (handles s0))); cbn [fst]; apply Hsame; reflexivity.
  - apply Hsame. rewrite phases_settle. reflexivity.
  - apply Hsame. apply phases_drop_ctx.
  - apply Hsame. reflexivity.
  - apply Hsame. rewrite phases_settle. reflexivity.
  - destruct (ctx_alive s0); cbn [fst]; apply Hsame; reflexivity.
  - apply Hsame. reflexivity.
  - contradiction.
Qed.
Theorem phases_forward evs : forall s i, OI s -> Forall (no_restart i) evs -> (prank s i <= prank (final_state s evs) i)%nat.
Proof.
  induction evs as [|e evs IH]; intros s i HI Hf; cbn [final_state]; [lia|].
  inversion Hf as [|? ? He Hr]; subst.
  pose proof (step_rank s e i (proj2 HI) He) as H1. pose proof (IH (fst (step s e)) i (OI_step s e HI) Hr) as H2. lia.
Qed.
