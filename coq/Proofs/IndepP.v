(* What a CONNACK, a request and an outbound acknowledgement leave alone (rounds 6 and 7 of the seeded defects). *)
From Poster Require Import Model.Client Proofs.BytesP Proofs.ClientP Proofs.QuotaP Proofs.HandshakeP.
Arguments N.add : simpl never. Arguments N.mul : simpl never. Arguments N.sub : simpl never.
Arguments N.ltb : simpl never. Arguments N.leb : simpl never. Arguments N.eqb : simpl never.

(* a CONNACK - accepted or refused, with or without Session Present - sets the three limits and possibly the expiry
   interval; the session (awaited acknowledgements, subscriptions, retransmit queue, identifiers awaiting PUBREL, the
   recorded disconnection) is what it was *)
Theorem connack_keeps_session x p :
  awaiting (handle_connack x p) = awaiting x /\ subs (handle_connack x p) = subs x /\
  retx (handle_connack x p) = retx x /\ await_rel (handle_connack x p) = await_rel x /\
  disc_ts (handle_connack x p) = disc_ts x /\
  sei (handle_connack x p) = match pnum 17 (r_props p) with Some v => v | None => sei x end.
Proof. repeat split. Qed.

(* requests of the application never touch the identifiers awaiting PUBREL *)
Lemma complete_rel s i ph v : await_rel (c (complete s i ph v)) = await_rel (c s).
Proof. rewrite complete_c. reflexivity. Qed.
Theorem message_keeps_await_rel s m : await_rel (c (fst (handle_message s m))) = await_rel (c s).
Proof.
  unfold handle_message. cbv zeta. destruct m as [i p|i ph a p|i a sid p].
  - destruct (negb (size_ok (c s) p)); cbn [fst]; [rewrite complete_c; reflexivity|].
    destruct (negb (snd (write s p))); cbn [fst]; rewrite ?cancel_c, ?complete_c, ?write_c; reflexivity.
  - destruct (negb (size_ok (c s) p)); cbn [fst]; [rewrite complete_c; reflexivity|].
    destruct (ptype_of p =? 3).
    + destruct (quota (c s) =? 0); cbn [fst]; [rewrite complete_c; reflexivity|].
      match goal with |- context [write ?s0 p] => destruct (negb (snd (write s0 p))); cbn [fst];
        rewrite ?cancel_c; cbn [c set_c await_rel with_awaiting with_retx]; rewrite ?write_c; reflexivity end.
    + destruct (ptype_of p =? 6); destruct (negb (snd (write s p))); cbn [fst];
        rewrite ?cancel_c; cbn [c set_c await_rel with_awaiting with_retx]; rewrite ?write_c; reflexivity.
  - destruct (negb (size_ok (c s) p)); cbn [fst]; [rewrite close_c, complete_c; reflexivity|].
    rewrite write_c. reflexivity.
Qed.

(* acknowledgements of the client's OWN publishes, subscribes and pings never touch them either: the two directions
   number their exchanges independently *)
Lemma ack_waiter_rel s a p : await_rel (c (ack_waiter s a p)) = await_rel (c s).
Proof.
  unfold ack_waiter. destruct (alookup a (awaiting (c s))) as [[i ph]|]; [|reflexivity].
  rewrite complete_c. reflexivity.
Qed.
Lemma bump_quota_rel x : await_rel (bump_quota x) = await_rel x.
Proof. unfold bump_quota. destruct (quota x =? rmax x); reflexivity. Qed.
Theorem outbound_acks_keep_await_rel s p :
  match rk p with KPublish | KPubrel => False | _ => True end ->
  await_rel (c (fst (handle_packet s p))) = await_rel (c s).
Proof.
  unfold handle_packet. cbv zeta. destruct (rk p); intros H; try contradiction; cbn [fst]; rewrite ?ack_waiter_rel;
    cbn [c set_c await_rel with_retx]; try (destruct (128 <=? r_reason p)); rewrite ?bump_quota_rel; reflexivity.
Qed.

(* a PUBREC that accepts the message (reason < 0x80, 0x10 "no matching subscribers" included) keeps the slot taken *)
Lemma ack_waiter_quota s a p : quota (c (ack_waiter s a p)) = quota (c s).
Proof.
  unfold ack_waiter. destruct (alookup a (awaiting (c s))) as [[i ph]|]; [|reflexivity].
  rewrite complete_c. reflexivity.
Qed.
Theorem pubrec_success_keeps_slot s p : rk p = KPubrec -> r_reason p < 128 ->
  quota (c (fst (handle_packet s p))) = quota (c s) /\ rmax (c (fst (handle_packet s p))) = rmax (c s).
Proof.
  intros Hk Hr. unfold handle_packet. cbv zeta. rewrite Hk. cbn [fst].
  replace (128 <=? r_reason p) with false by (symmetry; apply N.leb_gt; exact Hr).
  unfold ack_waiter. cbn [c set_c awaiting with_retx].
  destruct (alookup (aid 5 (r_pid p)) (awaiting (c s))) as [[i ph]|]; rewrite ?complete_c; split; reflexivity.
Qed.
