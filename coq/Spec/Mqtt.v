(* MQTT 5 wire format of the packets a SERVER sends, written from the OASIS standard (sections
   2.2.2, 3.2, 3.3-3.7, 3.9, 3.11, 3.13-3.15), independent of the decoders in Model/Rx.v.
   `spec_*` are ENCODERS: they produce every well-formed packet - any legal property list in
   any order, user properties repeated, both the shortened and the full forms. *)
From Poster Require Export Model.Props.

(* 2.2.2.2 property table: identifier -> data type *)
Definition spec_ptype (id : N) : option ptype :=
  match id with
  | 1 => Some TBool     (* Payload Format Indicator: byte 0/1 *)
  | 2 => Some TU32      (* Message Expiry Interval *)
  | 3 => Some TStr      (* Content Type *)
  | 8 => Some TStr      (* Response Topic *)
  | 9 => Some TBin      (* Correlation Data *)
  | 11 => Some TVar     (* Subscription Identifier *)
  | 17 => Some TU32     (* Session Expiry Interval *)
  | 18 => Some TStr     (* Assigned Client Identifier *)
  | 19 => Some TU16     (* Server Keep Alive *)
  | 21 => Some TStr     (* Authentication Method *)
  | 22 => Some TBin     (* Authentication Data *)
  | 23 => Some TBool    (* Request Problem Information *)
  | 24 => Some TU32     (* Will Delay Interval *)
  | 25 => Some TBool    (* Request Response Information *)
  | 26 => Some TStr     (* Response Information *)
  | 28 => Some TStr     (* Server Reference *)
  | 31 => Some TStr     (* Reason String *)
  | 33 => Some TNzU16   (* Receive Maximum: non-zero *)
  | 34 => Some TU16     (* Topic Alias Maximum *)
  | 35 => Some TNzU16   (* Topic Alias: non-zero *)
  | 36 => Some TQos     (* Maximum QoS: 0 or 1 (2 is the default when absent) *)
  | 37 => Some TBool    (* Retain Available *)
  | 38 => Some TPair    (* User Property *)
  | 39 => Some TNzU32   (* Maximum Packet Size: non-zero *)
  | 40 => Some TBool    (* Wildcard Subscription Available *)
  | 41 => Some TBool    (* Subscription Identifier Available *)
  | 42 => Some TBool    (* Shared Subscription Available *)
  | _ => None
  end.

(* a property list a packet of a given kind may carry: identifiers from the packet's list, each at
   most once except User Property (and Subscription Identifier in a PUBLISH) *)
Fixpoint count_id (id : N) (ps : list prop) : nat :=
  match ps with [] => O | p :: r => (if fst p =? id then 1 else 0) + count_id id r end.
Definition legal_ids (allowed repeatable : list N) (ps : list prop) : Prop :=
  (forall p, In p ps -> In (fst p) allowed) /\
  (forall id, In id allowed -> ~ In id repeatable -> (count_id id ps <= 1)%nat).

(* 1.5.5 Variable Byte Integer, the standard's encoding algorithm:
     do  encodedByte = X MOD 128;  X = X DIV 128;
         if (X > 0) encodedByte = encodedByte OR 128;  output encodedByte   while (X > 0)
   (four iterations suffice for X <= 268435455) *)
Fixpoint spec_varint_f (fuel : nat) (x : N) : bytes :=
  match fuel with
  | O => []
  | S f => if x / 128 =? 0 then [x mod 128] else (x mod 128 + 128) :: spec_varint_f f (x / 128)
  end.
Definition spec_varint (x : N) : bytes := spec_varint_f 4 x.

(* fixed header + remaining length + body *)
Definition spec_packet (hdr : N) (body : bytes) : bytes := hdr :: spec_varint (lenN body) ++ body.
Definition spec_props (ps : list prop) : bytes := spec_varint (lenN (enc_props ps)) ++ enc_props ps.
Definition b2n' (b : bool) : N := if b then 1 else 0.

(* 3.2 CONNACK *)
Definition connack_ids : list N := [17; 33; 36; 37; 39; 18; 34; 31; 38; 40; 41; 42; 19; 26; 28; 21; 22].
Definition spec_connack (sp : bool) (reason : N) (ps : list prop) : bytes :=
  spec_packet 32 ([b2n' sp; reason] ++ spec_props ps).
Definition spec_connect_reasons : list N :=
  [0; 128; 129; 130; 131; 132; 133; 134; 135; 136; 137; 138; 140; 144; 149; 151; 153; 154; 155; 156; 157; 159].

(* 3.3 PUBLISH (server to client) *)
Definition publish_ids : list N := [1; 2; 35; 8; 9; 38; 11; 3].
Definition spec_publish (dup : bool) (qos : N) (retain : bool) (topic : bytes) (pid : N) (ps : list prop)
    (payload : bytes) : bytes :=
  spec_packet (48 + b2n' dup * 8 + qos * 2 + b2n' retain)
    (enc_bin topic ++ (if qos =? 0 then [] else enc_u16 pid) ++ spec_props ps ++ payload).

(* 3.4-3.7 PUBACK / PUBREC / PUBREL / PUBCOMP: three forms *)
Inductive ack_form := AckShort2 | AckShort3 | AckFull.
Definition ack_ids : list N := [31; 38].
Definition spec_ack (hdr pid reason : N) (ps : list prop) (form : ack_form) : bytes :=
  match form with
  | AckShort2 => spec_packet hdr (enc_u16 pid)                         (* reason 0, no properties *)
  | AckShort3 => spec_packet hdr (enc_u16 pid ++ [reason])             (* no properties *)
  | AckFull => spec_packet hdr (enc_u16 pid ++ [reason] ++ spec_props ps)
  end.
Definition spec_puback_reasons : list N := [0; 16; 128; 131; 135; 144; 145; 151; 153].
Definition spec_pubrel_reasons : list N := [0; 146].

(* 3.9 SUBACK / 3.11 UNSUBACK *)
Definition spec_suback (hdr pid : N) (ps : list prop) (codes : list N) : bytes :=
  spec_packet hdr (enc_u16 pid ++ spec_props ps ++ codes).
Definition spec_suback_reasons : list N := [0; 1; 2; 128; 131; 135; 143; 145; 151; 158; 161; 162].
Definition spec_unsuback_reasons : list N := [0; 17; 128; 131; 135; 143; 145].

(* 3.13 PINGRESP *)
Definition spec_pingresp : bytes := [208; 0].

(* 3.14 DISCONNECT (server to client): three forms *)
Inductive disc_form := DiscShort0 | DiscShort1 | DiscFull.
Definition disconnect_ids : list N := [31; 38; 28].
Definition spec_disconnect (reason : N) (ps : list prop) (form : disc_form) : bytes :=
  match form with
  | DiscShort0 => [224; 0]                                             (* reason 0, no properties *)
  | DiscShort1 => spec_packet 224 [reason]
  | DiscFull => spec_packet 224 ([reason] ++ spec_props ps)
  end.
Definition spec_disconnect_reasons : list N :=
  [0; 4; 128; 129; 130; 131; 135; 137; 139; 141; 142; 143; 144; 147; 148; 149; 150; 151; 152; 153; 154; 155; 156;
   157; 158; 159; 160; 161; 162].

(* 3.15 AUTH: two forms *)
Definition auth_ids : list N := [21; 22; 31; 38].
Definition spec_auth (reason : N) (ps : list prop) (short : bool) : bytes :=
  if short then [240; 0] else spec_packet 240 ([reason] ++ spec_props ps).
Definition spec_auth_reasons : list N := [0; 24; 25].

(* what the accessors must return: the first (= only) occurrence of an identifier, the standard's
   default when it is absent, and the user properties in wire order *)
Fixpoint pfirst (id : N) (ps : list prop) : option pval :=
  match ps with [] => None | (i, v) :: r => if i =? id then Some v else pfirst id r end.
