(* Server-to-client packet decoders as written in src/codec/*.rs (after the fix: commits). *)
From Poster Require Export Model.Props.

Inductive rxkind :=
| KConnack | KPublish | KPuback | KPubrec | KPubrel | KPubcomp
| KSuback | KUnsuback | KPingresp | KDisconnect | KAuth.

Record rxpkt := mkrx {
  rk : rxkind;
  r_sp : bool;              (* CONNACK session present *)
  r_dup : bool; r_retain : bool; r_qos : N;
  r_pid : N;                (* 0 = none *)
  r_reason : N;
  r_props : list prop;      (* in wire order; the builder's fields are plast/users of it *)
  r_topic : bytes;
  r_payload : bytes;
  r_codes : list N }.

Definition rx0 (k : rxkind) : rxpkt := mkrx k false false false 0 0 0 [] [] [] [].

(* reason code tables: the TryFrom<u8> impls *)
Definition connect_reasons : list N :=
  [0;128;129;130;131;132;133;134;135;136;137;138;140;144;149;151;153;154;155;156;157;159].
Definition puback_reasons : list N := [0;16;128;131;135;144;145;151;153].
Definition pubrel_reasons : list N := [0;146].
Definition suback_reasons : list N := [0;1;2;128;131;135;143;145;151;158;161;162].
Definition unsuback_reasons : list N := [0;17;128;131;135;143;145].
Definition disconnect_reasons : list N :=
  [0;4;128;129;130;131;135;137;139;141;142;143;144;147;148;149;150;151;152;153;154;155;156;
   157;158;159;160;161;162].
Definition auth_reasons : list N := [0;24;25].

Definition memN (x : N) (l : list N) : bool := existsb (N.eqb x) l.
Definition dec_reason (tbl : list N) (bs : bytes) : res N :=
  let* b := dec_u8 bs in if memN b tbl then Ok b else Err.

Definition one {A} (_ : A) : N := 1.
Definition two {A} (_ : A) : N := 2.
Definition step_u8 := try_dec dec_u8 one.
Definition step_var := try_dec dec_var (fun p : N * N => snd p).
Definition step_pid := try_dec (fun bs => nonzero (dec_u16 bs)) two.
Definition step_reason tbl := try_dec (dec_reason tbl) one.

Definition checked_props (allowed : list N) (bs : bytes) : res (list prop) :=
  let* ps := dec_props_all bs in
  if ids_in allowed ps then Ok ps else Err.

(* AckRx<ReasonT>::try_decode *)
Definition dec_ack (k : rxkind) (hdr : N) (tbl : list N) (bs : bytes) : res rxpkt :=
  let* (h, r) := step_u8 bs in
  if negb (h =? hdr) then Err else
  let* (rl, r) := step_var r in
  if lenN r <? fst rl then Err else
  let* (pid, r) := step_pid r in
  let p := mkrx k false false false 0 pid 0 [] [] [] [] in
  if fst rl =? 2 then Ok p else
  let* (reason, r) := step_reason tbl r in
  let p := mkrx k false false false 0 pid reason [] [] [] [] in
  if fst rl <? 4 then Ok p else
  let* (pl, r) := step_var r in
  if lenN r <? fst pl then Err else
  let* ps := checked_props [31; 38] r in
  Ok (mkrx k false false false 0 pid reason ps [] [] []).

Definition connack_allowed : list N := [40;41;42;36;37;19;33;34;17;39;22;18;31;26;28;21;38].

Definition dec_connack (bs : bytes) : res rxpkt :=
  let* (h, r) := step_u8 bs in
  if negb (N.shiftr h 4 =? 2) then Err else
  let* (rl, r) := step_var r in
  if lenN bs <? 1 + snd rl + fst rl then Err else
  let* (sp, r) := try_dec dec_bool one r in
  let* (reason, r) := step_reason connect_reasons r in
  let* (pl, r) := step_var r in
  if lenN r <? fst pl then Err else
  let* ps := checked_props connack_allowed r in
  Ok (mkrx KConnack sp false false 0 0 reason ps [] [] []).

Definition publish_allowed : list N := [1;35;2;11;9;8;3;38].

Definition dec_publish (bs : bytes) : res rxpkt :=
  let* (h, r) := step_u8 bs in
  if negb (N.shiftr h 4 =? 3) then Err else
  let q := N.land (N.shiftr h 1) 3 in
  if 2 <? q then Err else
  let dup := negb (N.land h 8 =? 0) in
  let ret := negb (N.land h 1 =? 0) in
  let* (rl, r) := step_var r in
  if lenN r <? fst rl then Err else
  let* (topic, r) := try_dec dec_str blen_bin r in
  let* (pid, r) := (if 0 <? q then step_pid r else Ok (0, r)) in
  let* (pl, r) := step_var r in
  if lenN r <? fst pl then Err else
  let* ps := checked_props publish_allowed (takeN (fst pl) r) in
  Ok (mkrx KPublish false dup ret q pid 0 ps topic (dropN (fst pl) r) []).

Fixpoint dec_codes (tbl : list N) (bs : bytes) : res (list N) :=
  match bs with
  | [] => Ok []
  | b :: r => if memN b tbl then (let* cs := dec_codes tbl r in Ok (b :: cs)) else Err
  end.

(* SubackRx / UnsubackRx *)
Definition dec_suback (k : rxkind) (hdr : N) (tbl : list N) (bs : bytes) : res rxpkt :=
  let* (h, r) := step_u8 bs in
  if negb (h =? hdr) then Err else
  let* (rl, r) := step_var r in
  if lenN r <? fst rl then Err else
  let* (pid, r) := step_pid r in
  let* (pl, r) := step_var r in
  if lenN r <? fst pl then Err else
  let* ps := checked_props [31; 38] (takeN (fst pl) r) in
  let* cs := dec_codes tbl (dropN (fst pl) r) in
  Ok (mkrx k false false false 0 pid 0 ps [] [] cs).

Definition dec_pingresp (bs : bytes) : res rxpkt :=
  let* (h, r) := step_u8 bs in
  if negb (h =? 208) then Err else Ok (rx0 KPingresp).

Definition dec_disconnect (bs : bytes) : res rxpkt :=
  let* (h, r) := step_u8 bs in
  if negb (h =? 224) then Err else
  let* (rl, r) := step_var r in
  if lenN r <? fst rl then Err else
  if fst rl =? 0 then Ok (rx0 KDisconnect) else
  let* (reason, r) := step_reason disconnect_reasons r in
  let p := mkrx KDisconnect false false false 0 0 reason [] [] [] [] in
  if lenN r =? 0 then Ok p else
  let* (pl, r) := step_var r in
  if lenN r <? fst pl then Err else
  let* ps := checked_props [31; 28; 38] r in
  Ok (mkrx KDisconnect false false false 0 0 reason ps [] [] []).

Definition isNone {A} (o : option A) : bool := match o with None => true | _ => false end.

Definition dec_auth (bs : bytes) : res rxpkt :=
  let* (h, r) := step_u8 bs in
  if negb (h =? 240) then Err else
  let* (rl, r) := step_var r in
  if fst rl =? 0 then Ok (rx0 KAuth) else
  if lenN bs <? fst rl then Err else
  let* (reason, r) := step_reason auth_reasons r in
  let* (pl, r) := step_var r in
  if lenN r <? fst pl then Err else
  let* ps := checked_props [21; 22; 31; 38] r in
  (* AuthRxBuilder::validate: anything but the bare default needs an authentication method *)
  let shortened := (reason =? 0) && match ps with [] => true | _ => false end in
  if negb shortened && isNone (plast 21 ps) then Err
  else Ok (mkrx KAuth false false false 0 0 reason ps [] [] []).

(* RxPacket::try_decode: `bytes[0] >> 4` panics on an empty buffer *)
Definition dec_packet (bs : bytes) : res rxpkt :=
  match bs with
  | [] => Panic
  | h :: _ =>
    match N.shiftr h 4 with
    | 2 => dec_connack bs
    | 3 => dec_publish bs
    | 4 => dec_ack KPuback 64 puback_reasons bs
    | 5 => dec_ack KPubrec 80 puback_reasons bs
    | 6 => dec_ack KPubrel 98 pubrel_reasons bs
    | 7 => dec_ack KPubcomp 112 pubrel_reasons bs
    | 9 => dec_suback KSuback 144 suback_reasons bs
    | 11 => dec_suback KUnsuback 176 unsuback_reasons bs
    | 13 => dec_pingresp bs
    | 14 => dec_disconnect bs
    | 15 => dec_auth bs
    | _ => Err
    end
  end.
