(* C17 over every history of Context steps: the retransmit queue is exactly the list of unfinished
   outbound handshakes, in the order they were first sent. *)
From Poster Require Import Model.Client Proofs.BytesP Proofs.ClientP Proofs.QuotaP Proofs.HandshakeP.
Arguments N.add : simpl never. Arguments N.mul : simpl never. Arguments N.sub : simpl never.
Arguments N.ltb : simpl never. Arguments N.leb : simpl never. Arguments N.eqb : simpl never.

(* ---- specification, from the property: the unfinished handshakes ----------------------------------------
   an entry = (what acknowledgement finishes it: type<<24 | id<<8, the packet to re-send).
   A QoS>0 PUBLISH is unfinished from the moment it is written until its PUBACK / PUBREC arrives and is re-sent
   with DUP=1; a PUBREL is unfinished from the moment it is written until its PUBCOMP arrives. *)
Definition spec_sent (s : sys) (m : cmsg) : list (N * bytes) :=
  match m with
  | MAwait _ _ a pkt =>
    if size_ok (c s) pkt then
      if ptype_of pkt =? 3 then (if quota (c s) =? 0 then [] else [(a, set_dup pkt)])
      else if ptype_of pkt =? 6 then [(a, pkt)] else []
    else []
  | _ => []
  end.
Definition spec_finished (p : rxpkt) : option N :=
  match rk p with
  | KPuback => Some (aid 4 (r_pid p))
  | KPubrec => Some (aid 5 (r_pid p))
  | KPubcomp => Some (aid 7 (r_pid p))
  | _ => None
  end.
Fixpoint unfinished (s : sys) (g : list (N * bytes)) (evs : list qev) : list (N * bytes) :=
  match evs with
  | [] => g
  | QMsg m :: r => unfinished (qstep s (QMsg m)) (g ++ spec_sent s m) r
  | QPkt p :: r => unfinished (qstep s (QPkt p)) (match spec_finished p with Some k => aremove k g | None => g end) r
  end.
Fixpoint run_q (s : sys) (evs : list qev) : sys :=
  match evs with [] => s | e :: r => run_q (qstep s e) r end.

Lemma retx_message s m : wbudget s = None -> retx (c (fst (handle_message s m))) = retx (c s) ++ spec_sent s m.
Proof.
  intros Hb. unfold handle_message, spec_sent. cbv zeta. destruct m as [i p|i ph a p|i a sid p].
  - rewrite app_nil_r. destruct (negb (size_ok (c s) p)); cbn [fst]; [rewrite complete_c; reflexivity|].
    destruct (negb (snd (write s p))); cbn [fst]; rewrite ?cancel_c, ?complete_c, ?write_c; reflexivity.
  - destruct (size_ok (c s) p); cbn [negb fst]; [|rewrite complete_c, app_nil_r; reflexivity].
    destruct (ptype_of p =? 3).
    + destruct (quota (c s) =? 0); cbn [fst]; [rewrite complete_c, app_nil_r; reflexivity|].
      rewrite write_nofault_snd, write_nofault_fst by exact Hb. reflexivity.
    + destruct (ptype_of p =? 6); rewrite write_nofault_snd, write_nofault_fst by exact Hb; cbn [negb fst c set_c retx with_retx with_awaiting set_wire];
        [reflexivity|rewrite app_nil_r; reflexivity].
  - rewrite app_nil_r. destruct (negb (size_ok (c s) p)); cbn [fst]; [rewrite close_c, complete_c; reflexivity|].
    rewrite write_c. reflexivity.
Qed.
Lemma retx_packet s p : retx (c (fst (handle_packet s p))) = match spec_finished p with Some k => aremove k (retx (c s)) | None => retx (c s) end.
Proof. rewrite retx_ack. unfold spec_finished. destruct (rk p); reflexivity. Qed.

Theorem retx_history evs : forall s, wbudget s = None ->
  retx (c (run_q s evs)) = unfinished s (retx (c s)) evs /\ wbudget (run_q s evs) = None.
Proof.
  induction evs as [|e evs IH]; intros s Hb; cbn [run_q unfinished]; [auto|].
  destruct (IH (qstep s e) (qstep_wb_none s e Hb)) as [H1 H2]. split; [|exact H2]. rewrite H1.
  destruct e as [m|p]; cbn [qstep]; [rewrite retx_message by exact Hb|rewrite retx_packet]; reflexivity.
Qed.

(* resumption of an unexpired session after any such history: exactly the unfinished handshakes, in order *)
Corollary resume_wire evs s : wbudget s = None ->
  let s' := run_q s evs in
  wire_ev (fst (retransmit s' (retx (c s')))) = wire_ev s' ++ concat (map snd (unfinished s (retx (c s)) evs)).
Proof.
  intros Hb. cbv zeta. destruct (retx_history evs s Hb) as [H1 H2].
  destruct (retransmit_wire (retx (c (run_q s evs))) (run_q s evs) H2) as [H3 _]. rewrite H3, H1. reflexivity.
Qed.
