(* Primitive decoders: a successful decode never claims more bytes than the buffer holds, so
   Decoder::try_decode's advance_by cannot run past the end (no panic). *)
From Poster Require Import Model.Bytes Model.Varint Model.Props Proofs.VarintP.
From Coq Require Import ZArith ZifyN ZifyBool ZifyNat.
Ltac Zify.zify_post_hook ::= Z.div_mod_to_equations.
Arguments N.add : simpl never. Arguments N.mul : simpl never.
Arguments N.ltb : simpl never. Arguments N.leb : simpl never. Arguments N.eqb : simpl never.

Definition np {A} (r : res A) : Prop := r <> Panic.

Lemma lenN_cons {A} (a : A) l : lenN (a :: l) = lenN l + 1.
Proof. unfold lenN. cbn [length]. lia. Qed.
Lemma lenN_nil {A} : lenN (@nil A) = 0.
Proof. reflexivity. Qed.
Lemma lenN_app {A} (a b : list A) : lenN (a ++ b) = lenN a + lenN b.
Proof. unfold lenN. rewrite app_length. lia. Qed.
Lemma lenN_dropN {A} n (l : list A) : lenN (dropN n l) = lenN l - n.
Proof. unfold lenN, dropN. rewrite skipn_length. lia. Qed.
Lemma lenN_takeN {A} n (l : list A) : lenN (takeN n l) = N.min n (lenN l).
Proof. unfold lenN, takeN. rewrite firstn_length. lia. Qed.
Lemma take_drop {A} n (l : list A) : takeN n l ++ dropN n l = l.
Proof. apply firstn_skipn. Qed.

Lemma bind_np {A B} (r : res A) (f : A -> res B) :
  np r -> (forall a, r = Ok a -> np (f a)) -> np (bind r f).
Proof. unfold np. destruct r; cbn; intros H1 H2; [apply H2; reflexivity|discriminate|congruence]. Qed.
Lemma bind_ok {A B} (r : res A) (f : A -> res B) b :
  bind r f = Ok b -> exists a, r = Ok a /\ f a = Ok b.
Proof. destruct r; cbn; intros H; [eauto|discriminate|discriminate]. Qed.
Lemma np_ok {A} (a : A) : np (Ok a). Proof. unfold np; discriminate. Qed.
Lemma np_err {A} : np (@Err A). Proof. unfold np; discriminate. Qed.
#[export] Hint Resolve np_ok np_err : np.

Lemma try_dec_np {A} (dec : bytes -> res A) blen bs :
  np (dec bs) -> (forall a, dec bs = Ok a -> blen a <= lenN bs) -> np (try_dec dec blen bs).
Proof.
  intros H1 H2. unfold try_dec. apply bind_np; [exact H1|]. intros a Ha.
  specialize (H2 a Ha). replace (blen a <=? lenN bs) with true by (symmetry; apply N.leb_le; exact H2).
  apply np_ok.
Qed.
Lemma try_dec_ok {A} (dec : bytes -> res A) blen bs a r :
  try_dec dec blen bs = Ok (a, r) -> dec bs = Ok a /\ r = dropN (blen a) bs /\ blen a <= lenN bs.
Proof.
  unfold try_dec. intros H. apply bind_ok in H. destruct H as [a' [Ha H]].
  destruct (blen a' <=? lenN bs) eqn:E; [|discriminate]. inversion H; subst. apply N.leb_le in E. auto.
Qed.

(* ---- primitives ---- *)
Lemma dec_u8_len bs a : dec_u8 bs = Ok a -> 1 <= lenN bs.
Proof. destruct bs; cbn [dec_u8 dec_bool dec_qos]; [discriminate|]. intros _. rewrite lenN_cons. lia. Qed.
Lemma dec_u16_len bs a : dec_u16 bs = Ok a -> 2 <= lenN bs.
Proof. destruct bs as [|x [|y r]]; cbn [dec_u16]; try discriminate. intros _. rewrite !lenN_cons. lia. Qed.
Lemma dec_u32_len bs a : dec_u32 bs = Ok a -> 4 <= lenN bs.
Proof.
  destruct bs as [|x [|y [|z [|w r]]]]; cbn [dec_u32]; try discriminate. intros _. rewrite !lenN_cons. lia.
Qed.
Lemma dec_bool_len bs a : dec_bool bs = Ok a -> 1 <= lenN bs.
Proof. destruct bs; cbn [dec_u8 dec_bool dec_qos]; [discriminate|]. intros _. rewrite lenN_cons. lia. Qed.
Lemma dec_qos_len bs a : dec_qos bs = Ok a -> 1 <= lenN bs.
Proof. destruct bs; cbn [dec_u8 dec_bool dec_qos]; [discriminate|]. intros _. rewrite lenN_cons. lia. Qed.
Lemma nonzero_ok r a : nonzero r = Ok a -> r = Ok a.
Proof.
  unfold nonzero. intros H. apply bind_ok in H. destruct H as [n [Hr H]].
  destruct (n =? 0); [discriminate|]. congruence.
Qed.
Lemma dec_bin_len bs b : dec_bin bs = Ok b -> blen_bin b <= lenN bs.
Proof.
  unfold dec_bin, blen_bin. destruct bs as [|x [|y r]]; try discriminate.
  destruct (x * 256 + y <=? lenN r) eqn:E; [|discriminate]. apply N.leb_le in E.
  intros H. inversion H; subst. rewrite lenN_takeN, !lenN_cons. lia.
Qed.
Lemma dec_str_ok bs s : dec_str bs = Ok s -> dec_bin bs = Ok s /\ utf8_valid s = true.
Proof.
  unfold dec_str. intros H. apply bind_ok in H. destruct H as [b [Hb H]].
  destruct (utf8_valid b) eqn:E; [|discriminate]. inversion H; subst. auto.
Qed.
Lemma dec_str_len bs b : dec_str bs = Ok b -> blen_bin b <= lenN bs.
Proof. intros H. apply dec_str_ok in H. apply dec_bin_len. tauto. Qed.
Lemma dec_pair_len bs p : dec_pair bs = Ok p -> blen_pair p <= lenN bs.
Proof.
  unfold dec_pair. intros H. apply bind_ok in H. destruct H as [k [Hk H]].
  apply bind_ok in H. destruct H as [v [Hv H]]. inversion H; subst.
  apply dec_str_len in Hk. apply dec_str_len in Hv. rewrite lenN_dropN in Hv.
  unfold blen_pair, blen_bin in *. cbn [fst snd]. lia.
Qed.
Lemma dec_var_len bs p : dec_var bs = Ok p -> snd p <= lenN bs /\ 1 <= snd p /\ fst p <= VMAX.
Proof.
  unfold dec_var. assert (S := vdec_spec bs). destruct (vdec bs); try discriminate.
  intros H. inversion H; subst. cbn [fst snd]. lia.
Qed.

Lemma np_bind_simple {A B} (r : res A) (f : A -> B) : np r -> np (map_res f r).
Proof. intros H. unfold map_res. apply bind_np; [exact H|]. intros; apply np_ok. Qed.
Lemma dec_u8_np bs : np (dec_u8 bs). Proof. destruct bs; cbn; auto with np. Qed.
Lemma dec_u16_np bs : np (dec_u16 bs). Proof. destruct bs as [|x [|y r]]; cbn; auto with np. Qed.
Lemma dec_u32_np bs : np (dec_u32 bs).
Proof. destruct bs as [|x [|y [|z [|w r]]]]; cbn; auto with np. Qed.
Lemma dec_bool_np bs : np (dec_bool bs).
Proof. destruct bs as [|[|[| | ]] r]; cbn; auto with np. Qed.
Lemma dec_qos_np bs : np (dec_qos bs).
Proof. destruct bs; cbn; [auto with np|]. destruct (_ <=? _); auto with np. Qed.
Lemma nonzero_np r : np r -> np (nonzero r).
Proof.
  intros H. unfold nonzero. apply bind_np; [exact H|]. intros a _. destruct (a =? 0); auto with np.
Qed.
Lemma dec_bin_np bs : np (dec_bin bs).
Proof. unfold dec_bin. destruct bs as [|x [|y r]]; auto with np. destruct (_ <=? _); auto with np. Qed.
Lemma dec_str_np bs : np (dec_str bs).
Proof.
  unfold dec_str. apply bind_np; [apply dec_bin_np|]. intros a _. destruct (utf8_valid a); auto with np.
Qed.
Lemma dec_pair_np bs : np (dec_pair bs).
Proof.
  unfold dec_pair. apply bind_np; [apply dec_str_np|]. intros k _.
  apply bind_np; [apply dec_str_np|]. intros; apply np_ok.
Qed.
Lemma dec_var_np bs : np (dec_var bs).
Proof.
  unfold dec_var. assert (S := vdec_spec bs). destruct (vdec bs); auto with np. contradiction.
Qed.

(* ---- properties ---- *)
Lemma dec_pval_np t bs : np (dec_pval t bs).
Proof.
  destruct t; cbn [dec_pval]; apply np_bind_simple;
    auto using dec_bool_np, dec_qos_np, dec_u16_np, dec_u32_np, nonzero_np, dec_var_np,
               dec_bin_np, dec_str_np, dec_pair_np.
Qed.
Lemma map_res_ok {A B} (f : A -> B) r b : map_res f r = Ok b -> exists a, r = Ok a /\ b = f a.
Proof.
  unfold map_res. intros H. apply bind_ok in H. destruct H as [a [Ha H]]. inversion H. eauto.
Qed.
Lemma dec_pval_len t bs v : dec_pval t bs = Ok v -> blen_pval v <= lenN bs.
Proof.
  destruct t; cbn [dec_pval]; intros H; apply map_res_ok in H; destruct H as [a [Ha ->]];
    cbn [blen_pval].
  - eapply dec_bool_len; eauto.
  - eapply dec_qos_len; eauto.
  - eapply dec_u16_len; eauto.
  - apply nonzero_ok in Ha. eapply dec_u16_len; eauto.
  - eapply dec_u32_len; eauto.
  - apply nonzero_ok in Ha. eapply dec_u32_len; eauto.
  - apply dec_var_len in Ha. tauto.
  - apply dec_bin_len in Ha. exact Ha.
  - apply dec_str_len in Ha. exact Ha.
  - apply dec_pair_len in Ha. destruct a; exact Ha.
Qed.

Lemma dec_prop_inner_np bs : np (dec_prop_inner bs).
Proof.
  unfold dec_prop_inner. apply bind_np.
  - apply try_dec_np; [apply dec_u8_np|]. intros a Ha. eapply dec_u8_len; eauto.
  - intros [id r] H. destruct (model_ptype id); [|apply np_err].
    apply bind_np.
    + apply try_dec_np; [apply dec_pval_np|]. intros; eapply dec_pval_len; eauto.
    + intros [v r'] _. apply np_ok.
Qed.
Lemma dec_prop_inner_len bs p : dec_prop_inner bs = Ok p -> blen_prop p <= lenN bs.
Proof.
  unfold dec_prop_inner. intros H. apply bind_ok in H. destruct H as [[id r] [H1 H]].
  apply try_dec_ok in H1. destruct H1 as [H1 [Hr Hl]]. cbn in Hl.
  destruct (model_ptype id); [|discriminate].
  apply bind_ok in H. destruct H as [[v r'] [H2 H]]. inversion H; subst p.
  apply try_dec_ok in H2. destruct H2 as [H2 [_ Hl2]].
  subst r. rewrite lenN_dropN in Hl2. unfold blen_prop. cbn [snd]. lia.
Qed.

Lemma dec_props_np fuel : forall bs, np (dec_props fuel bs).
Proof.
  induction fuel as [|f IH]; intros bs; destruct bs as [|b r]; cbn [dec_props]; auto with np.
  apply bind_np.
  - apply try_dec_np; [apply dec_prop_inner_np|]. intros; eapply dec_prop_inner_len; eauto.
  - intros [p r'] _. apply bind_np; [apply IH|]. intros; apply np_ok.
Qed.
Lemma dec_props_all_np bs : np (dec_props_all bs).
Proof. apply dec_props_np. Qed.
