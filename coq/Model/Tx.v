(* Client-to-server packets: what src/client/opts.rs lets a caller set, the builders'
   validation, and the encoders of src/codec/{connect,auth,disconnect,publish,subscribe,
   unsubscribe,pingreq,ack}.rs (after the fix: commits).

   Every encoder has the same shape in the code: remaining_len() / property_len() add up
   ByteLen::byte_len() of the fields, encode() writes the fields.  The model keeps exactly that
   split: a packet body is a list of fields, `blen_fld` is what the length functions add up,
   `enc_fld` is what encode() writes. *)
From Poster Require Export Model.Props.

Definition opt_prop {A} (id : N) (f : A -> pval) (o : option A) : list prop :=
  match o with Some a => [(id, f a)] | None => [] end.
Definition user_props (l : list (bytes * bytes)) : list prop :=
  map (fun kv => (38, VPr (fst kv) (snd kv))) l.
Definition b2n (b : bool) : N := if b then 1 else 0.
Definition isSome {A} (o : option A) : bool := match o with Some _ => true | None => false end.

Inductive fld :=
| F8 (n : N) | F16 (n : N) | FBin (b : bytes) | FRaw (b : bytes)
| FProps (ps : list prop).      (* property length (variable byte integer) + properties *)

(* VarSizeInt::try_from(len).unwrap(): panics above 268435455 *)
Definition venc_checked (n : N) : res bytes :=
  match vlen n with Some _ => Ok (venc n) | None => Panic end.
Definition vlen0 (n : N) : N := match vlen n with Some l => l | None => 0 end.

Definition blen_fld (f : fld) : N :=
  match f with
  | F8 _ => 1 | F16 _ => 2 | FBin b => lenN b + 2 | FRaw b => lenN b
  | FProps ps => vlen0 (blen_props ps) + blen_props ps
  end.
Definition enc_fld (f : fld) : res bytes :=
  match f with
  | F8 n => Ok (enc_u8 n) | F16 n => Ok (enc_u16 n) | FBin b => Ok (enc_bin b) | FRaw b => Ok b
  | FProps ps => let* pl := venc_checked (blen_props ps) in Ok (pl ++ enc_props ps)
  end.
Definition blen_flds (fs : list fld) : N := fold_right (fun f a => blen_fld f + a) 0 fs.
Fixpoint enc_flds (fs : list fld) : res bytes :=
  match fs with
  | [] => Ok []
  | f :: r => let* a := enc_fld f in let* b := enc_flds r in Ok (a ++ b)
  end.

(* fixed header, remaining_len() = sum of byte_len, then the fields *)
Definition enc_packet (hdr : N) (fs : list fld) : res bytes :=
  let* rl := venc_checked (blen_flds fs) in
  let* body := enc_flds fs in
  Ok (hdr :: rl ++ body).

Definition opt_fld (o : option bytes) : list fld := match o with Some b => [FBin b] | None => [] end.

(* ---- CONNECT ---- *)
Record connect_opts := {
  co_cid : bytes; co_ka : N;
  co_sei : option N; co_rm : option N; co_mps : option N; co_tam : option N;
  co_rri : option bool; co_rpi : option bool;
  co_am : option bytes; co_ad : option bytes; co_up : list (bytes * bytes);
  co_wq : N; co_wr : bool; co_cs : bool;
  co_wdi : option N; co_wpfi : option bool; co_wmei : option N;
  co_wct : option bytes; co_wrt : option bytes; co_wcd : option bytes;
  co_wup : list (bytes * bytes);
  co_wt : option bytes; co_wp : option bytes; co_un : option bytes; co_pw : option bytes }.

Definition connect_props (o : connect_opts) : list prop :=
  opt_prop 17 V32 (co_sei o) ++ opt_prop 33 V16 (co_rm o) ++ opt_prop 39 V32 (co_mps o)
  ++ opt_prop 34 V16 (co_tam o) ++ opt_prop 25 VB (co_rri o) ++ opt_prop 23 VB (co_rpi o)
  ++ opt_prop 21 VStr (co_am o) ++ opt_prop 22 VBin (co_ad o) ++ user_props (co_up o).
Definition will_props (o : connect_opts) : list prop :=
  opt_prop 24 V32 (co_wdi o) ++ opt_prop 1 VB (co_wpfi o) ++ opt_prop 2 V32 (co_wmei o)
  ++ opt_prop 3 VStr (co_wct o) ++ opt_prop 8 VStr (co_wrt o) ++ opt_prop 9 VBin (co_wcd o)
  ++ user_props (co_wup o).
Definition will_flag (o : connect_opts) : bool := isSome (co_wt o) && isSome (co_wp o).
Definition connect_flags (o : connect_opts) : N :=
  b2n (isSome (co_un o)) * 128 + b2n (isSome (co_pw o)) * 64 + b2n (co_wr o) * 32
  + co_wq o * 8 + b2n (will_flag o) * 4 + b2n (co_cs o) * 2.

Definition connect_fields (o : connect_opts) : list fld :=
  [FBin [77; 81; 84; 84]; F8 5; F8 (connect_flags o); F16 (co_ka o); FProps (connect_props o);
   FBin (co_cid o)]
  ++ (if will_flag o then FProps (will_props o) :: opt_fld (co_wt o) ++ opt_fld (co_wp o) else [])
  ++ opt_fld (co_un o) ++ opt_fld (co_pw o).

(* ConnectTxBuilder::validate, then encode *)
Definition enc_connect (o : connect_opts) : res bytes :=
  if negb (isSome (co_am o)) && isSome (co_ad o) then Err
  else enc_packet 16 (connect_fields o).

(* ---- AUTH ---- *)
Record auth_opts := {
  ao_reason : N; ao_am : option bytes; ao_ad : option bytes; ao_up : list (bytes * bytes) }.
Definition auth_props (o : auth_opts) : list prop :=
  opt_prop 21 VStr (ao_am o) ++ opt_prop 22 VBin (ao_ad o) ++ user_props (ao_up o).
(* AuthTxBuilder::validate's `shortened` and AuthTx::is_shortened coincide: the builder's
   user_property is None exactly when no user property was pushed *)
Definition auth_shortened (o : auth_opts) : bool :=
  (ao_reason o =? 0) && negb (isSome (ao_am o)) && negb (isSome (ao_ad o))
  && match ao_up o with [] => true | _ => false end.
Definition enc_auth (o : auth_opts) : res bytes :=
  if negb (auth_shortened o) && (negb (isSome (ao_am o)) || negb (isSome (ao_ad o))) then Err
  else if auth_shortened o then Ok [240; 0]
  else enc_packet 240 [F8 (ao_reason o); FProps (auth_props o)].

(* ---- DISCONNECT ---- *)
Record disconnect_opts := {
  do_reason : N; do_sei : option N; do_rs : option bytes; do_up : list (bytes * bytes) }.
Definition disconnect_props (o : disconnect_opts) : list prop :=
  opt_prop 17 V32 (do_sei o) ++ opt_prop 31 VStr (do_rs o) ++ user_props (do_up o).
Definition enc_disconnect (o : disconnect_opts) : res bytes :=
  enc_packet 224 [F8 (do_reason o); FProps (disconnect_props o)].

(* ---- PUBLISH ---- *)
Record publish_opts := {
  po_qos : N; po_retain : bool; po_topic : option bytes; po_payload : option bytes;
  po_pfi : option bool; po_ta : option N; po_mei : option N;
  po_cd : option bytes; po_rt : option bytes; po_ct : option bytes;
  po_up : list (bytes * bytes) }.
Definition publish_props (o : publish_opts) : list prop :=
  opt_prop 1 VB (po_pfi o) ++ opt_prop 35 V16 (po_ta o) ++ opt_prop 2 V32 (po_mei o)
  ++ opt_prop 9 VBin (po_cd o) ++ opt_prop 8 VStr (po_rt o) ++ opt_prop 3 VStr (po_ct o)
  ++ user_props (po_up o).
Definition publish_hdr (dup : bool) (o : publish_opts) : N :=
  48 + b2n dup * 8 + po_qos o * 2 + b2n (po_retain o).
(* pid = 0 stands for "no packet identifier" (QoS 0) *)
Definition enc_publish (o : publish_opts) (pid : N) : res bytes :=
  match po_topic o with
  | None => Err      (* UninitializedFieldError: topic_name is mandatory *)
  | Some t =>
    enc_packet (publish_hdr false o)
      ([FBin t] ++ (if po_qos o =? 0 then [] else [F16 pid]) ++ [FProps (publish_props o)]
       ++ match po_payload o with Some p => [FRaw p] | None => [] end)
  end.

(* ---- SUBSCRIBE ---- *)
Record sub_filter := { sf_topic : bytes; sf_qos : N; sf_nl : bool; sf_rap : bool; sf_rh : N }.
Record subscribe_opts := { so_filters : list sub_filter; so_up : list (bytes * bytes) }.
Definition sub_options (f : sub_filter) : N :=
  sf_qos f + b2n (sf_nl f) * 4 + b2n (sf_rap f) * 8 + sf_rh f * 16.
Definition subid_len (subid : N) : N := vlen0 subid.
Definition enc_subscribe (o : subscribe_opts) (pid subid : N) : res bytes :=
  match so_filters o with
  | [] => Err        (* validate: empty payload *)
  | fs =>
    (* VarSizeInt::try_from(u32).and_then(NonZero::try_from).unwrap() *)
    match vlen subid with
    | None => Panic
    | Some l =>
      enc_packet 130
        ([F16 pid; FProps ((11, VV subid l) :: user_props (so_up o))]
         ++ flat_map (fun f => [FBin (sf_topic f); F8 (sub_options f)]) fs)
    end
  end.

(* ---- UNSUBSCRIBE ---- *)
Record unsubscribe_opts := { uo_filters : list bytes; uo_up : list (bytes * bytes) }.
Definition enc_unsubscribe (o : unsubscribe_opts) (pid : N) : res bytes :=
  match uo_filters o with
  | [] => Err
  | fs => enc_packet 162 ([F16 pid; FProps (user_props (uo_up o))] ++ map FBin fs)
  end.

(* ---- PINGREQ, PUBREL and the client's acknowledgements (AckTx with the default reason and no
        properties: always the two-byte short form) ---- *)
Definition enc_pingreq : bytes := [192; 0].
Definition enc_short_ack (hdr pid : N) : bytes := hdr :: 2 :: enc_u16 pid.
Definition enc_pubrel (pid : N) := enc_short_ack 98 pid.
Definition enc_puback (pid : N) := enc_short_ack 64 pid.
Definition enc_pubrec (pid : N) := enc_short_ack 80 pid.
Definition enc_pubcomp (pid : N) := enc_short_ack 112 pid.
