(* C05 over every history of Context steps: the table of awaited acknowledgements is exactly the list of accepted
   requests whose acknowledgement has not arrived, in registration order; every completion that reaches an
   operation's oneshot is the one the property names (refusal, "written", or the acknowledgement bearing the key the
   operation registered), and pings are answered one per PINGRESP in issue order. *)
From Poster Require Import Model.Client Proofs.BytesP Proofs.ClientP Proofs.QuotaP Proofs.HandshakeP Proofs.ResumeP Proofs.WireP.
Arguments N.add : simpl never. Arguments N.mul : simpl never. Arguments N.sub : simpl never.
Arguments N.ltb : simpl never. Arguments N.leb : simpl never. Arguments N.eqb : simpl never.

(* ---- specification, from the property ---------------------------------------------------------------------------
   a registration = (key of the acknowledgement awaited: type<<24 | id<<8, (operation, phase)). *)
Definition reg := (N * (N * N))%type.
Definition spec_registers (s : sys) (m : cmsg) : list reg :=
  if refused s m then [] else
  match m with
  | MFire _ _ => []
  | MAwait i ph a _ => [(a, (i, ph))]
  | MSub i a _ _ => [(a, (i, 1))]
  end.
(* the key an inbound packet acknowledges *)
Definition spec_acks (p : rxpkt) : option N :=
  match rk p with
  | KPuback => Some (aid 4 (r_pid p))
  | KPubrec => Some (aid 5 (r_pid p))
  | KPubcomp => Some (aid 7 (r_pid p))
  | KSuback => Some (aid 9 (r_pid p))
  | KUnsuback => Some (aid 11 (r_pid p))
  | KPingresp => Some (aid 13 0)
  | _ => None
  end.
Fixpoint outstanding (s : sys) (g : list reg) (evs : list qev) : list reg :=
  match evs with
  | [] => g
  | QMsg m :: r => outstanding (qstep s (QMsg m)) (g ++ spec_registers s m) r
  | QPkt p :: r => outstanding (qstep s (QPkt p)) (match spec_acks p with Some k => aremove k g | None => g end) r
  end.

(* a completion = (operation, phase, what is put into its oneshot) *)
Definition compl := (N * N * cval)%type.
Definition spec_completes_msg (s : sys) (m : cmsg) : list compl :=
  let '(i, ph) := msg_op m in
  if negb (size_ok (c s) (msg_pkt m)) then [(i, ph, CTooBig)]
  else match m with
       | MFire _ _ => [(i, ph, CUnit)]                            (* nothing to wait for: done once written *)
       | MAwait _ _ _ pkt => if (ptype_of pkt =? 3) && (quota (c s) =? 0) then [(i, ph, CQuota)] else []
       | MSub _ _ _ _ => []
       end.
Definition spec_completes_pkt (g : list reg) (p : rxpkt) : list compl :=
  match spec_acks p with
  | Some k => match alookup k g with Some (i, ph) => [(i, ph, CPkt p)] | None => [] end
  | None => []
  end.
Fixpoint completions (s : sys) (g : list reg) (evs : list qev) : list compl :=
  match evs with
  | [] => []
  | QMsg m :: r => spec_completes_msg s m ++ completions (qstep s (QMsg m)) (g ++ spec_registers s m) r
  | QPkt p :: r => spec_completes_pkt g p ++
                   completions (qstep s (QPkt p)) (match spec_acks p with Some k => aremove k g | None => g end) r
  end.

(* `complete` on the table of operations alone *)
Definition complete_ops (o : list (N * op)) (x : compl) : list (N * op) :=
  let '(i, ph, v) := x in
  match alookup i o with
  | None => o
  | Some e =>
    aset i (if ph =? 1 then mkop (o_kind e) (o_phase e) (fill_chan (o_ch1 e) v) (o_ch2 e) (o_pid e)
            else mkop (o_kind e) (o_phase e) (o_ch1 e) (fill_chan (o_ch2 e) v) (o_pid e)) o
  end.
Lemma complete_ops_eq s i ph v : ops (complete s i ph v) = complete_ops (ops s) (i, ph, v).
Proof. unfold complete, complete_ops. destruct (alookup i (ops s)); reflexivity. Qed.

(* ---- the table of awaited acknowledgements ---------------------------------------------------------------------- *)
Lemma aremove_absent {A} k (l : list (N * A)) : alookup k l = None -> aremove k l = l.
Proof.
  induction l as [|[j a] l IH]; cbn [alookup aremove]; [reflexivity|].
  destruct (j =? k); [discriminate|]. intros H. rewrite (IH H). reflexivity.
Qed.
Lemma ack_waiter_awaiting s a p : awaiting (c (ack_waiter s a p)) = aremove a (awaiting (c s)).
Proof.
  destruct (alookup a (awaiting (c s))) as [[i ph]|] eqn:H.
  - exact (proj2 (ack_waiter_some s a p i ph H)).
  - rewrite (ack_waiter_none s a p H), (aremove_absent a _ H). reflexivity.
Qed.
Lemma dispatch_awaiting s sid p : awaiting (c (dispatch s sid p)) = awaiting (c s).
Proof.
  unfold dispatch. destruct (alookup sid (subs (c s))) as [j|]; [|reflexivity].
  destruct (alookup j (streams s)) as [st|]; [destruct (st_recv st)|]; rewrite ?close_c; reflexivity.
Qed.
Lemma bump_quota_awaiting x : awaiting (bump_quota x) = awaiting x.
Proof. unfold bump_quota. destruct (quota x =? rmax x); reflexivity. Qed.
Lemma await_packet s p :
  awaiting (c (fst (handle_packet s p))) = match spec_acks p with Some k => aremove k (awaiting (c s)) | None => awaiting (c s) end.
Proof.
  unfold handle_packet, spec_acks. cbv zeta. destruct (rk p); cbn [fst]; rewrite ?ack_waiter_awaiting;
    cbn [c set_c awaiting with_retx]; try match goal with |- context [128 <=? r_reason p] => destruct (128 <=? r_reason p) end; rewrite ?bump_quota_awaiting; try reflexivity.
  - (* PUBLISH *)
    match goal with |- awaiting (c (fst (if _ then (?a, _) else (fst (write ?b ?k), _)))) = _ =>
      assert (Ha : awaiting (c a) = awaiting (c s) /\ a = b) end.
    { split; [|reflexivity]. destruct ((r_qos p =? 2) && memN (r_pid p) (await_rel (c s))); cbn [negb andb].
      - rewrite Bool.andb_false_r. reflexivity.
      - destruct (pub_subid p) as [sid|]; rewrite ?dispatch_awaiting; destruct (r_qos p =? 2); reflexivity. }
    destruct Ha as [Ha _]. destruct (r_qos p =? 0); cbn [fst]; rewrite ?write_c; exact Ha.
  - (* PUBREL *) rewrite write_c. reflexivity.
Qed.
Lemma await_message s m : wbudget s = None ->
  awaiting (c (fst (handle_message s m))) = awaiting (c s) ++ spec_registers s m.
Proof.
  intros Hb. unfold handle_message, spec_registers, refused. cbv zeta. destruct m as [i p|i ph a p|i a sid p]; cbn [msg_pkt].
  - destruct (size_ok (c s) p); cbn [negb orb fst]; rewrite ?app_nil_r; [|rewrite complete_c; reflexivity].
    rewrite write_nofault_snd by exact Hb. cbn [negb fst]. rewrite complete_c, write_c. reflexivity.
  - destruct (size_ok (c s) p); cbn [negb orb fst]; [|rewrite complete_c, app_nil_r; reflexivity].
    destruct (ptype_of p =? 3); cbn [andb].
    + destruct (quota (c s) =? 0); cbn [fst]; [rewrite complete_c, app_nil_r; reflexivity|].
      rewrite write_nofault_snd, write_nofault_fst by exact Hb. reflexivity.
    + destruct (ptype_of p =? 6); rewrite write_nofault_snd, write_nofault_fst by exact Hb; reflexivity.
  - destruct (size_ok (c s) p); cbn [negb orb fst]; [|rewrite close_c, complete_c, app_nil_r; reflexivity].
    rewrite write_c. reflexivity.
Qed.

Theorem awaiting_history evs : forall s, wbudget s = None ->
  awaiting (c (run_q s evs)) = outstanding s (awaiting (c s)) evs.
Proof.
  induction evs as [|e evs IH]; intros s Hb; cbn [run_q outstanding]; [reflexivity|].
  rewrite (IH (qstep s e) (qstep_wb_none s e Hb)).
  destruct e as [m|p]; cbn [qstep]; [rewrite await_message by exact Hb|rewrite await_packet]; reflexivity.
Qed.

(* ---- the oneshots: what is completed, with what, in which order --------------------------------------------------- *)
Lemma ack_waiter_ops s a p :
  ops (ack_waiter s a p) = fold_left complete_ops (match alookup a (awaiting (c s)) with Some (i, ph) => [(i, ph, CPkt p)] | None => [] end) (ops s).
Proof.
  destruct (alookup a (awaiting (c s))) as [[i ph]|] eqn:H.
  - rewrite (proj1 (ack_waiter_some s a p i ph H)), complete_ops_eq. reflexivity.
  - rewrite (ack_waiter_none s a p H). reflexivity.
Qed.
Lemma dispatch_ops s sid p : ops (dispatch s sid p) = ops s.
Proof.
  unfold dispatch. destruct (alookup sid (subs (c s))) as [j|]; [|reflexivity].
  destruct (alookup j (streams s)) as [st|]; [destruct (st_recv st)|]; rewrite ?close_ops; reflexivity.
Qed.
Lemma ops_packet s p :
  ops (fst (handle_packet s p)) = fold_left complete_ops (spec_completes_pkt (awaiting (c s)) p) (ops s).
Proof.
  unfold handle_packet, spec_completes_pkt, spec_acks. cbv zeta. destruct (rk p); cbn [fst]; rewrite ?ack_waiter_ops;
    cbn [c set_c ops awaiting with_retx]; try match goal with |- context [128 <=? r_reason p] => destruct (128 <=? r_reason p) end; rewrite ?bump_quota_awaiting; try reflexivity.
  - (* PUBLISH *)
    match goal with |- ops (fst (if _ then (?a, _) else (fst (write ?b ?k), _))) = _ =>
      assert (Ha : ops a = ops s /\ a = b) end.
    { split; [|reflexivity]. destruct ((r_qos p =? 2) && memN (r_pid p) (await_rel (c s))); cbn [negb andb].
      - rewrite Bool.andb_false_r. reflexivity.
      - destruct (pub_subid p) as [sid|]; rewrite ?dispatch_ops; destruct (r_qos p =? 2); reflexivity. }
    destruct Ha as [Ha _]. destruct (r_qos p =? 0); cbn [fst]; rewrite ?write_ops; exact Ha.
  - (* PUBREL *) rewrite write_ops. reflexivity.
Qed.
Lemma ops_message s m : wbudget s = None ->
  ops (fst (handle_message s m)) = fold_left complete_ops (spec_completes_msg s m) (ops s).
Proof.
  intros Hb. unfold handle_message, spec_completes_msg. cbv zeta. destruct m as [i p|i ph a p|i a sid p]; cbn [msg_pkt msg_op].
  - destruct (size_ok (c s) p); cbn [negb fst fold_left]; [|rewrite complete_ops_eq; reflexivity].
    rewrite write_nofault_snd by exact Hb. cbn [negb fst]. rewrite complete_ops_eq, write_ops. reflexivity.
  - destruct (size_ok (c s) p); cbn [negb fst fold_left]; [|rewrite complete_ops_eq; reflexivity].
    destruct (ptype_of p =? 3); cbn [andb].
    + destruct (quota (c s) =? 0); cbn [fst fold_left]; [rewrite complete_ops_eq; reflexivity|].
      rewrite write_nofault_snd, write_nofault_fst by exact Hb. reflexivity.
    + destruct (ptype_of p =? 6); rewrite write_nofault_snd, write_nofault_fst by exact Hb; reflexivity.
  - destruct (size_ok (c s) p); cbn [negb fst fold_left]; [|rewrite close_ops, complete_ops_eq; reflexivity].
    rewrite write_ops. reflexivity.
Qed.

Theorem ops_history evs : forall s, wbudget s = None ->
  ops (run_q s evs) = fold_left complete_ops (completions s (awaiting (c s)) evs) (ops s).
Proof.
  induction evs as [|e evs IH]; intros s Hb; cbn [run_q]; [reflexivity|].
  rewrite (IH (qstep s e) (qstep_wb_none s e Hb)).
  destruct e as [m|p]; cbn [qstep completions]; rewrite fold_left_app.
  - rewrite await_message, ops_message by exact Hb. reflexivity.
  - rewrite await_packet, ops_packet. reflexivity.
Qed.

(* ---- pings: one per PINGRESP, in issue order ----------------------------------------------------------------------- *)
Definition ping_key : N := aid 13 0.
Definition pings (g : list reg) : list (N * N) := map snd (filter (fun r => fst r =? ping_key) g).
(* the specification: a queue *)
Definition is_ping (s : sys) (m : cmsg) : option (N * N) :=
  match m with MAwait i ph a _ => if (a =? ping_key) && negb (refused s m) then Some (i, ph) else None | _ => None end.
Fixpoint ping_answers (s : sys) (q : list (N * N)) (evs : list qev) : list (N * N) :=   (* who is answered, in order *)
  match evs with
  | [] => []
  | QMsg m :: r => ping_answers (qstep s (QMsg m)) (match is_ping s m with Some x => q ++ [x] | None => q end) r
  | QPkt p :: r =>
    match rk p with
    | KPingresp => match q with x :: q' => x :: ping_answers (qstep s (QPkt p)) q' r | [] => ping_answers (qstep s (QPkt p)) [] r end
    | _ => ping_answers (qstep s (QPkt p)) q r
    end
  end.
Definition by_pingresp (x : compl) : bool :=
  match snd x with CPkt p => match rk p with KPingresp => true | _ => false end | _ => false end.
Definition pingresp_completions (l : list compl) : list (N * N) := map fst (filter by_pingresp l).

Lemma pings_app g h : pings (g ++ h) = pings g ++ pings h.
Proof. unfold pings. rewrite filter_app, map_app. reflexivity. Qed.
Lemma pings_head g : alookup ping_key g = hd_error (pings g).
Proof.
  unfold pings. induction g as [|[k x] g IH]; cbn [alookup filter map fst]; [reflexivity|].
  destruct (k =? ping_key); [reflexivity|exact IH].
Qed.
Lemma pings_remove_ping g : pings (aremove ping_key g) = tl (pings g).
Proof.
  unfold pings. induction g as [|[k x] g IH]; cbn [aremove filter map fst]; [reflexivity|].
  destruct (k =? ping_key) eqn:E; [reflexivity|]. cbn [filter fst]. rewrite E. exact IH.
Qed.
Lemma pings_remove_other k g : k <> ping_key -> pings (aremove k g) = pings g.
Proof.
  intros Hk. unfold pings. induction g as [|[j x] g IH]; cbn [aremove filter map fst]; [reflexivity|].
  destruct (j =? k) eqn:E.
  - apply N.eqb_eq in E. subst j. apply N.eqb_neq in Hk. rewrite Hk. reflexivity.
  - cbn [filter fst]. destruct (j =? ping_key); cbn [map]; rewrite IH; reflexivity.
Qed.
Lemma aid_ne_ping t pid : pid < 65536 -> t <> 13 -> aid t pid <> ping_key.
Proof. intros Hp Ht H. destruct (aid_inj t pid 13 0 Hp ltac:(lia) H) as [E _]. contradiction. Qed.
(* inbound packets carry u16 identifiers (Proofs/ByteRangeP.v: every decoded packet does) *)
Definition pid_ok (e : qev) : Prop := match e with QPkt p => r_pid p < 65536 | QMsg _ => True end.
(* a subscribe request is keyed by a SUBACK key, never by the ping key (handle.rs builds aid 9 pid) *)
Definition sub_key_ok (e : qev) : Prop := match e with QMsg (MSub _ a _ _) => a <> ping_key | _ => True end.

Theorem pings_fifo evs : forall s g, Forall pid_ok evs -> Forall sub_key_ok evs ->
  pingresp_completions (completions s g evs) = ping_answers s (pings g) evs.
Proof.
  induction evs as [|e evs IH]; intros s g Hp Hk; [reflexivity|].
  inversion Hp as [|? ? Hp1 Hp2]; subst. inversion Hk as [|? ? Hk1 Hk2]; subst.
  unfold pingresp_completions in *.
  destruct e as [m|p]; cbn [completions ping_answers]; rewrite filter_app, map_app.
  - rewrite (IH _ _ Hp2 Hk2), pings_app.
    assert (H1 : filter by_pingresp (spec_completes_msg s m) = []).
    { unfold spec_completes_msg. destruct (msg_op m) as [i ph]. destruct (negb (size_ok (c s) (msg_pkt m))); [reflexivity|].
      destruct m as [? ?|? ? ? pk|? ? ? ?]; try reflexivity. destruct ((ptype_of pk =? 3) && (quota (c s) =? 0)); reflexivity. }
    rewrite H1. cbn [map app].
    assert (H2 : pings (spec_registers s m) = match is_ping s m with Some x => [x] | None => [] end).
    { unfold spec_registers, is_ping, pings. destruct m as [i p|i ph a p|i a sid p].
      - destruct (refused s _); reflexivity.
      - destruct (refused s _); cbn [negb]; [rewrite Bool.andb_false_r; reflexivity|].
        cbn [filter fst]. destruct (a =? ping_key); reflexivity.
      - destruct (refused s _); [reflexivity|]. cbn [filter fst]. cbn [sub_key_ok] in Hk1.
        apply N.eqb_neq in Hk1. rewrite Hk1. reflexivity. }
    rewrite H2. destruct (is_ping s m); [reflexivity|rewrite app_nil_r; reflexivity].
  - rewrite (IH _ _ Hp2 Hk2). cbn [pid_ok] in Hp1. unfold spec_completes_pkt, spec_acks.
    destruct (rk p) eqn:Hr; cbn [filter map app];
      try (match goal with |- context [aid 13 0] => fail 1 | _ => idtac end; rewrite pings_remove_other by (apply aid_ne_ping; [exact Hp1|lia]));
      try (match goal with |- context [aid 13 0] => fail 1 | |- context [alookup ?k g] => destruct (alookup k g) as [[i ph]|] end; cbn [filter]; unfold by_pingresp; cbn [snd]; rewrite ?Hr; reflexivity);
      try reflexivity.
    (* PINGRESP *)
    fold ping_key. rewrite pings_head, pings_remove_ping.
    destruct (pings g) as [|[i ph] q]; cbn [hd_error tl filter map app]; [reflexivity|].
    unfold by_pingresp. cbn [snd]. rewrite Hr. reflexivity.
Qed.

(* the acknowledgement that completes an operation bears the key this operation registered and nobody registered
   earlier and still waits on: by definition of `completions` it is the first entry of `outstanding` with that key. *)
Theorem completion_is_first_outstanding g p i ph :
  In (i, ph, CPkt p) (spec_completes_pkt g p) ->
  exists k, spec_acks p = Some k /\ alookup k g = Some (i, ph).
Proof.
  unfold spec_completes_pkt. destruct (spec_acks p) as [k|]; [|intros []].
  destruct (alookup k g) as [[i' ph']|] eqn:H; [|intros []].
  intros [E|[]]. injection E as -> ->. exists k. split; [reflexivity|exact H].
Qed.

(* ---- the same for one poll of the Context task (script layer): its explicit history is `trace` (Proofs/TraceP.v) ------- *)
From Poster Require Import Model.Sim Proofs.RefineP Proofs.TraceP.
Theorem awaiting_after_poll s : cph s = CRunning -> hold s = false -> ctx_alive s = true -> wbudget s = None ->
  awaiting (c (settle s)) = outstanding s (awaiting (c s)) (trace (settle_fuel s) s) /\
  ops (settle s) = fold_left complete_ops (completions s (awaiting (c s)) (trace (settle_fuel s) s)) (ops s).
Proof.
  intros Hc Hh Ha Hb. rewrite <- (awaiting_history _ s Hb), <- (ops_history _ s Hb).
  unfold settle. rewrite Hh, Ha. cbn [orb negb]. destruct (settle_loop_trace (settle_fuel s) s Hc) as [Hv _].
  unfold view in Hv. split; [f_equal|]; congruence.
Qed.
