(* Extraction of the executable model (and, later, the spec oracles) for modelrun.
   ExtrOcamlBasic only: bool, option, list, prod, unit, sumbool map to OCaml's; N, positive,
   nat, string and ascii stay the extracted inductives. *)
From Coq Require Import Extraction ExtrOcamlBasic.
From Poster Require Import Model.Sim.
Extraction Language OCaml.
Extraction "model.ml" run_script step sys_init view_connack view_connect_error view_auth view_ack view_suback
  view_disconnected view_publish dec_packet venc vdec.
