(* C03 - framing is independent of how the byte stream is chunked; no lost wakeups.
   Model: Model/Framing.v (RxPacketStream::poll_next over a scripted AsyncRead: a list of
   segments, each read takes min(capacity, segment) bytes of the head segment; Pending when the
   list is empty; end-of-stream / error flags).  Reference: Spec/Frames.v, the standard's framing. *)
From Poster Require Import Model.Framing Spec.Frames Proofs.FramingP Proofs.FramingMainP.

(* one poll, from any state satisfying the framing invariant, on any transport script: it ends in
   an item that is exactly the reference frame at the front of (received ++ still to come), or in
   Pending with every delivered byte consumed, no whole packet withheld and the transport's own
   Pending just observed (waker registered), or in End because the transport ended or the length
   field is malformed beyond repair - never a panic, never out of fuel *)
Theorem C03_poll : forall (fuel : nat) (x : rx) (rd : reader) (W : bytes),
  Inv x W -> nonempty_segs rd -> need (fstate x) rd <= N.of_nat fuel ->
  match fpoll fuel x rd with
  | (FItem p, x', rd') =>
      exists W', Inv x' W' /\ nonempty_segs rd' /\ flags_same rd rd' /\
                 frame1 (W ++ avail rd) = Frame p (W' ++ avail rd')
  | (FPending, x', rd') =>
      Inv x' (W ++ avail rd) /\ fstate x' = Idle /\ segs rd' = [] /\ ~ ended rd' /\ flags_same rd rd'
  | (FEnd, x', rd') =>
      (Inv x' (W ++ avail rd) /\ fstate x' = Idle /\ segs rd' = [] /\ ended rd' /\ flags_same rd rd') \/
      (dead (W ++ avail rd) /\ flags_same rd rd' /\ nonempty_segs rd' /\ exists W', Inv x' W')
  | _ => False
  end.
Proof. exact poll_spec. Qed.
Print Assumptions C03_poll.

(* the run loop's fuel is always enough *)
Theorem C03_fuel : forall st rd, need st rd <= N.of_nat (poll_fuel rd).
Proof. exact poll_fuel_enough. Qed.
Print Assumptions C03_fuel.

(* successive polls from the initial state: the packets yielded are exactly the reference frames
   of the whole byte stream, whatever the chunking; the stream stops only at Pending (transport has
   nothing more and has not ended; the unframed remainder is kept) or at End, and End is reported
   only when the transport has ended or the next length field is malformed *)
Theorem C03_drain : forall (n : nat) (x : rx) (rd : reader) (W : bytes) ps o x' rd',
  Inv x W -> nonempty_segs rd -> drain n x rd = (ps, Some (o, x', rd')) ->
  exists rest, Frames (W ++ avail rd) ps rest /\ flags_same rd rd' /\
    match o with
    | FPending => Inv x' rest /\ segs rd' = [] /\ ~ ended rd'
    | FEnd => (Inv x' rest /\ segs rd' = [] /\ ended rd') \/ dead rest
    | _ => False
    end.
Proof. exact drain_frames. Qed.
Print Assumptions C03_drain.

Theorem C03_drain_terminates : forall (n : nat) (x : rx) (rd : reader) (W : bytes),
  Inv x W -> nonempty_segs rd -> lenN (W ++ avail rd) < 2 * N.of_nat n -> snd (drain n x rd) <> None.
Proof. exact drain_terminates. Qed.
Print Assumptions C03_drain_terminates.

(* the property: two chunkings of the same byte stream yield the same packets in the same order *)
Theorem C03_chunk_independent : forall rd1 rd2 n1 n2 ps1 ps2 e1 e2,
  nonempty_segs rd1 -> nonempty_segs rd2 -> avail rd1 = avail rd2 ->
  drain n1 rx_init rd1 = (ps1, Some e1) -> drain n2 rx_init rd2 = (ps2, Some e2) -> ps1 = ps2.
Proof. exact chunk_independent. Qed.
Print Assumptions C03_chunk_independent.

(* ... namely the packets themselves, as when each arrives in a read of its own *)
Theorem C03_same_as_packet_per_read : forall ps rd n qs e,
  Forall whole_packet ps -> nonempty_segs rd -> avail rd = concat ps ->
  drain n rx_init rd = (qs, Some e) -> qs = ps.
Proof. exact same_as_packet_per_read. Qed.
Print Assumptions C03_same_as_packet_per_read.

(* no lost wakeup, stated for EVERY state and script (no invariant needed): Pending is returned only
   when the transport has nothing available and has not ended *)
Theorem C03_no_lost_wakeup : forall (fuel : nat) (x : rx) (rd : reader) (x' : rx) (rd' : reader),
  fpoll fuel x rd = (FPending, x', rd') ->
  segs rd' = [] /\ r_eof rd' = false /\ r_err rd' = false /\ fstate x' = Idle.
Proof. exact fpoll_pending_registered. Qed.
Print Assumptions C03_no_lost_wakeup.

(* non-vacuity: PINGRESP, a 3-byte-header packet and a PUBACK cut at awkward places (a 1-byte
   first read, a cut inside the length field, a cut one byte into the next packet) *)
Example C03_nonvacuous :
  let pk := [[208; 0]; 48 :: 130 :: 1 :: repeat 7 130; [64; 2; 0; 1]] in
  let s := concat pk in
  Forall whole_packet pk /\
  fst (drain 10 rx_init (mkrd [takeN 1 s; takeN 2 (dropN 1 s); takeN 131 (dropN 3 s); dropN 134 s] false false)) = pk /\
  fst (drain 10 rx_init (mkrd (map (fun b => [b]) s) true false)) = pk.
Proof. vm_compute. repeat split; repeat constructor. Qed.
