(* Reference framing of an MQTT byte stream, written from the standard (section 2.1: fixed header =
   one byte, then the Remaining Length as a variable byte integer, then that many bytes),
   independent of the packet stream implementation. *)
From Poster Require Export Model.Varint.

Inductive fr1 := Frame (p rest : bytes) | Incomplete | Malformed.

(* the first control packet of a byte string, if it is completely there *)
Definition frame1 (s : bytes) : fr1 :=
  match s with
  | [] => Incomplete
  | _ :: r =>
    match vdec r with
    | VOk v l => if 1 + l + v <=? lenN s then Frame (takeN (1 + l + v) s) (dropN (1 + l + v) s) else Incomplete
    | VInsufficient => Incomplete
    | _ => Malformed
    end
  end.

Definition noframe (s : bytes) : Prop := match frame1 s with Frame _ _ => False | _ => True end.

(* `Frames s ps rest`: ps is the sequence of whole control packets at the front of s, up to the
   first point `rest` where no whole packet follows (end of data, incomplete packet, malformed length) *)
Inductive Frames : bytes -> list bytes -> bytes -> Prop :=
| FramesStop s : noframe s -> Frames s [] s
| FramesCons s p r ps rest : frame1 s = Frame p r -> Frames r ps rest -> Frames s (p :: ps) rest.

(* no continuation of the stream can ever complete a packet here: the length field is malformed *)
Definition dead (s : bytes) : Prop := forall e, noframe (s ++ e).

(* executable version, for examples and for the correspondence driver *)
Fixpoint frames_f (fuel : nat) (s : bytes) : list bytes * bytes :=
  match fuel with
  | O => ([], s)
  | S f => match frame1 s with
           | Frame p r => let (ps, t) := frames_f f r in (p :: ps, t)
           | _ => ([], s)
           end
  end.
Definition frames (s : bytes) : list bytes * bytes := frames_f (List.length s) s.

(* a whole control packet: its own framing consumes it exactly *)
Definition whole_packet (p : bytes) : Prop := frame1 p = Frame p [].
