"""MQTT 5 byte-level helpers for the generators and the trace oracles (written from the standard).
Everything the implementation is fed is plain hex in the case script, so a mistake here shows up
as a disagreement, never as a silent pass of a property theorem."""


def hx(b):
    b = bytes(b)
    return b.hex() if b else "-"


def unhex(s):
    out = bytearray()
    for part in s.split("+"):
        if part in ("-", ""):
            continue
        if part[0] == "r":
            cnt, byte = part[1:].split("x")
            out += bytes([int(byte, 16)]) * int(cnt)
        else:
            out += bytes.fromhex(part)
    return bytes(out)


def varint(n):
    out = bytearray()
    while True:
        d = n % 128
        n //= 128
        if n:
            out.append(d | 128)
        else:
            out.append(d)
            return bytes(out)


def u16(n):
    return bytes([(n >> 8) & 255, n & 255])


def u32(n):
    return bytes([(n >> 24) & 255, (n >> 16) & 255, (n >> 8) & 255, n & 255])


def binf(b):
    return u16(len(b)) + bytes(b)


# property table of the standard: id -> type
PTYPE = {1: "byte", 2: "u32", 3: "str", 8: "str", 9: "bin", 11: "var", 17: "u32", 18: "str", 19: "u16",
         21: "str", 22: "bin", 23: "byte", 24: "u32", 25: "byte", 26: "str", 28: "str", 31: "str",
         33: "u16", 34: "u16", 35: "u16", 36: "byte", 37: "byte", 38: "pair", 39: "u32", 40: "byte",
         41: "byte", 42: "byte"}


def prop(pid, val):
    t = PTYPE[pid]
    if t == "byte":
        return bytes([pid, val])
    if t == "u16":
        return bytes([pid]) + u16(val)
    if t == "u32":
        return bytes([pid]) + u32(val)
    if t == "var":
        return bytes([pid]) + varint(val)
    if t in ("str", "bin"):
        return bytes([pid]) + binf(val)
    k, v = val
    return bytes([pid]) + binf(k) + binf(v)


def props(ps):
    body = b"".join(prop(i, v) for i, v in ps)
    return varint(len(body)) + body


def packet(hdr, body):
    return bytes([hdr]) + varint(len(body)) + bytes(body)


def connack(sp=0, reason=0, ps=()):
    return packet(0x20, bytes([sp, reason]) + props(ps))


def ack(hdr, pid, reason=0, ps=(), form="auto"):
    """PUBACK 0x40, PUBREC 0x50, PUBREL 0x62, PUBCOMP 0x70"""
    if form == "auto":
        form = "short2" if reason == 0 and not ps else ("short3" if not ps else "long")
    if form == "short2":
        return packet(hdr, u16(pid))
    if form == "short3":
        return packet(hdr, u16(pid) + bytes([reason]))
    return packet(hdr, u16(pid) + bytes([reason]) + props(ps))


def puback(pid, reason=0, ps=(), form="auto"):
    return ack(0x40, pid, reason, ps, form)


def pubrec(pid, reason=0, ps=(), form="auto"):
    return ack(0x50, pid, reason, ps, form)


def pubrel(pid, reason=0, ps=(), form="auto"):
    return ack(0x62, pid, reason, ps, form)


def pubcomp(pid, reason=0, ps=(), form="auto"):
    return ack(0x70, pid, reason, ps, form)


def suback(pid, codes=(0,), ps=()):
    return packet(0x90, u16(pid) + props(ps) + bytes(codes))


def unsuback(pid, codes=(0,), ps=()):
    return packet(0xb0, u16(pid) + props(ps) + bytes(codes))


def pingresp():
    return bytes([0xd0, 0])


def publish(topic=b"a", payload=b"", qos=0, pid=None, dup=0, retain=0, ps=()):
    body = binf(topic)
    if qos:
        body += u16(pid)
    body += props(ps) + bytes(payload)
    return packet(0x30 | (dup << 3) | (qos << 1) | retain, body)


def disconnect(reason=0, ps=(), form="auto"):
    if form == "auto":
        form = "short0" if reason == 0 and not ps else ("short1" if not ps else "long")
    if form == "short0":
        return bytes([0xe0, 0])
    if form == "short1":
        return bytes([0xe0, 1, reason])
    return packet(0xe0, bytes([reason]) + props(ps))


def auth(reason=0, ps=(), form="auto"):
    if form == "auto":
        form = "short0" if reason == 0 and not ps else "long"
    if form == "short0":
        return bytes([0xf0, 0])
    return packet(0xf0, bytes([reason]) + props(ps))


# ---- reference framer / decoder of what the CLIENT writes (for the trace oracles) -----------------

def read_varint(b, i):
    mult, val = 1, 0
    for k in range(4):
        if i + k >= len(b):
            return None
        val += (b[i + k] & 127) * mult
        mult *= 128
        if not b[i + k] & 128:
            return val, i + k + 1
    return None


def split_packets(b):
    """wire bytes -> list of whole packets, or None when the bytes are not a concatenation of packets"""
    out, i = [], 0
    while i < len(b):
        if i + 1 >= len(b):
            return None
        r = read_varint(b, i + 1)
        if r is None:
            return None
        n, j = r
        if j + n > len(b):
            return None
        out.append(bytes(b[i:j + n]))
        i = j + n
    return out


def tx_info(p):
    """light decode of a client packet: kind, pid, dup, qos (enough for the trace monitors)"""
    t = p[0] >> 4
    r = read_varint(p, 1)
    body = p[r[1]:]
    kinds = {1: "connect", 3: "publish", 4: "puback", 5: "pubrec", 6: "pubrel", 7: "pubcomp",
             8: "subscribe", 10: "unsubscribe", 12: "pingreq", 14: "disconnect", 15: "auth"}
    d = {"kind": kinds.get(t, "?%d" % t), "flags": p[0] & 15, "len": len(p), "raw": p}
    if t == 3:
        d["dup"], d["qos"], d["retain"] = (p[0] >> 3) & 1, (p[0] >> 1) & 3, p[0] & 1
        tl = (body[0] << 8) | body[1]
        d["topic"] = body[2:2 + tl]
        k = 2 + tl
        if d["qos"]:
            d["pid"] = (body[k] << 8) | body[k + 1]
            k += 2
        pl, k2 = read_varint(body, k)
        d["props_raw"] = body[k2:k2 + pl]
        d["payload"] = body[k2 + pl:]
    elif t in (4, 5, 6, 7, 8, 10):
        d["pid"] = (body[0] << 8) | body[1]
        if t == 8:
            pl, k2 = read_varint(body, 2)
            pr = body[k2:k2 + pl]
            if pr[:1] == b"\x0b":
                d["subid"] = read_varint(pr, 1)[0]
    return d
