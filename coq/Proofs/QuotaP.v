(* C10: the send-quota accounting identity over every history of handler steps. *)
From Poster Require Import Model.Client Proofs.BytesP Proofs.ClientP.
From Coq Require Import ZArith ZifyN ZifyBool ZifyNat.
Ltac Zify.zify_post_hook ::= Z.div_mod_to_equations.
Arguments N.add : simpl never. Arguments N.mul : simpl never. Arguments N.sub : simpl never.
Arguments N.ltb : simpl never. Arguments N.leb : simpl never. Arguments N.eqb : simpl never.
Arguments N.shiftr : simpl never. Arguments N.lor : simpl never. Arguments N.div : simpl never.
Arguments N.modulo : simpl never.

(* a step of the Context: it takes a handle message or an inbound packet *)
Inductive qev := QMsg (m : cmsg) | QPkt (p : rxpkt).
Definition qstep (s : sys) (e : qev) : sys :=
  match e with QMsg m => fst (handle_message s m) | QPkt p => fst (handle_packet s p) end.

(* ghost (specification) state: the QoS>0 PUBLISHes written and not yet completed, as
   (expected first acknowledgement type 4 = PUBACK / 5 = PUBREC, packet identifier) *)
Definition key := (N * N)%type.
Definition key_eqb (a b : key) : bool := (fst a =? fst b) && (snd a =? snd b).
Fixpoint kmem (k : key) (g : list key) : bool :=
  match g with [] => false | x :: r => key_eqb x k || kmem k r end.
Fixpoint kremove (k : key) (g : list key) : list key :=
  match g with [] => [] | x :: r => if key_eqb x k then r else x :: kremove k r end.
Definition key_of_aid (a : N) : key := (a / 16777216, (a / 256) mod 65536).

(* is this message a QoS>0 PUBLISH that the context sends (fits, quota left)? *)
Definition sends_publish (s : sys) (m : cmsg) : option key :=
  match m with
  | MAwait _ _ a pkt =>
    if size_ok (c s) pkt && (ptype_of pkt =? 3) && negb (quota (c s) =? 0) then Some (key_of_aid a) else None
  | _ => None
  end.
(* the completion an inbound packet stands for, per the property: PUBACK, PUBCOMP, PUBREC >= 0x80 *)
Definition completes (p : rxpkt) : option key :=
  match rk p with
  | KPuback => Some (4, r_pid p)
  | KPubcomp => Some (5, r_pid p)
  | KPubrec => if 128 <=? r_reason p then Some (5, r_pid p) else None
  | _ => None
  end.

(* run a history, maintaining the ghost; None = the history is not conformant (an
   acknowledgement completes something that is not in flight) *)
Fixpoint conf_run (s : sys) (g : list key) (evs : list qev) : option (sys * list key) :=
  match evs with
  | [] => Some (s, g)
  | QMsg m :: r =>
    conf_run (qstep s (QMsg m)) (match sends_publish s m with Some k => g ++ [k] | None => g end) r
  | QPkt p :: r =>
    match completes p with
    | Some k => if kmem k g then conf_run (qstep s (QPkt p)) (kremove k g) r else None
    | None => conf_run (qstep s (QPkt p)) g r
    end
  end.

Lemma kremove_len k g : kmem k g = true -> lenN (kremove k g) + 1 = lenN g.
Proof.
  induction g as [|x r IH]; cbn [kmem kremove]; [discriminate|].
  destruct (key_eqb x k); cbn [orb]; intros H.
  - rewrite lenN_cons. reflexivity.
  - rewrite !lenN_cons, <- (IH H). lia.
Qed.

Lemma handle_message_wb_none s m : wbudget s = None -> wbudget (fst (handle_message s m)) = None.
Proof.
  intros Hb. unfold handle_message. cbv zeta.
  destruct m as [i p|i ph a p|i a sid p].
  - destruct (negb (size_ok (c s) p)); cbn [fst]; [rewrite complete_wbudget; exact Hb|].
    rewrite write_nofault_snd, write_nofault_fst by exact Hb. cbn [negb fst]. rewrite complete_wbudget. reflexivity.
  - destruct (negb (size_ok (c s) p)); cbn [fst]; [rewrite complete_wbudget; exact Hb|].
    destruct (ptype_of p =? 3).
    + destruct (quota (c s) =? 0); cbn [fst]; [rewrite complete_wbudget; exact Hb|].
      rewrite write_nofault_snd, write_nofault_fst by exact Hb. reflexivity.
    + destruct (ptype_of p =? 6); rewrite write_nofault_snd, write_nofault_fst by exact Hb; reflexivity.
  - destruct (negb (size_ok (c s) p)); cbn [fst].
    + unfold close_stream_sender. destruct (alookup i (streams _)); cbn [wbudget set_streams];
        rewrite complete_wbudget; exact Hb.
    + rewrite write_nofault_fst by exact Hb. reflexivity.
Qed.
Lemma qstep_wb_none s e : wbudget s = None -> wbudget (qstep s e) = None.
Proof.
  intros Hb. destruct e as [m|p]; cbn [qstep].
  - apply handle_message_wb_none; exact Hb.
  - pose proof (handle_packet_wire s p Hb) as H. unfold wb in H. injection H as _ H2. exact H2.
Qed.

(* effect of one message on (quota, rmax) *)
Lemma handle_message_qr s m : wbudget s = None ->
  qr (c (fst (handle_message s m))) =
  match sends_publish s m with Some _ => (quota (c s) - 1, rmax (c s)) | None => qr (c s) end.
Proof.
  intros Hb. unfold handle_message, sends_publish, qr. cbv zeta.
  destruct m as [i p|i ph a p|i a sid p].
  - destruct (negb (size_ok (c s) p)); cbn [fst]; [rewrite complete_c; reflexivity|].
    rewrite write_nofault_snd, write_nofault_fst by exact Hb. cbn [negb fst]. rewrite complete_c. reflexivity.
  - destruct (size_ok (c s) p); cbn [negb andb fst]; [|rewrite complete_c; reflexivity].
    destruct (ptype_of p =? 3); cbn [andb].
    + destruct (quota (c s) =? 0); cbn [negb fst]; [rewrite complete_c; reflexivity|].
      rewrite write_nofault_snd, write_nofault_fst by exact Hb. reflexivity.
    + destruct (ptype_of p =? 6); rewrite write_nofault_snd, write_nofault_fst by exact Hb; reflexivity.
  - destruct (negb (size_ok (c s) p)); cbn [fst]; [rewrite close_c, complete_c; reflexivity|].
    rewrite write_nofault_fst by exact Hb. reflexivity.
Qed.

(* effect of one packet on (quota, rmax) *)
Lemma handle_packet_qr s p :
  qr (c (fst (handle_packet s p))) =
  match completes p with Some _ => qr (bump_quota (c s)) | None => qr (c s) end.
Proof.
  unfold handle_packet, completes. cbv zeta. destruct (rk p); cbn [fst]; rewrite ?ack_waiter_qr; try reflexivity.
  - destruct (r_qos p =? 0); cbn [fst]; rewrite ?write_c;
      repeat match goal with
      | |- context [if ?b then _ else _] => destruct b
      | |- context [match pub_subid p with _ => _ end] => destruct (pub_subid p)
      end; rewrite ?dispatch_qr; reflexivity.
  - destruct (128 <=? r_reason p); reflexivity.
  - rewrite write_c. reflexivity.
Qed.
Lemma bump_qr x : qr (bump_quota x) = (if quota x =? rmax x then quota x else quota x + 1, rmax x).
Proof. unfold bump_quota, qr. destruct (quota x =? rmax x); reflexivity. Qed.

Theorem conf_run_inv evs : forall s g s' g',
  wbudget s = None -> quota (c s) + lenN g = rmax (c s) ->
  conf_run s g evs = Some (s', g') ->
  quota (c s') + lenN g' = rmax (c s') /\ rmax (c s') = rmax (c s) /\ wbudget s' = None.
Proof.
  induction evs as [|e evs IH]; intros s g s' g' Hb Hq Hr; cbn [conf_run] in Hr.
  - inversion Hr; subst. auto.
  - destruct e as [m|p].
    + pose proof (handle_message_qr s m Hb) as Hm. unfold qr in Hm.
      apply IH in Hr; [| apply qstep_wb_none; exact Hb |].
      * destruct Hr as [H1 [H2 H3]]. split; [exact H1|]. split; [|exact H3].
        rewrite H2. cbn [qstep]. destruct (sends_publish s m); inversion Hm; reflexivity.
      * cbn [qstep]. destruct (sends_publish s m) as [k|] eqn:Es; inversion Hm as [[E1 E2]]; rewrite E1, E2.
        -- rewrite lenN_app. change (lenN [k]) with 1.
           assert (quota (c s) <> 0).
           { unfold sends_publish in Es. destruct m; try discriminate.
             destruct (quota (c s) =? 0) eqn:E0; [|apply N.eqb_neq; exact E0].
             rewrite !andb_false_r in Es. discriminate. }
           lia.
        -- exact Hq.
    + pose proof (handle_packet_qr s p) as Hp.
      destruct (completes p) as [k|] eqn:Ec.
      * destruct (kmem k g) eqn:Ek; [|discriminate]. rewrite bump_qr in Hp. unfold qr in Hp.
        pose proof (kremove_len k g Ek) as Hl.
        apply IH in Hr; [| apply qstep_wb_none; exact Hb |].
        -- destruct Hr as [H1 [H2 H3]]. split; [exact H1|]. split; [|exact H3]. rewrite H2. cbn [qstep].
           inversion Hp; reflexivity.
        -- cbn [qstep]. inversion Hp as [[E1 E2]]. rewrite E1, E2.
           destruct (quota (c s) =? rmax (c s)) eqn:E; [apply N.eqb_eq in E|]; lia.
      * apply IH in Hr; [| apply qstep_wb_none; exact Hb |].
        -- destruct Hr as [H1 [H2 H3]]. split; [exact H1|]. split; [|exact H3]. rewrite H2. cbn [qstep].
           unfold qr in Hp. inversion Hp; reflexivity.
        -- cbn [qstep]. unfold qr in Hp. inversion Hp as [[E1 E2]]. rewrite E1, E2. exact Hq.
Qed.

Corollary inflight_bound evs s g s' g' :
  wbudget s = None -> quota (c s) + lenN g = rmax (c s) ->
  conf_run s g evs = Some (s', g') -> lenN g' <= rmax (c s).
Proof. intros Hb Hq Hr. destruct (conf_run_inv evs s g s' g' Hb Hq Hr) as [H1 [H2 _]]. lia. Qed.

(* refusal at quota = 0 *)
Lemma quota_refusal s i ph a pkt :
  size_ok (c s) pkt = true -> ptype_of pkt = 3 -> quota (c s) = 0 ->
  let s' := fst (handle_message s (MAwait i ph a pkt)) in
  snd (handle_message s (MAwait i ph a pkt)) = Continue /\
  c s' = c s /\ wire_ev s' = wire_ev s /\ ops s' = ops (complete s i ph CQuota).
Proof.
  intros Hs Ht Hq. unfold handle_message. rewrite Hs, Ht, Hq. cbn [negb N.eqb fst snd].
  change (3 =? 3) with true. change (0 =? 0) with true. cbv iota. cbn [fst snd].
  rewrite complete_c, complete_wire. auto.
Qed.

(* everything but a QoS>0 PUBLISH leaves the quota alone *)
Lemma quota_untouched s m :
  (forall i ph a p, m = MAwait i ph a p -> ptype_of p <> 3) ->
  quota (c (fst (handle_message s m))) = quota (c s).
Proof.
  intros Hn. unfold handle_message. cbv zeta. destruct m as [i p|i ph a p|i a sid p].
  - destruct (negb (size_ok (c s) p)); cbn [fst]; [rewrite complete_c; reflexivity|].
    destruct (negb (snd (write s p))); cbn [fst]; rewrite ?cancel_c, ?complete_c, ?write_c; reflexivity.
  - destruct (negb (size_ok (c s) p)); cbn [fst]; [rewrite complete_c; reflexivity|].
    replace (ptype_of p =? 3) with false by (symmetry; apply N.eqb_neq; eapply Hn; reflexivity).
    destruct (ptype_of p =? 6); destruct (negb (snd (write s p))); cbn [fst];
      rewrite ?cancel_c, ?write_c; reflexivity.
  - destruct (negb (size_ok (c s) p)); cbn [fst]; [rewrite close_c, complete_c; reflexivity|].
    rewrite write_c. reflexivity.
Qed.
