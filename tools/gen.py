"""Case generators (DESIGN.md 4.3): one PRNG, three streams per property (corpus, structured,
malformed/adversarial).  A case = {"id", "script", "tags": [...], "nontrivial": bool, "meta": {...}}."""
import mqtt as M

TRUSTED_BASE = [
    "Coq 8.16.1 kernel (coqc) and its VM (vm_compute is used for finite sweeps and witnesses); no native_compute",
    "axioms: none (Print Assumptions of every property theorem must say 'Closed under the global context')",
    "extraction to OCaml with ExtrOcamlBasic only (Extract Inductive bool/option/list/prod/unit/sumbool/comparison; no Extract Constant), OCaml 4.13.1, hand-written driver modelrun/drv.ml (parser/printer)",
    "correspondence check: harness/src/main.rs (mock transport, strict executor, script interpreter), tools/gen.py, tools/oracle.py, ./check",
    "modelled, not verified: futures oneshot/mpsc/select!, async fn state machines, write_all, BytesMut/Bytes, str::from_utf8, derive_builder, AtomicU16/U32::fetch_add, Drop of Context (Model/Client.v states the assumed behaviour)",
]
RULES = {}
ASSUMPTIONS = {}

CONNACK = "2003000000"
PRE = "connect ; deliver %s ; run" % CONNACK          # events 0,1,2


def canon(pid, lines):
    """what the correspondence compares for this property (observables at the property's level)"""
    return [l for l in lines]


def case(cid, script, tags=(), nontrivial=True, **meta):
    return {"id": cid, "script": script, "tags": list(tags), "nontrivial": nontrivial, "meta": meta}


def hx(b):
    return M.hx(b)


# ------------------------------------------------------------------------------------------------
GENERATORS = {}


def generator(pid, rule, assumptions=()):
    def deco(f):
        GENERATORS[pid] = f
        RULES[pid] = rule
        ASSUMPTIONS[pid] = list(assumptions)
        return f
    return deco


def generate(pid, tier, rng):
    cases = GENERATORS[pid](tier, rng)
    seen, out = set(), []
    for c in cases:
        if c["id"] in seen:
            raise Exception("duplicate case id " + c["id"])
        seen.add(c["id"])
        out.append(c)
    return out


import gen_codec    # noqa: E402,F401  (C01 C02 C03 C04)
import gen_client   # noqa: E402,F401  (C05 .. C17)
