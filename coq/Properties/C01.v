(* C01 - every packet written is well-formed MQTT 5 and carries the caller's options. *)
From Poster Require Import Model.Tx Proofs.VarintP Proofs.CodecP.

(* a request is refused (Err, nothing encoded, nothing written) exactly when a mandatory part is
   missing: no topic; no topic filter; authentication data without a method; extended
   authentication without both method and data *)
Theorem C01_refused_publish : forall o pid, enc_publish o pid = Err <-> po_topic o = None.
Proof.
  intros o pid. unfold enc_publish. destruct (po_topic o) as [t|]; split; intros H; try reflexivity; try discriminate.
  exfalso. exact (enc_packet_not_err _ _ H).
Qed.
Print Assumptions C01_refused_publish.
Theorem C01_refused_subscribe : forall o pid sid, vlen sid <> None ->
  (enc_subscribe o pid sid = Err <-> so_filters o = []).
Proof.
  intros o pid sid Hs. unfold enc_subscribe. destruct (so_filters o) as [|f fs]; split; intros H; try reflexivity; try discriminate.
  destruct (vlen sid); [|contradiction]. exfalso. exact (enc_packet_not_err _ _ H).
Qed.
Print Assumptions C01_refused_subscribe.
Theorem C01_refused_unsubscribe : forall o pid, enc_unsubscribe o pid = Err <-> uo_filters o = [].
Proof.
  intros o pid. unfold enc_unsubscribe. destruct (uo_filters o) as [|f fs]; split; intros H; try reflexivity; try discriminate.
  exfalso. exact (enc_packet_not_err _ _ H).
Qed.
Print Assumptions C01_refused_unsubscribe.
Theorem C01_refused_connect : forall o, enc_connect o = Err <-> (co_am o = None /\ co_ad o <> None).
Proof.
  intros o. unfold enc_connect. destruct (co_am o), (co_ad o); cbn; split; intros H; try reflexivity; try discriminate;
    try (exfalso; exact (enc_packet_not_err _ _ H)); try (destruct H; try discriminate; try contradiction).
  split; [reflexivity|discriminate].
Qed.
Print Assumptions C01_refused_connect.
Theorem C01_refused_auth : forall o,
  enc_auth o = Err <-> (auth_shortened o = false /\ (ao_am o = None \/ ao_ad o = None)).
Proof.
  intros o. unfold enc_auth. destruct (auth_shortened o); cbn [negb andb].
  - split; [discriminate|]. intros [H _]. discriminate.
  - destruct (ao_am o), (ao_ad o); cbn; split; intros H; try reflexivity; try discriminate;
      try (exfalso; exact (enc_packet_not_err _ _ H)); try (destruct H as [? [?|?]]; discriminate); auto.
Qed.
Print Assumptions C01_refused_auth.
Theorem C01_disconnect_never_refused : forall o, enc_disconnect o <> Err.
Proof. intros o. apply enc_packet_not_err. Qed.
Print Assumptions C01_disconnect_never_refused.

(* every packet any encoder produces (all go through enc_packet over the field list of the
   packet): header byte, then a remaining-length field - a minimal variable byte integer - that
   decodes to exactly the number of bytes following it; the code's separate length computation
   (blen_flds, the *Tx::remaining_len functions) agrees with what encode() writes *)
Theorem C01_remaining_length : forall hdr fs b, Forall wf_fld fs -> enc_packet hdr fs = Ok b ->
  exists body, b = hdr :: venc (lenN body) ++ body /\ lenN body = blen_flds fs /\ lenN body <= VMAX /\
    enc_flds fs = Ok body /\
    forall rest, vdec (venc (lenN body) ++ body ++ rest) = VOk (lenN body) (VarintP.vlen0 (lenN body)).
Proof. exact enc_packet_framed. Qed.
Print Assumptions C01_remaining_length.

(* every property section: its property-length field equals the size of the properties that
   follow it, and reading those properties back yields exactly the list that was written *)
Theorem C01_property_length : forall ps b, Forall wf_prop ps -> enc_fld (FProps ps) = Ok b ->
  b = venc (lenN (enc_props ps)) ++ enc_props ps /\ lenN (enc_props ps) <= VMAX /\
  dec_props_all (enc_props ps) = Ok ps.
Proof. exact enc_props_framed. Qed.
Print Assumptions C01_property_length.

(* the variable byte integer the encoders write is the minimal encoding and decodes to itself *)
Theorem C01_varint : forall n rest, n <= VMAX -> vdec (venc n ++ rest) = VOk n (VarintP.vlen0 n).
Proof. exact vdec_venc. Qed.
Print Assumptions C01_varint.

(* fixed packets *)
Theorem C01_fixed_packets : forall pid,
  enc_pingreq = [192; 0] /\ enc_pubrel pid = 98 :: 2 :: enc_u16 pid /\ enc_puback pid = 64 :: 2 :: enc_u16 pid /\
  enc_pubrec pid = 80 :: 2 :: enc_u16 pid /\ enc_pubcomp pid = 112 :: 2 :: enc_u16 pid.
Proof. intros pid. repeat split. Qed.
Print Assumptions C01_fixed_packets.

(* subscription options byte: QoS bits 0-1, No Local bit 2, Retain As Published bit 3, Retain
   Handling bits 4-5, bits 6-7 zero *)
Theorem C01_subscription_options : forall f, sf_qos f <= 2 -> sf_rh f <= 2 ->
  sub_options f < 64 /\ sub_options f mod 4 = sf_qos f /\ (sub_options f / 4) mod 2 = b2n (sf_nl f) /\
  (sub_options f / 8) mod 2 = b2n (sf_rap f) /\ sub_options f / 16 = sf_rh f.
Proof.
  intros f Hq Hr. unfold sub_options. destruct (sf_nl f), (sf_rap f); cbn [b2n]; lia.
Qed.
Print Assumptions C01_subscription_options.
