(* RxPacketStream::poll_next (src/io/packet_stream.rs, after "fix: packet framing ...") over a
   scripted AsyncRead. *)
From Poster Require Export Model.Varint.

Inductive fst8 := Idle | RLen | RData.

(* BytesMut whose tail of zero bytes (from resize(_, 0)) is kept as a count: the buffer denoted
   is  zd ++ repeat 0 zp.  A 4-byte remaining length makes the code resize the buffer by up to
   256 MiB of zeros; the model must not materialise them. *)
Record zbuf := mkz { zd : bytes; zp : N }.
Definition zbytes (b : zbuf) : bytes := zd b ++ repeat 0 (N.to_nat (zp b)).
Definition zlen (b : zbuf) : N := lenN (zd b) + zp b.
(* BytesMut::resize(n, 0) *)
Definition zresize (n : N) (b : zbuf) : zbuf :=
  if n <=? lenN (zd b) then mkz (takeN n (zd b)) 0
  else mkz (zd b) (n - lenN (zd b)).
(* poll_read filled buf[at .. at+|d|] *)
Definition zfill (at_ : N) (d : bytes) (b : zbuf) : zbuf :=
  let n := lenN (zd b) in
  if at_ <=? n then
    mkz (takeN at_ (zd b) ++ d ++ dropN (at_ + lenN d) (zd b)) (zp b - (at_ + lenN d - n))
  else
    mkz (zd b ++ repeat 0 (N.to_nat (at_ - n)) ++ d) (zp b - (at_ - n) - lenN d).
(* buf[..n] (split_to's result) and the rest *)
Definition ztake (n : N) (b : zbuf) : bytes :=
  if n <=? lenN (zd b) then takeN n (zd b)
  else zd b ++ repeat 0 (N.to_nat (N.min (n - lenN (zd b)) (zp b))).
Definition zdrop (n : N) (b : zbuf) : zbuf :=
  if n <=? lenN (zd b) then mkz (dropN n (zd b)) (zp b) else mkz [] (zp b - (n - lenN (zd b))).

Record rx := mkfr { buf : zbuf; size : N; pend : N; fstate : fst8 }.   (* pend = packet.end *)
Definition rx_init : rx := mkfr (mkz [] 0) 0 0 Idle.

(* the transport: queued segments (each read takes from the head segment only), then an error
   or end-of-stream if scripted, else Pending *)
Record reader := mkrd { segs : list bytes; r_eof : bool; r_err : bool }.
Definition rd_init : reader := mkrd [] false false.
Inductive rr := RGot (d : bytes) | RPending | REnd.

Definition read (cap : N) (rd : reader) : rr * reader :=
  match segs rd with
  | s :: rest =>
    let n := N.min cap (lenN s) in
    (RGot (takeN n s),
     mkrd (if n <? lenN s then dropN n s :: rest else rest) (r_eof rd) (r_err rd))
  | [] => if r_err rd || r_eof rd then (REnd, rd) else (RPending, rd)
  end.

Inductive fout := FItem (p : bytes) | FPending | FEnd | FPanic | FOutOfFuel.

Fixpoint fpoll (fuel : nat) (x : rx) (rd : reader) : fout * rx * reader :=
  match fuel with
  | O => (FOutOfFuel, x, rd)
  | S fuel =>
    match fstate x with
    | Idle =>
      let chunk := if pend x - size x <? 512 then 512 else pend x in   (* saturating_sub *)
      let b := zresize (size x + chunk) (buf x) in
      match read chunk rd with
      | (RPending, rd') => (FPending, mkfr b (size x) (pend x) Idle, rd')
      | (REnd, rd') => (FEnd, mkfr b (size x) (pend x) Idle, rd')
      | (RGot d, rd') =>
        if lenN d =? 0 then (FEnd, mkfr b (size x) (pend x) Idle, rd')   (* Ok(0) is EOF *)
        else
          let sz := size x + lenN d in
          fpoll fuel (mkfr (zfill (size x) d b) sz (pend x) (if 2 <=? sz then RLen else Idle)) rd'
      end
    | RLen =>
      (* VarSizeInt::try_from(&buf[1..]) over the whole buffer, zero padding included; the decoder
         never looks beyond five bytes *)
      match vdec (tl (ztake 6 (buf x))) with
      | VOk v l => fpoll fuel (mkfr (buf x) (size x) (1 + l + v) RData) rd
      | VInsufficient => fpoll fuel (mkfr (buf x) (size x) (pend x) Idle) rd
      | VBad => (FEnd, x, rd)
      | VPanic => (FPanic, x, rd)
      end
    | RData =>
      if size x <? pend x then fpoll fuel (mkfr (buf x) (size x) (pend x) Idle) rd
      else
        let sz := size x - pend x in
        (FItem (ztake (pend x) (buf x)),
         mkfr (zdrop (pend x) (buf x)) sz 0 (if sz =? 0 then Idle else RLen), rd)
    end
  end.

(* enough for any single poll: every read either finishes a segment or takes >= 512 bytes, and
   at most three state changes separate two reads *)
Definition total_len (l : list bytes) : N := fold_right (fun s a => lenN s + a) 0 l.
Definition poll_fuel (rd : reader) : nat :=
  N.to_nat (4 * (lenN (segs rd) + total_len (segs rd) / 512) + 8).
