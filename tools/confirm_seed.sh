#!/bin/bash
# confirm_seed.sh <prop> <variant> [round]  e.g. C05 A   or   C05 A 2  (reads /tmp/mut/C05.out2/A, stores seeded/C05-2A)
# Confirms a sub-agent's seeded defect in its scratch worktree /tmp/mut/<prop> and, when confirmed,
# stores it as /verif/seeded/<prop>-<variant>/ {patch.diff, demo.rs, notes.md, meta.json}.
set -u
P=$1; V=$2; R=${3:-}; WT=/tmp/mut/$P; SRC=/tmp/mut/$P.out$R/$V; OUT=/verif/seeded/$P-$R$V
export CARGO_NET_OFFLINE=true
[ -f $SRC/patch.diff ] || { echo "$P-$R$V: no patch"; exit 2; }
cd $WT || exit 2
git checkout -q -- . ; git clean -fdq -e target
FLAGS=""
grep -q "poster_verif" $SRC/demo.rs $SRC/notes.md 2>/dev/null && FLAGS="--cfg poster_verif"
name=seed_demo
mkdir -p tests; cp $SRC/demo.rs tests/$name.rs
RUSTFLAGS="$FLAGS" timeout 900 cargo test --offline --test $name > /tmp/mut/$P-$R$V.base.log 2>&1; base=$?
git apply $SRC/patch.diff || { echo "$P-$R$V: patch does not apply"; git checkout -q -- .; git clean -fdq -e target; exit 2; }
timeout 900 cargo test --offline --lib > /tmp/mut/$P-$R$V.lib.log 2>&1; lib=$?
npass=$(grep -o "[0-9]* passed" /tmp/mut/$P-$R$V.lib.log | head -1)
RUSTFLAGS="$FLAGS" timeout 900 cargo test --offline --test $name > /tmp/mut/$P-$R$V.mut.log 2>&1; mut=$?
git checkout -q -- . ; git clean -fdq -e target
echo "$P-$R$V: demo on base exit=$base; lib tests with patch exit=$lib ($npass); demo with patch exit=$mut"
if [ $base -eq 0 ] && [ $lib -eq 0 ] && [ $mut -ne 0 ]; then
  mkdir -p $OUT; cp $SRC/patch.diff $SRC/demo.rs $OUT/; cp $SRC/notes.md $OUT/notes.md 2>/dev/null
  python3 - "$P" "$R$V" "$OUT" "$npass" "$FLAGS" <<'PY'
import json,sys
p,v,out,npass,flags=sys.argv[1:6]
notes=open(out+'/notes.md').read() if True else ''
json.dump({"property":p,"variant":v,"source":"independent sub-agent given only the property text and a scratch worktree",
 "confirmed":{"demo_passes_on_unmodified_tree":True,"patched_tree_builds":True,"existing_lib_tests_with_patch":npass,"demo_fails_with_patch":True,
              "how":"tools/confirm_seed.sh %s %s in the scratch worktree /tmp/mut/%s (cargo test --offline --test seed_demo before/after git apply; cargo test --offline --lib after)"%(p,v,p),
              "rustflags":flags},
 "needs_to_manifest":"see notes.md","detected_by":None}, open(out+'/meta.json','w'), indent=1)
PY
  echo "$P-$R$V: CONFIRMED -> $OUT"
else
  echo "$P-$R$V: NOT confirmed"
fi
