(* C02: every well-formed server packet (Spec/Mqtt.v) is accepted by the decoders of Model/Rx.v
   and decodes to exactly the values that were encoded. *)
From Poster Require Import Model.Rx Spec.Mqtt Proofs.BytesP Proofs.ListP Proofs.VarintP Proofs.CodecP.
From Coq Require Import ZArith ZifyN ZifyBool ZifyNat.
Ltac Zify.zify_post_hook ::= Z.div_mod_to_equations.
Arguments N.add : simpl never. Arguments N.mul : simpl never. Arguments N.sub : simpl never.
Arguments N.ltb : simpl never. Arguments N.leb : simpl never. Arguments N.eqb : simpl never.
Arguments N.div : simpl never. Arguments N.modulo : simpl never. Arguments N.min : simpl never.
Arguments N.shiftr : simpl never. Arguments N.land : simpl never.

(* the standard's variable byte integer algorithm produces what the code's encoder produces *)
Lemma spec_varint_venc n : n <= VMAX -> spec_varint n = venc n.
Proof.
  intros H. unfold spec_varint, venc, vlen, VMAX in *. cbn [spec_varint_f].
  assert (D2 : n / 128 / 128 = n / 16384) by lia.
  assert (D3 : n / 128 / 128 / 128 = n / 2097152) by lia.
  assert (D4 : n / 128 / 128 / 128 / 128 = n / 268435456) by lia.
  rewrite D4, D3, D2.
  destruct (n <=? 127) eqn:E1.
  { apply N.leb_le in E1. replace (n / 128 =? 0) with true by (symmetry; apply N.eqb_eq; lia).
    f_equal. lia. }
  apply N.leb_gt in E1. replace (n / 128 =? 0) with false by (symmetry; apply N.eqb_neq; lia).
  destruct (n <=? 16383) eqn:E2.
  { apply N.leb_le in E2. replace (n / 16384 =? 0) with true by (symmetry; apply N.eqb_eq; lia). reflexivity. }
  apply N.leb_gt in E2. replace (n / 16384 =? 0) with false by (symmetry; apply N.eqb_neq; lia).
  destruct (n <=? 2097151) eqn:E3.
  { apply N.leb_le in E3. replace (n / 2097152 =? 0) with true by (symmetry; apply N.eqb_eq; lia). reflexivity. }
  apply N.leb_gt in E3. replace (n / 2097152 =? 0) with false by (symmetry; apply N.eqb_neq; lia).
  replace (n <=? 268435455) with true by (symmetry; apply N.leb_le; lia).
  replace (n / 268435456 =? 0) with true by (symmetry; apply N.eqb_eq; lia). reflexivity.
Qed.

(* the standard's property table is the table the decoder uses *)
Lemma spec_ptype_model id : spec_ptype id = model_ptype id.
Proof.
  destruct id as [|p]; [reflexivity|].
  do 7 (destruct p as [p|p|]; try reflexivity).
Qed.

(* ---- decoder steps on encoded fields --------------------------------------------------------------- *)
Lemma step_u8_cons b r : step_u8 (b :: r) = Ok (b, r).
Proof.
  unfold step_u8, try_dec, one. cbn [dec_u8 bind]. rewrite lenN_cons.
  replace (1 <=? lenN r + 1) with true by (symmetry; apply N.leb_le; lia). reflexivity.
Qed.
Lemma step_var_spec n r : n <= VMAX -> step_var (spec_varint n ++ r) = Ok ((n, VarintP.vlen0 n), r).
Proof.
  intros H. rewrite spec_varint_venc by exact H. unfold step_var.
  apply try_dec_app; [apply dec_var_enc; exact H|]. cbn [snd]. symmetry. apply venc_len. exact H.
Qed.
Lemma spec_varint_len n : n <= VMAX -> lenN (spec_varint n) = VarintP.vlen0 n.
Proof. intros H. rewrite spec_varint_venc by exact H. apply venc_len. exact H. Qed.
Lemma step_pid_enc pid r : 1 <= pid < 65536 -> step_pid (enc_u16 pid ++ r) = Ok (pid, r).
Proof.
  intros H. unfold step_pid. apply (try_dec_app _ _ (enc_u16 pid) r pid); [|reflexivity].
  rewrite dec_u16_enc by lia. cbn [nonzero bind].
  replace (pid =? 0) with false by (symmetry; apply N.eqb_neq; lia). reflexivity.
Qed.
Lemma step_reason_cons tbl b r : memN b tbl = true -> step_reason tbl (b :: r) = Ok (b, r).
Proof.
  intros H. unfold step_reason. apply (try_dec_app _ _ [b] r b); [|reflexivity].
  unfold dec_reason. cbn [app dec_u8 bind]. rewrite H. reflexivity.
Qed.
Lemma try_dec_bool sp r : try_dec dec_bool one (b2n' sp :: r) = Ok (sp, r).
Proof. apply (try_dec_app _ _ [b2n' sp] r sp); [destruct sp; reflexivity|reflexivity]. Qed.
Lemma try_dec_str t r : str_ok t -> try_dec dec_str blen_bin (enc_bin t ++ r) = Ok (t, r).
Proof.
  intros [H1 H2]. apply try_dec_app; [apply dec_str_enc; assumption|]. unfold blen_bin. symmetry. apply enc_bin_len.
Qed.
Lemma checked_props_enc allowed ps : Forall wf_prop ps -> ids_in allowed ps = true ->
  checked_props allowed (enc_props ps) = Ok ps.
Proof. intros H1 H2. unfold checked_props. rewrite props_roundtrip by exact H1. cbn [bind]. rewrite H2. reflexivity. Qed.
Lemma dec_codes_ok tbl cs : forallb (fun b => memN b tbl) cs = true -> dec_codes tbl cs = Ok cs.
Proof.
  induction cs as [|b cs IH]; cbn [forallb dec_codes]; [reflexivity|]. intros H. apply andb_prop in H. destruct H as [H1 H2].
  rewrite H1, (IH H2). reflexivity.
Qed.

(* a property list the standard allows in a packet: well-formed values, identifiers of the packet *)
Definition swf_prop (p : prop) : Prop :=
  match spec_ptype (fst p) with Some t => wf_pval t (snd p) | None => False end.
Lemma swf_wf p : swf_prop p -> wf_prop p.
Proof. unfold swf_prop, wf_prop. rewrite spec_ptype_model. auto. Qed.
Definition wf_props (allowed : list N) (ps : list prop) : Prop :=
  Forall swf_prop ps /\ (forall p, In p ps -> In (fst p) allowed) /\ lenN (enc_props ps) <= VMAX.
Lemma wf_props_model allowed allowed' ps : wf_props allowed ps ->
  (forall id, In id allowed -> memN id allowed' = true) ->
  Forall wf_prop ps /\ ids_in allowed' ps = true.
Proof.
  intros [H1 [H2 _]] Hsub. split; [eapply Forall_impl; [|exact H1]; apply swf_wf|].
  unfold ids_in. apply forallb_forall. intros p Hp. apply Hsub. apply H2. exact Hp.
Qed.
Ltac in_cases := intros id Hin; cbn [In] in Hin;
  repeat (destruct Hin as [<-|Hin]; [reflexivity|]); destruct Hin.
Lemma connack_ids_ok : forall id, In id connack_ids -> memN id connack_allowed = true. Proof. in_cases. Qed.
Lemma publish_ids_ok : forall id, In id publish_ids -> memN id publish_allowed = true. Proof. in_cases. Qed.
Lemma ack_ids_ok : forall id, In id ack_ids -> memN id [31; 38] = true. Proof. in_cases. Qed.
Lemma disconnect_ids_ok : forall id, In id disconnect_ids -> memN id [31; 28; 38] = true. Proof. in_cases. Qed.
Lemma auth_ids_ok : forall id, In id auth_ids -> memN id [21; 22; 31; 38] = true. Proof. in_cases. Qed.

(* property section: length field, then exactly the properties *)
Lemma spec_props_len ps : lenN (enc_props ps) <= VMAX ->
  lenN (spec_props ps) = VarintP.vlen0 (lenN (enc_props ps)) + lenN (enc_props ps).
Proof. intros H. unfold spec_props. rewrite lenN_app, spec_varint_len by exact H. reflexivity. Qed.
Lemma step_var_props ps r : lenN (enc_props ps) <= VMAX ->
  step_var (spec_props ps ++ r) = Ok ((lenN (enc_props ps), VarintP.vlen0 (lenN (enc_props ps))), enc_props ps ++ r).
Proof. intros H. unfold spec_props. rewrite <- app_assoc. apply step_var_spec. exact H. Qed.

(* the frame of every spec packet: header, remaining length, body; the length test of the decoders *)
Lemma spec_packet_len hdr body : lenN body <= VMAX ->
  lenN (spec_packet hdr body) = 1 + VarintP.vlen0 (lenN body) + lenN body.
Proof. intros H. unfold spec_packet. rewrite lenN_cons, lenN_app, spec_varint_len by exact H. lia. Qed.

(* ---- CONNACK --------------------------------------------------------------------------------------------- *)
Theorem dec_connack_spec sp reason ps :
  memN reason spec_connect_reasons = true -> wf_props connack_ids ps ->
  lenN ([b2n' sp; reason] ++ spec_props ps) <= VMAX ->
  dec_packet (spec_connack sp reason ps) = Ok (mkrx KConnack sp false false 0 0 reason ps [] [] []).
Proof.
  intros Hr Hw Hl. destruct (wf_props_model _ _ _ Hw connack_ids_ok) as [Hwf Hids]. destruct Hw as [_ [_ Hpl]].
  unfold spec_connack. pose proof (spec_packet_len 32 _ Hl) as Hlen.
  remember ([b2n' sp; reason] ++ spec_props ps) as body eqn:Hb.
  unfold spec_packet in *. cbn [dec_packet]. change (N.shiftr 32 4) with 2. cbv iota.
  unfold dec_connack. rewrite step_u8_cons. cbn [bind]. change (N.shiftr 32 4 =? 2) with true. cbn [negb].
  rewrite step_var_spec by exact Hl. cbn [bind fst snd]. rewrite Hlen, N.ltb_irrefl.
  subst body. cbn [app]. rewrite try_dec_bool. cbn [bind]. change connect_reasons with spec_connect_reasons.
  rewrite step_reason_cons by exact Hr. cbn [bind].
  rewrite <- (app_nil_r (spec_props ps)), step_var_props by exact Hpl. cbn [bind fst]. rewrite !app_nil_r.
  rewrite N.ltb_irrefl, checked_props_enc by assumption. reflexivity.
Qed.

(* ---- PUBACK / PUBREC / PUBREL / PUBCOMP, all three forms ------------------------------------------------- *)
Definition ack_body (pid reason : N) (ps : list prop) (form : ack_form) : bytes :=
  match form with
  | AckShort2 => enc_u16 pid
  | AckShort3 => enc_u16 pid ++ [reason]
  | AckFull => enc_u16 pid ++ [reason] ++ spec_props ps
  end.
Lemma spec_ack_body hdr pid reason ps form : spec_ack hdr pid reason ps form = spec_packet hdr (ack_body pid reason ps form).
Proof. destruct form; reflexivity. Qed.

Lemma dec_ack_spec k hdr tbl pid reason ps form :
  1 <= pid < 65536 -> memN reason tbl = true -> wf_props ack_ids ps ->
  lenN (ack_body pid reason ps form) <= VMAX ->
  dec_ack k hdr tbl (spec_ack hdr pid reason ps form) =
  Ok (mkrx k false false false 0 pid (match form with AckShort2 => 0 | _ => reason end)
           (match form with AckFull => ps | _ => [] end) [] [] []).
Proof.
  intros Hp Hr Hw Hl. destruct (wf_props_model _ _ _ Hw ack_ids_ok) as [Hwf Hids]. destruct Hw as [_ [_ Hpl]].
  rewrite spec_ack_body. unfold spec_packet, dec_ack. rewrite step_u8_cons. cbn [bind]. rewrite N.eqb_refl. cbn [negb].
  rewrite <- (app_nil_r (ack_body pid reason ps form)) at 2.
  rewrite step_var_spec by exact Hl. cbn [bind fst]. rewrite app_nil_r, N.ltb_irrefl.
  destruct form; cbn [ack_body] in *.
  - rewrite <- (app_nil_r (enc_u16 pid)), step_pid_enc by exact Hp. cbn [bind]. reflexivity.
  - rewrite step_pid_enc by exact Hp. cbn [bind]. change (lenN (enc_u16 pid ++ [reason])) with 3.
    change (3 =? 2) with false. cbv iota. rewrite step_reason_cons by exact Hr. cbn [bind]. reflexivity.
  - rewrite step_pid_enc by exact Hp. cbn [bind].
    assert (Hlen : lenN (enc_u16 pid ++ [reason] ++ spec_props ps) = 3 + lenN (spec_props ps)).
    { rewrite !lenN_app. change (lenN (enc_u16 pid)) with 2. change (lenN [reason]) with 1. lia. }
    rewrite Hlen. pose proof (vlen0_pos _ Hpl) as Hv. rewrite spec_props_len by exact Hpl.
    replace (3 + (vlen0 (lenN (enc_props ps)) + lenN (enc_props ps)) =? 2) with false by (symmetry; apply N.eqb_neq; lia).
    cbn [app]. rewrite step_reason_cons by exact Hr. cbn [bind].
    replace (3 + (vlen0 (lenN (enc_props ps)) + lenN (enc_props ps)) <? 4) with false by (symmetry; apply N.ltb_ge; lia).
    rewrite <- (app_nil_r (spec_props ps)), step_var_props by exact Hpl. cbn [bind fst]. rewrite !app_nil_r.
    rewrite N.ltb_irrefl, checked_props_enc by assumption. reflexivity.
Qed.

Theorem dec_puback_spec pid reason ps form :
  1 <= pid < 65536 -> memN reason spec_puback_reasons = true -> wf_props ack_ids ps ->
  lenN (ack_body pid reason ps form) <= VMAX ->
  dec_packet (spec_ack 64 pid reason ps form) =
  Ok (mkrx KPuback false false false 0 pid (match form with AckShort2 => 0 | _ => reason end)
           (match form with AckFull => ps | _ => [] end) [] [] []).
Proof.
  intros. rewrite spec_ack_body.
  change (dec_packet (spec_packet 64 (ack_body pid reason ps form)))
    with (dec_ack KPuback 64 puback_reasons (spec_packet 64 (ack_body pid reason ps form))).
  rewrite <- spec_ack_body. apply dec_ack_spec; assumption.
Qed.
Theorem dec_pubrec_spec pid reason ps form :
  1 <= pid < 65536 -> memN reason spec_puback_reasons = true -> wf_props ack_ids ps ->
  lenN (ack_body pid reason ps form) <= VMAX ->
  dec_packet (spec_ack 80 pid reason ps form) =
  Ok (mkrx KPubrec false false false 0 pid (match form with AckShort2 => 0 | _ => reason end)
           (match form with AckFull => ps | _ => [] end) [] [] []).
Proof.
  intros. rewrite spec_ack_body.
  change (dec_packet (spec_packet 80 (ack_body pid reason ps form)))
    with (dec_ack KPubrec 80 puback_reasons (spec_packet 80 (ack_body pid reason ps form))).
  rewrite <- spec_ack_body. apply dec_ack_spec; assumption.
Qed.
Theorem dec_pubrel_spec pid reason ps form :
  1 <= pid < 65536 -> memN reason spec_pubrel_reasons = true -> wf_props ack_ids ps ->
  lenN (ack_body pid reason ps form) <= VMAX ->
  dec_packet (spec_ack 98 pid reason ps form) =
  Ok (mkrx KPubrel false false false 0 pid (match form with AckShort2 => 0 | _ => reason end)
           (match form with AckFull => ps | _ => [] end) [] [] []).
Proof.
  intros. rewrite spec_ack_body.
  change (dec_packet (spec_packet 98 (ack_body pid reason ps form)))
    with (dec_ack KPubrel 98 pubrel_reasons (spec_packet 98 (ack_body pid reason ps form))).
  rewrite <- spec_ack_body. apply dec_ack_spec; assumption.
Qed.
Theorem dec_pubcomp_spec pid reason ps form :
  1 <= pid < 65536 -> memN reason spec_pubrel_reasons = true -> wf_props ack_ids ps ->
  lenN (ack_body pid reason ps form) <= VMAX ->
  dec_packet (spec_ack 112 pid reason ps form) =
  Ok (mkrx KPubcomp false false false 0 pid (match form with AckShort2 => 0 | _ => reason end)
           (match form with AckFull => ps | _ => [] end) [] [] []).
Proof.
  intros. rewrite spec_ack_body.
  change (dec_packet (spec_packet 112 (ack_body pid reason ps form)))
    with (dec_ack KPubcomp 112 pubrel_reasons (spec_packet 112 (ack_body pid reason ps form))).
  rewrite <- spec_ack_body. apply dec_ack_spec; assumption.
Qed.

(* ---- SUBACK / UNSUBACK ------------------------------------------------------------------------------------- *)
Lemma dec_suback_spec k hdr tbl pid ps codes :
  1 <= pid < 65536 -> wf_props ack_ids ps -> forallb (fun b => memN b tbl) codes = true ->
  lenN (enc_u16 pid ++ spec_props ps ++ codes) <= VMAX ->
  dec_suback k hdr tbl (spec_suback hdr pid ps codes) = Ok (mkrx k false false false 0 pid 0 ps [] [] codes).
Proof.
  intros Hp Hw Hc Hl. destruct (wf_props_model _ _ _ Hw ack_ids_ok) as [Hwf Hids]. destruct Hw as [_ [_ Hpl]].
  unfold spec_suback, spec_packet, dec_suback. rewrite step_u8_cons. cbn [bind]. rewrite N.eqb_refl. cbn [negb].
  rewrite <- (app_nil_r (enc_u16 pid ++ spec_props ps ++ codes)) at 2.
  rewrite step_var_spec by exact Hl. cbn [bind fst]. rewrite app_nil_r, N.ltb_irrefl.
  rewrite step_pid_enc by exact Hp. cbn [bind]. rewrite step_var_props by exact Hpl. cbn [bind fst].
  replace (lenN (enc_props ps ++ codes) <? lenN (enc_props ps)) with false
    by (symmetry; apply N.ltb_ge; rewrite lenN_app; lia).
  rewrite takeN_app, dropN_app, checked_props_enc by assumption. cbn [bind]. rewrite dec_codes_ok by exact Hc. reflexivity.
Qed.
Theorem dec_suback_packet pid ps codes :
  1 <= pid < 65536 -> wf_props ack_ids ps -> forallb (fun b => memN b spec_suback_reasons) codes = true ->
  lenN (enc_u16 pid ++ spec_props ps ++ codes) <= VMAX ->
  dec_packet (spec_suback 144 pid ps codes) = Ok (mkrx KSuback false false false 0 pid 0 ps [] [] codes).
Proof. intros. apply (dec_suback_spec KSuback 144 suback_reasons); assumption. Qed.
Theorem dec_unsuback_packet pid ps codes :
  1 <= pid < 65536 -> wf_props ack_ids ps -> forallb (fun b => memN b spec_unsuback_reasons) codes = true ->
  lenN (enc_u16 pid ++ spec_props ps ++ codes) <= VMAX ->
  dec_packet (spec_suback 176 pid ps codes) = Ok (mkrx KUnsuback false false false 0 pid 0 ps [] [] codes).
Proof. intros. apply (dec_suback_spec KUnsuback 176 unsuback_reasons); assumption. Qed.

(* ---- PINGRESP ------------------------------------------------------------------------------------------------ *)
Theorem dec_pingresp_packet : dec_packet spec_pingresp = Ok (rx0 KPingresp).
Proof. reflexivity. Qed.

(* ---- PUBLISH -------------------------------------------------------------------------------------------------- *)
Lemma publish_hdr_bits dup qos retain : qos <= 2 ->
  let h := 48 + b2n' dup * 8 + qos * 2 + b2n' retain in
  N.shiftr h 4 = 3 /\ N.land (N.shiftr h 1) 3 = qos /\ (N.land h 8 =? 0) = negb dup /\ (N.land h 1 =? 0) = negb retain.
Proof.
  intros Hq. assert (Hc : qos = 0 \/ qos = 1 \/ qos = 2) by lia.
  destruct Hc as [->|[->| ->]]; destruct dup, retain; vm_compute; auto.
Qed.

Theorem dec_publish_packet dup qos retain topic pid ps payload :
  qos <= 2 -> str_ok topic -> (qos <> 0 -> 1 <= pid < 65536) -> wf_props publish_ids ps ->
  lenN (enc_bin topic ++ (if qos =? 0 then [] else enc_u16 pid) ++ spec_props ps ++ payload) <= VMAX ->
  dec_packet (spec_publish dup qos retain topic pid ps payload) =
  Ok (mkrx KPublish false dup retain qos (if qos =? 0 then 0 else pid) 0 ps topic payload []).
Proof.
  intros Hq Ht Hp Hw Hl. destruct (wf_props_model _ _ _ Hw publish_ids_ok) as [Hwf Hids]. destruct Hw as [_ [_ Hpl]].
  destruct (publish_hdr_bits dup qos retain Hq) as [B1 [B2 [B3 B4]]].
  unfold spec_publish, spec_packet. cbn [dec_packet]. rewrite B1. cbv iota.
  unfold dec_publish. rewrite step_u8_cons. cbn [bind]. rewrite B1, B2, B3, B4, !negb_involutive.
  change (3 =? 3) with true. cbn [negb]. replace (2 <? qos) with false by (symmetry; apply N.ltb_ge; exact Hq).
  match goal with |- context [step_var (spec_varint (lenN ?b) ++ ?b)] =>
    rewrite <- (app_nil_r b) at 2; rewrite step_var_spec by exact Hl end.
  cbn [bind fst]. rewrite app_nil_r, N.ltb_irrefl. rewrite try_dec_str by exact Ht. cbn [bind].
  destruct (qos =? 0) eqn:Eq0.
  - apply N.eqb_eq in Eq0. subst qos. change (0 <? 0) with false. cbv iota. cbn [app bind].
    rewrite step_var_props by exact Hpl. cbn [bind fst].
    replace (lenN (enc_props ps ++ payload) <? lenN (enc_props ps)) with false
      by (symmetry; apply N.ltb_ge; rewrite lenN_app; lia).
    rewrite takeN_app, dropN_app, checked_props_enc by assumption. reflexivity.
  - apply N.eqb_neq in Eq0. replace (0 <? qos) with true by (symmetry; apply N.ltb_lt; lia). cbv iota.
    rewrite step_pid_enc by (apply Hp; exact Eq0). cbn [bind].
    rewrite step_var_props by exact Hpl. cbn [bind fst].
    replace (lenN (enc_props ps ++ payload) <? lenN (enc_props ps)) with false
      by (symmetry; apply N.ltb_ge; rewrite lenN_app; lia).
    rewrite takeN_app, dropN_app, checked_props_enc by assumption. reflexivity.
Qed.

(* ---- DISCONNECT, all three forms -------------------------------------------------------------------------------- *)
Theorem dec_disconnect_packet reason ps form :
  memN reason spec_disconnect_reasons = true -> wf_props disconnect_ids ps ->
  lenN ([reason] ++ spec_props ps) <= VMAX ->
  dec_packet (spec_disconnect reason ps form) =
  Ok (mkrx KDisconnect false false false 0 0 (match form with DiscShort0 => 0 | _ => reason end)
           (match form with DiscFull => ps | _ => [] end) [] [] []).
Proof.
  intros Hr Hw Hl. destruct (wf_props_model _ _ _ Hw disconnect_ids_ok) as [Hwf Hids]. destruct Hw as [_ [_ Hpl]].
  destruct form; [reflexivity| |]; unfold spec_disconnect, spec_packet; cbn [dec_packet];
    change (N.shiftr 224 4) with 14; cbv iota; unfold dec_disconnect; rewrite step_u8_cons; cbn [bind];
    change (224 =? 224) with true; cbn [negb].
  - change (spec_varint (lenN [reason])) with [1]. change ([1] ++ [reason]) with (spec_varint 1 ++ [reason]).
    rewrite step_var_spec by (unfold VMAX; lia). cbn [bind fst]. change (lenN [reason] <? 1) with false.
    change (1 =? 0) with false. cbv iota. change disconnect_reasons with spec_disconnect_reasons.
    rewrite step_reason_cons by exact Hr. cbn [bind]. reflexivity.
  - rewrite <- (app_nil_r ([reason] ++ spec_props ps)) at 2. rewrite step_var_spec by exact Hl. cbn [bind fst].
    rewrite app_nil_r, N.ltb_irrefl. pose proof (vlen0_pos _ Hpl) as Hv.
    assert (Hlen : @lenN byte ([reason] ++ spec_props ps) = 1 + lenN (spec_props ps)) by (rewrite lenN_app; reflexivity).
    rewrite Hlen. replace (1 + lenN (spec_props ps) =? 0) with false by (symmetry; apply N.eqb_neq; lia).
    cbn [app]. change disconnect_reasons with spec_disconnect_reasons.
    rewrite step_reason_cons by exact Hr. cbn [bind].
    replace (lenN (spec_props ps) =? 0) with false
      by (symmetry; apply N.eqb_neq; rewrite spec_props_len by exact Hpl; lia).
    rewrite <- (app_nil_r (spec_props ps)), step_var_props by exact Hpl. cbn [bind fst]. rewrite !app_nil_r.
    rewrite N.ltb_irrefl, checked_props_enc by assumption. reflexivity.
Qed.

(* ---- AUTH, both forms ----------------------------------------------------------------------------------------------- *)
Lemma plast_in id v ps : In (id, v) ps -> plast id ps <> None.
Proof.
  induction ps as [|[i w] ps IH]; [intros []|]. intros [H|H]; cbn [plast].
  - inversion H; subst. destruct (plast id ps); [discriminate|]. rewrite N.eqb_refl. discriminate.
  - specialize (IH H). destruct (plast id ps); [discriminate|contradiction].
Qed.
Theorem dec_auth_packet reason ps short :
  memN reason spec_auth_reasons = true -> wf_props auth_ids ps ->
  (exists m, In (21, m) ps) ->                         (* Authentication Method is mandatory in the full form *)
  lenN ([reason] ++ spec_props ps) <= VMAX ->
  dec_packet (spec_auth reason ps short) =
  Ok (if short then rx0 KAuth else mkrx KAuth false false false 0 0 reason ps [] [] []).
Proof.
  intros Hr Hw [m Hm] Hl. destruct (wf_props_model _ _ _ Hw auth_ids_ok) as [Hwf Hids]. destruct Hw as [_ [_ Hpl]].
  destruct short; [reflexivity|]. unfold spec_auth, spec_packet. cbn [dec_packet].
  change (N.shiftr 240 4) with 15. cbv iota. unfold dec_auth. rewrite step_u8_cons. cbn [bind].
  change (240 =? 240) with true. cbn [negb].
  pose proof (vlen0_pos _ Hpl) as Hv.
  assert (Hlen : @lenN byte ([reason] ++ spec_props ps) = 1 + lenN (spec_props ps)) by (rewrite lenN_app; reflexivity).
  rewrite <- (app_nil_r ([reason] ++ spec_props ps)) at 2. rewrite step_var_spec by exact Hl. cbn [bind fst].
  rewrite app_nil_r. rewrite Hlen at 1. replace (1 + lenN (spec_props ps) =? 0) with false by (symmetry; apply N.eqb_neq; lia).
  cbn [app]. change auth_reasons with spec_auth_reasons. rewrite step_reason_cons by exact Hr. cbn [bind].
  rewrite <- (app_nil_r (spec_props ps)), step_var_props by exact Hpl. cbn [bind fst]. rewrite !app_nil_r.
  rewrite N.ltb_irrefl, checked_props_enc by assumption. cbn [bind].
  pose proof (plast_in 21 m ps Hm) as Hn. destruct (plast 21 ps); [|contradiction]. cbn [isNone].
  rewrite andb_false_r.
  match goal with |- (if ?c then _ else _) = _ => replace c with false; [reflexivity|] end.
  symmetry. apply N.ltb_ge. rewrite !lenN_cons, lenN_app, !lenN_cons. unfold byte. lia.
Qed.

(* ---- accessors: first (= only) occurrence, the standard's default when absent --------------------------------- *)
Lemma plast_pfirst id ps : (count_id id ps <= 1)%nat -> plast id ps = pfirst id ps.
Proof.
  induction ps as [|[i v] ps IH]; [reflexivity|]. cbn [count_id plast pfirst fst].
  destruct (i =? id) eqn:E.
  - intros H. assert (H0 : count_id id ps = 0%nat) by lia.
    assert (Hn : forall l, count_id id l = 0%nat -> plast id l = None).
    { induction l as [|[j w] l IHl]; [reflexivity|]. cbn [count_id plast fst]. destruct (j =? id); [intros; lia|].
      intros Hc. rewrite (IHl Hc). reflexivity. }
    rewrite (Hn _ H0). reflexivity.
  - intros H. rewrite IH by lia. destruct (pfirst id ps); reflexivity.
Qed.
