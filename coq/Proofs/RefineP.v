(* The run loop of the script layer refines the history layer: whatever settle (the Context task polled to rest) does
   is a run of Context steps (QuotaP.qstep) over some history whose requests are taken from the front of the queue, in
   order, each at most once. So every theorem stated over all histories of Context steps (C06/C08/C10/C12 wire_history,
   C10 conf_run_inv, C17 retx_history, C07/C09 stream_history, C15 drop_commutes) speaks about every run of the
   script layer that the correspondence check executes. *)
From Poster Require Import Model.Sim Proofs.BytesP Proofs.ClientP Proofs.QuotaP Proofs.HandshakeP Proofs.ResumeP Proofs.SimInvP Proofs.SettleP.
Arguments N.add : simpl never. Arguments N.mul : simpl never. Arguments N.sub : simpl never.
Arguments N.ltb : simpl never. Arguments N.leb : simpl never. Arguments N.eqb : simpl never.

(* the part of the state the Context's handlers read and write *)
Definition view (s : sys) := (c s, wire_ev s, wbudget s, ops s, streams s).

(* changing the transport/framing component and the queue - what the run loop does around a handler *)
Definition U (r : reader) (f : rx) (q : list cmsg) (s : sys) : sys := set_msgq (set_io s r f) q.
Lemma view_U r f q s : view (U r f q s) = view s. Proof. reflexivity. Qed.

Section Commute.
Variables (r : reader) (f : rx) (q : list cmsg).
Notation u := (U r f q).
Lemma U_complete s j ph v : complete (u s) j ph v = u (complete s j ph v).
Proof. unfold complete. change (ops (u s)) with (ops s). destruct (alookup j (ops s)); reflexivity. Qed.
Lemma U_cancel s j ph : cancel (u s) j ph = u (cancel s j ph).
Proof. unfold cancel. change (ops (u s)) with (ops s). destruct (alookup j (ops s)); reflexivity. Qed.
Lemma U_write s p : write (u s) p = (u (fst (write s p)), snd (write s p)).
Proof. unfold write. change (wbudget (u s)) with (wbudget s). destruct (wbudget s) as [b|]; [destruct (lenN p <=? b)|]; reflexivity. Qed.
Lemma U_close s j : close_stream_sender (u s) j = u (close_stream_sender s j).
Proof. unfold close_stream_sender. change (streams (u s)) with (streams s). destruct (alookup j (streams s)); reflexivity. Qed.
Lemma U_dispatch s sid p : dispatch (u s) sid p = u (dispatch s sid p).
Proof.
  unfold dispatch. change (c (u s)) with (c s). change (streams (u s)) with (streams s).
  destruct (alookup sid (subs (c s))) as [j|]; [|reflexivity].
  destruct (alookup j (streams s)) as [st|]; [|reflexivity]. destruct (st_recv st); [reflexivity|].
  change (set_c (u s) ?x) with (u (set_c s x)). apply U_close.
Qed.
Lemma U_ack_waiter s a p : ack_waiter (u s) a p = u (ack_waiter s a p).
Proof.
  unfold ack_waiter. change (c (u s)) with (c s).
  destruct (alookup a (awaiting (c s))) as [[j ph]|]; [|reflexivity].
  change (set_c (u s) ?x) with (u (set_c s x)). apply U_complete.
Qed.
Lemma U_handle_message s m : handle_message (u s) m = (u (fst (handle_message s m)), snd (handle_message s m)).
Proof.
  unfold handle_message. cbv zeta. change (c (u s)) with (c s).
  destruct m as [j p|j ph a p|j a sid p].
  - destruct (negb (size_ok (c s) p)); cbn [fst snd]; [rewrite U_complete; reflexivity|].
    rewrite U_write. cbn [fst snd]. destruct (negb (snd (write s p))); cbn [fst snd]; [rewrite U_cancel|rewrite U_complete]; reflexivity.
  - destruct (negb (size_ok (c s) p)); cbn [fst snd]; [rewrite U_complete; reflexivity|].
    destruct (ptype_of p =? 3).
    + destruct (quota (c s) =? 0); cbn [fst snd]; [rewrite U_complete; reflexivity|].
      change (set_c (u s) ?x) with (u (set_c s x)). rewrite U_write. cbn [fst snd].
      destruct (negb (snd (write (set_c s (with_quota (c s) (quota (c s) - 1))) p))); cbn [fst snd]; [rewrite U_cancel|]; reflexivity.
    + destruct (ptype_of p =? 6); rewrite U_write; cbn [fst snd]; destruct (negb (snd (write s p))); cbn [fst snd];
        try rewrite U_cancel; reflexivity.
  - destruct (negb (size_ok (c s) p)); cbn [fst snd].
    + rewrite U_complete, U_close. reflexivity.
    + change (set_c (u s) ?x) with (u (set_c s x)). rewrite U_write. cbn [fst snd]. reflexivity.
Qed.
Lemma U_handle_packet s p : handle_packet (u s) p = (u (fst (handle_packet s p)), snd (handle_packet s p)).
Proof.
  unfold handle_packet. cbv zeta. change (c (u s)) with (c s).
  destruct (rk p); cbn [fst snd];
    try (change (set_c (u s) ?x) with (u (set_c s x)); rewrite U_ack_waiter; reflexivity);
    try (rewrite U_ack_waiter; reflexivity); try reflexivity.
  - set (red := (r_qos p =? 2) && memN (r_pid p) (await_rel (c s))).
    set (s1 := if (r_qos p =? 2) && negb red then set_c s (with_rel (c s) (await_rel (c s) ++ [r_pid p])) else s).
    assert (E1 : (if (r_qos p =? 2) && negb red then set_c (u s) (with_rel (c s) (await_rel (c s) ++ [r_pid p])) else u s) = u s1)
      by (unfold s1; destruct ((r_qos p =? 2) && negb red); reflexivity).
    rewrite E1.
    set (s2 := if red then s1 else match pub_subid p with Some sid => dispatch s1 sid p | None => s1 end).
    assert (E2 : (if red then u s1 else match pub_subid p with Some sid => dispatch (u s1) sid p | None => u s1 end) = u s2).
    { unfold s2. destruct red; [reflexivity|]. destruct (pub_subid p); [apply U_dispatch|reflexivity]. }
    rewrite E2. destruct (r_qos p =? 0); [reflexivity|]. rewrite U_write. reflexivity.
  - change (set_c (u s) ?x) with (u (set_c s x)). rewrite U_write. reflexivity.
Qed.
Lemma U_qstep s e : qstep (u s) e = u (qstep s e).
Proof. destruct e as [m|p]; cbn [qstep]; [rewrite U_handle_message|rewrite U_handle_packet]; reflexivity. Qed.
Lemma U_run_q evs : forall s, run_q (u s) evs = u (run_q s evs).
Proof. induction evs as [|e evs IH]; intros s; cbn [run_q]; [reflexivity|]. rewrite U_qstep. apply IH. Qed.
End Commute.

Lemma view_run_U r f q s evs : view (run_q (U r f q s) evs) = view (run_q s evs).
Proof. rewrite U_run_q. apply view_U. Qed.

Definition msgs (evs : list qev) : list cmsg :=
  flat_map (fun e => match e with QMsg m => [m] | QPkt _ => [] end) evs.

Lemma run_q_app a : forall s b, run_q s (a ++ b) = run_q (run_q s a) b.
Proof. induction a as [|e a IH]; intros s b; cbn [run_q app]; [reflexivity|apply IH]. Qed.

Lemma view_exit s res : view (exit_run s res) = view s. Proof. reflexivity. Qed.

(* one turn of the run loop is at most one Context step *)
Lemma run_turn_refines s :
  exists evs rest, (evs = [] \/ exists e, evs = [e]) /\
    view (fst (run_turn s)) = view (run_q s evs) /\ msgq s = msgs evs ++ rest /\
    (cph (fst (run_turn s)) = CRunning -> msgq (fst (run_turn s)) = rest) /\
    (snd (run_turn s) = TGo -> cph (fst (run_turn s)) = cph s /\ exists r f, fst (run_turn s) = U r f rest (run_q s evs)).
Proof.
  unfold run_turn. destruct (fpoll (poll_fuel (rd s)) (fr s) (rd s)) as [[o f] r].
  assert (Hexit : forall x res, view x = view s ->
     exists evs rest, (evs = [] \/ exists e, evs = [e]) /\
       view (fst (exit_run x res, TStop)) = view (run_q s evs) /\ msgq s = msgs evs ++ rest /\
       (cph (fst (exit_run x res, TStop)) = CRunning -> msgq (fst (exit_run x res, TStop)) = rest) /\
       (snd (exit_run x res, TStop) = TGo -> cph (fst (exit_run x res, TStop)) = cph s /\ exists r f, fst (exit_run x res, TStop) = U r f rest (run_q s evs))).
  { intros x res Hv. exists [], (msgq s). split; [left; reflexivity|]. cbn [fst snd run_q msgs flat_map app].
    split; [rewrite view_exit; exact Hv|]. split; [reflexivity|]. split; [cbn; discriminate|discriminate]. }
  destruct o as [bs| | | |]; try (apply Hexit; reflexivity).
  - destruct (dec_packet bs) as [p| |]; try (apply Hexit; reflexivity).
    change (set_io s r f) with (U r f (msgq s) s). rewrite U_handle_packet.
    pose proof (cq_handle_packet s p) as Hcq. destruct (handle_packet s p) as [s1 a] eqn:Eh. cbn [fst snd] in *.
    unfold cq in Hcq. injection Hcq as Hc Hm.
    exists [QPkt p], (msgq s). split; [right; eexists; reflexivity|]. cbn [run_q qstep msgs flat_map app]. rewrite Eh. cbn [fst].
    destruct a; cbn [fst snd].
    + split; [reflexivity|]. split; [reflexivity|]. split; [intros _; reflexivity|]. intros _. split; [exact Hc|]. exists r, f. reflexivity.
    + split; [reflexivity|]. split; [reflexivity|]. split; [cbn; discriminate|discriminate].
  - change (set_io s r f) with (U r f (msgq s) s). change (msgq (U r f (msgq s) s)) with (msgq s).
    destruct (msgq s) as [|m q] eqn:Eq.
    + destruct (live_senders _ =? 0); [apply Hexit; reflexivity|].
      exists [], []. split; [left; reflexivity|]. cbn [fst snd run_q msgs flat_map app].
      split; [reflexivity|]. split; [reflexivity|]. split; [intros _; reflexivity|discriminate].
    + change (set_msgq (U r f (m :: q) s) q) with (U r f q s). rewrite U_handle_message.
      pose proof (cq_handle_message s m) as Hcq. destruct (handle_message s m) as [s1 a] eqn:Eh. cbn [fst snd] in *.
      unfold cq in Hcq. injection Hcq as Hc Hm.
      exists [QMsg m], q. split; [right; eexists; reflexivity|]. cbn [run_q qstep msgs flat_map app]. rewrite Eh. cbn [fst].
      destruct a; cbn [fst snd].
      * split; [reflexivity|]. split; [reflexivity|]. split; [intros _; reflexivity|]. intros _. split; [exact Hc|]. exists r, f. reflexivity.
      * split; [reflexivity|]. split; [reflexivity|]. split; [cbn; discriminate|discriminate].
Qed.

(* the whole loop: a run of Context steps over a history that takes the queued requests from the front, in order *)
Theorem settle_loop_refines fuel : forall s, cph s = CRunning ->
  exists evs rest, view (settle_loop fuel s) = view (run_q s evs) /\ msgq s = msgs evs ++ rest /\
    (cph (settle_loop fuel s) = CRunning -> msgq (settle_loop fuel s) = rest).
Proof.
  induction fuel as [|fuel IH]; intros s Hc; cbn [settle_loop].
  - exists [], (msgq s). cbn [run_q msgs flat_map app]. auto.
  - rewrite Hc. destruct (run_turn_refines s) as (evs & rest & _ & Hv & Hq & Hr & Hg).
    destruct (run_turn s) as [s1 t]. cbn [fst snd] in *. destruct t.
    + exists evs, rest. auto.
    + destruct (Hg eq_refl) as (Hc1' & r & f & Hs1). assert (Hc1 : cph s1 = CRunning) by congruence.
      destruct (IH s1 Hc1) as (evs1 & rest1 & Hv1 & Hq1 & Hr1).
      exists (evs ++ evs1), rest1. split; [|split].
      * rewrite Hv1, run_q_app, Hs1. apply view_run_U.
      * unfold msgs. rewrite flat_map_app. fold (msgs evs) (msgs evs1). rewrite <- app_assoc, <- Hq1, (Hr Hc1). exact Hq.
      * exact Hr1.
Qed.

(* settle itself: either the task was not polled (held, dropped, not running) or the above *)
Corollary settle_refines s : cph s = CRunning ->
  exists evs rest, view (settle s) = view (run_q s evs) /\ msgq s = msgs evs ++ rest /\
    (cph (settle s) = CRunning -> msgq (settle s) = rest).
Proof.
  intros Hc. unfold settle. destruct (hold s || negb (ctx_alive s)); [|apply settle_loop_refines; exact Hc].
  exists [], (msgq s). cbn [run_q msgs flat_map app]. auto.
Qed.


(* while run() keeps going, a poll of the Context task handles every queued request exactly once, in queue order *)
Theorem settle_takes_all s : FInv s -> SZs s -> cph s = CRunning -> hold s = false -> ctx_alive s = true ->
  cph (settle s) = CRunning ->
  exists evs, msgs evs = msgq s /\ view (settle s) = view (run_q s evs) /\ msgq (settle s) = [].
Proof.
  intros HF Hs Hc Hh Ha Hc'. destruct (settle_refines s Hc) as (evs & rest & Hv & Hq & Hr).
  pose proof (settle_stopped s HF Hs Hh Ha) as Hst. unfold Stopped in Hst. rewrite Hc' in Hst. destruct Hst as (Hq0 & _).
  specialize (Hr Hc'). rewrite Hq0 in Hr. subst rest. rewrite app_nil_r in Hq. exists evs. auto.
Qed.
