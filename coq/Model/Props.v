(* MQTT properties as the code decodes and encodes them: src/core/properties.rs. *)
From Poster Require Export Model.Varint.

Inductive ptype := TBool | TQos | TU16 | TNzU16 | TU32 | TNzU32 | TVar | TBin | TStr | TPair.

(* a decoded property value; the constructor fixes its byte_len *)
Inductive pval :=
| VB (b : bool) | V8 (n : N) | V16 (n : N) | V32 (n : N) | VV (n len : N)
| VBin (b : bytes) | VStr (b : bytes) | VPr (k v : bytes).

Definition prop := (N * pval)%type.

(* the `match id` of Property::try_decode *)
Definition model_ptype (id : N) : option ptype :=
  match id with
  | 1 | 25 | 40 | 41 | 42 | 37 | 23 => Some TBool
  | 36 => Some TQos
  | 19 | 34 => Some TU16
  | 33 | 35 => Some TNzU16
  | 2 | 17 | 24 => Some TU32
  | 39 => Some TNzU32
  | 11 => Some TVar          (* NonZero<VarSizeInt>: its zero test `val == 0` resolves to
                                PartialEq<i32>, which is false for 0, so 0 is accepted *)
  | 9 | 22 => Some TBin
  | 3 | 8 | 18 | 21 | 26 | 28 | 31 => Some TStr
  | 38 => Some TPair
  | _ => None
  end.

Definition blen_pval (v : pval) : N :=
  match v with
  | VB _ | V8 _ => 1 | V16 _ => 2 | V32 _ => 4 | VV _ l => l
  | VBin b | VStr b => lenN b + 2
  | VPr k v => 4 + lenN k + lenN v
  end.

Definition map_res {A B} (f : A -> B) (r : res A) : res B := let* a := r in Ok (f a).

Definition dec_pval (t : ptype) (bs : bytes) : res pval :=
  match t with
  | TBool => map_res VB (dec_bool bs)
  | TQos => map_res V8 (dec_qos bs)
  | TU16 => map_res V16 (dec_u16 bs)
  | TNzU16 => map_res V16 (nonzero (dec_u16 bs))
  | TU32 => map_res V32 (dec_u32 bs)
  | TNzU32 => map_res V32 (nonzero (dec_u32 bs))
  | TVar => map_res (fun p => VV (fst p) (snd p)) (dec_var bs)
  | TBin => map_res VBin (dec_bin bs)
  | TStr => map_res VStr (dec_str bs)
  | TPair => map_res (fun p => VPr (fst p) (snd p)) (dec_pair bs)
  end.

(* Property::try_decode on a clone of the buffer: id, then the value through the inner
   Decoder (decode + advance). The result's byte_len is 1 + value byte_len. *)
Definition dec_prop_inner (bs : bytes) : res prop :=
  let* (id, r) := try_dec dec_u8 (fun _ => 1) bs in
  match model_ptype id with
  | None => Err
  | Some t => let* (v, _) := try_dec (dec_pval t) blen_pval r in Ok (id, v)
  end.
Definition blen_prop (p : prop) : N := 1 + blen_pval (snd p).

(* DecodeIter<Property>: until the buffer is empty; stops at the first error *)
Fixpoint dec_props (fuel : nat) (bs : bytes) : res (list prop) :=
  match bs with
  | [] => Ok []
  | _ =>
    match fuel with
    | O => Err   (* unreachable: fuel = length bs and every property takes >= 1 byte *)
    | S f =>
      let* (p, r) := try_dec dec_prop_inner blen_prop bs in
      let* ps := dec_props f r in
      Ok (p :: ps)
    end
  end.
Definition dec_props_all (bs : bytes) : res (list prop) := dec_props (List.length bs) bs.

(* encoding of a property value (Encode impls) *)
Definition enc_pval (v : pval) : bytes :=
  match v with
  | VB b => [if b then 1 else 0]
  | V8 n => enc_u8 n | V16 n => enc_u16 n | V32 n => enc_u32 n
  | VV n _ => venc n
  | VBin b | VStr b => enc_bin b
  | VPr k v => enc_pair (k, v)
  end.
Definition enc_prop (p : prop) : bytes := fst p :: enc_pval (snd p).
Definition enc_props (ps : list prop) : bytes := concat (map enc_prop ps).
(* the *Tx property_len computations: sum of ByteLen over the fields they list *)
Definition blen_props (ps : list prop) : N := fold_right (fun p a => blen_prop p + a) 0 ps.

(* builder semantics: setters overwrite (last occurrence wins), user properties accumulate *)
Fixpoint plast (id : N) (ps : list prop) : option pval :=
  match ps with
  | [] => None
  | (i, v) :: r => match plast id r with Some w => Some w | None => if i =? id then Some v else None end
  end.
Definition users (ps : list prop) : list (bytes * bytes) :=
  flat_map (fun p => match p with (38, VPr k v) => [(k, v)] | _ => [] end) ps.
Definition ids_in (allowed : list N) (ps : list prop) : bool :=
  forallb (fun p => existsb (N.eqb (fst p)) allowed) ps.
