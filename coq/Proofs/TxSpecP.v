(* C01: what the encoders of Model/Tx.v write IS the packet the standard prescribes for the caller's
   options (Spec/MqttTx.v, Spec/Mqtt.v). *)
From Poster Require Import Model.Tx Spec.MqttTx Proofs.BytesP Proofs.ListP Proofs.VarintP Proofs.CodecP Proofs.RxSpecP.
From Coq Require Import ZArith ZifyN ZifyBool ZifyNat.
Ltac Zify.zify_post_hook ::= Z.div_mod_to_equations.
Arguments N.add : simpl never. Arguments N.mul : simpl never. Arguments N.sub : simpl never.
Arguments N.ltb : simpl never. Arguments N.leb : simpl never. Arguments N.eqb : simpl never.
Arguments N.div : simpl never. Arguments N.modulo : simpl never.

Lemma enc_u16_spec n : n < 65536 -> enc_u16 n = spec_u16 n.
Proof. intros H. unfold enc_u16, spec_u16. f_equal. lia. Qed.
Lemma enc_bin_spec b : lenN b < 65536 -> enc_bin b = spec_bin b.
Proof. intros H. unfold enc_bin, spec_bin. rewrite enc_u16_spec by exact H. reflexivity. Qed.

(* the only property whose announced length is not determined by its value alone is the variable
   byte integer: its recorded length must be the minimal one *)
Definition len_ok (p : prop) : Prop :=
  match snd p with VV n l => n <= VMAX /\ l = VarintP.vlen0 n | _ => True end.
Lemma enc_prop_len' p : len_ok p -> lenN (enc_prop p) = blen_prop p.
Proof.
  destruct p as [id v]. unfold len_ok, enc_prop, blen_prop. cbn [fst snd]. rewrite lenN_cons.
  destruct v as [bb|n|n|n|n l|bb|bb|k w]; cbn [enc_pval blen_pval]; intros H; try reflexivity.
  - destruct H as [Hn ->]. rewrite venc_len by exact Hn. lia.
  - rewrite enc_bin_len. lia.
  - rewrite enc_bin_len. lia.
  - unfold enc_pair. cbn [fst snd]. rewrite lenN_app, !enc_bin_len. lia.
Qed.
Lemma enc_props_len' ps : Forall len_ok ps -> lenN (enc_props ps) = blen_props ps.
Proof.
  induction 1 as [|p ps Hp Hps IH]; [reflexivity|].
  unfold enc_props in *. cbn [map concat blen_props fold_right]. rewrite lenN_app, IH, enc_prop_len' by exact Hp. reflexivity.
Qed.

Definition fld_ok (f : fld) : Prop := match f with FProps ps => Forall len_ok ps | _ => True end.
(* the bytes a field list stands for *)
Definition fld_bytes (f : fld) : bytes :=
  match f with
  | F8 n => [n mod 256] | F16 n => enc_u16 n | FBin b => enc_bin b | FRaw b => b
  | FProps ps => spec_props ps
  end.
Definition flds_bytes (fs : list fld) : bytes := concat (map fld_bytes fs).

Lemma enc_fld_bytes f b : fld_ok f -> enc_fld f = Ok b -> b = fld_bytes f /\ lenN b = blen_fld f.
Proof.
  destruct f as [n|n|bb|bb|ps]; cbn [fld_ok enc_fld blen_fld fld_bytes]; intros Hw H.
  - inversion H. auto.
  - inversion H. auto.
  - inversion H. split; [reflexivity|apply enc_bin_len].
  - inversion H. auto.
  - unfold venc_checked in H. destruct (vlen (blen_props ps)) as [l|] eqn:El; [|discriminate].
    cbn [bind] in H. inversion H; subst. pose proof (vlen_some _ _ El) as Hm.
    rewrite <- (enc_props_len' ps Hw) in *. unfold spec_props. rewrite spec_varint_venc by exact Hm.
    split; [reflexivity|]. rewrite lenN_app, venc_len by exact Hm. reflexivity.
Qed.
Lemma enc_flds_bytes fs : Forall fld_ok fs -> forall b, enc_flds fs = Ok b -> b = flds_bytes fs /\ lenN b = blen_flds fs.
Proof.
  induction 1 as [|f fs Hf Hfs IH]; intros b H; cbn [enc_flds blen_flds fold_right flds_bytes map concat] in *.
  - inversion H. auto.
  - destruct (enc_fld f) as [a| |] eqn:Ea; try discriminate. cbn [bind] in H.
    destruct (enc_flds fs) as [b'| |] eqn:Eb; try discriminate. cbn [bind] in H. inversion H; subst.
    destruct (enc_fld_bytes f a Hf Ea) as [-> Hl]. destruct (IH b' eq_refl) as [-> Hl'].
    split; [reflexivity|]. rewrite lenN_app, Hl, Hl'. reflexivity.
Qed.
(* every packet: the standard's frame around the bytes of the field list *)
Theorem enc_packet_spec hdr fs b : Forall fld_ok fs -> enc_packet hdr fs = Ok b ->
  b = spec_packet hdr (flds_bytes fs) /\ lenN (flds_bytes fs) <= VMAX.
Proof.
  intros Hw H. unfold enc_packet, venc_checked in H.
  destruct (vlen (blen_flds fs)) as [l|] eqn:El; [|discriminate]. cbn [bind] in H.
  destruct (enc_flds fs) as [body| |] eqn:Eb; try discriminate. cbn [bind] in H. inversion H; subst.
  destruct (enc_flds_bytes fs Hw body Eb) as [-> Hl]. pose proof (vlen_some _ _ El) as Hm.
  rewrite <- Hl in *. unfold spec_packet. rewrite spec_varint_venc by exact Hm. auto.
Qed.

(* the property lists the option records give rise to never contain a variable byte integer
   (except the subscription identifier, recorded with its minimal length) *)
Lemma len_ok_opt {A} id (f : A -> pval) o : (forall a, match f a with VV _ _ => False | _ => True end) ->
  Forall len_ok (opt_prop id f o).
Proof.
  intros Hf. destruct o as [a|]; [|constructor]. constructor; [|constructor].
  unfold len_ok. cbn [snd]. specialize (Hf a). destruct (f a); auto. contradiction.
Qed.
Lemma len_ok_users l : Forall len_ok (user_props l).
Proof. induction l as [|kv l IH]; [constructor|]. constructor; [exact I|exact IH]. Qed.
Ltac len_ok_tac := repeat (apply Forall_app; split);
  try apply len_ok_users; try (apply len_ok_opt; intros; exact I).

(* ---- abstraction: what the caller's options say the packet contains --------------------------------------- *)
Definition abs_connect (o : connect_opts) : connect_value :=
  {| cv_clean_start := co_cs o; cv_keep_alive := co_ka o; cv_props := connect_props o; cv_client_id := co_cid o;
     cv_will := match co_wt o, co_wp o with
                | Some t, Some p => Some {| wv_qos := co_wq o; wv_retain := co_wr o; wv_props := will_props o;
                                            wv_topic := t; wv_payload := p |}
                | _, _ => None end;
     cv_user_name := co_un o; cv_password := co_pw o |}.
(* the property's domain: will QoS / retain are unset when there is no will; a will is either absent or
   has both topic and payload *)
Definition will_consistent (o : connect_opts) : Prop :=
  (will_flag o = false -> co_wq o = 0 /\ co_wr o = false /\ co_wt o = None /\ co_wp o = None) /\ co_wq o <= 2.
Definition connect_sizes_ok (o : connect_opts) : Prop :=
  co_ka o < 65536 /\ lenN (co_cid o) < 65536 /\
  (forall b, co_wt o = Some b -> lenN b < 65536) /\ (forall b, co_wp o = Some b -> lenN b < 65536) /\
  (forall b, co_un o = Some b -> lenN b < 65536) /\ (forall b, co_pw o = Some b -> lenN b < 65536).

Lemma connect_fields_ok o : Forall fld_ok (connect_fields o).
Proof.
  unfold connect_fields. repeat (apply Forall_app; split); repeat constructor; try exact I;
    try (unfold connect_props; len_ok_tac).
  - destruct (will_flag o); [|constructor]. constructor; [unfold will_props; cbn [fld_ok]; len_ok_tac|].
    apply Forall_app; split; destruct (co_wt o), (co_wp o); repeat constructor.
  - destruct (co_un o); repeat constructor.
  - destruct (co_pw o); repeat constructor.
Qed.

Lemma connect_flags_spec o : will_consistent o ->
  connect_flags o mod 256 = spec_connect_flags (abs_connect o).
Proof.
  intros [Hwc Hq]. unfold connect_flags, spec_connect_flags, abs_connect, will_flag in *.
  cbn [cv_user_name cv_password cv_will cv_clean_start].
  destruct (co_un o), (co_pw o), (co_cs o); cbn [isSome b2n];
    destruct (co_wt o) as [t|], (co_wp o) as [p|]; cbn [isSome andb b2n wv_retain wv_qos] in *;
    try (destruct (Hwc eq_refl) as [-> [-> _]]); cbn [b2n]; try destruct (co_wr o); cbn [b2n]; lia.
Qed.

Theorem enc_connect_spec o b : will_consistent o -> connect_sizes_ok o -> enc_connect o = Ok b ->
  b = spec_connect (abs_connect o).
Proof.
  intros Hcons [Hka [Hcid [Hwt [Hwp [Hun Hpw]]]]] H. unfold enc_connect in H.
  destruct (negb (isSome (co_am o)) && isSome (co_ad o)); [discriminate|].
  destruct (enc_packet_spec _ _ _ (connect_fields_ok o) H) as [-> _]. clear H. unfold spec_connect. f_equal.
  pose proof (connect_flags_spec o Hcons) as Hflags. destruct Hcons as [Hwc _].
  unfold flds_bytes, connect_fields. rewrite !map_app, !concat_app. cbn [map concat fld_bytes app].
  rewrite Hflags, enc_u16_spec by exact Hka. rewrite (enc_bin_spec (co_cid o)) by exact Hcid. clear Hflags.
  set (fl := spec_connect_flags (abs_connect o)). clearbody fl.
  change (enc_bin [77; 81; 84; 84]) with [0; 4; 77; 81; 84; 84]. change (5 mod 256) with 5.
  unfold will_flag in *. unfold abs_connect.
  cbn [cv_keep_alive cv_props cv_client_id cv_will cv_user_name cv_password].
  destruct (co_wt o) as [t|] eqn:Et, (co_wp o) as [p|] eqn:Ep; cbn [isSome andb] in *;
    try (destruct (Hwc eq_refl) as [_ [_ [Hc1 Hc2]]]; discriminate);
    destruct (co_un o) as [u|] eqn:Eu, (co_pw o) as [w|] eqn:Ew;
    cbn [opt_fld map concat fld_bytes opt_bytes app wv_props wv_topic wv_payload];
    rewrite ?(enc_bin_spec t) by (apply Hwt; reflexivity); rewrite ?(enc_bin_spec p) by (apply Hwp; reflexivity);
    rewrite ?(enc_bin_spec u) by (apply Hun; reflexivity); rewrite ?(enc_bin_spec w) by (apply Hpw; reflexivity);
    rewrite ?app_nil_r, <- ?app_assoc; cbn [app]; rewrite ?app_nil_r, <- ?app_assoc; reflexivity.
Qed.

(* ---- PUBLISH: the packet of Spec/Mqtt.v, hence (C02_publish) decodable to exactly the caller's values ---------- *)
Definition publish_body (o : publish_opts) (t : bytes) (pid : N) : bytes :=
  enc_bin t ++ (if po_qos o =? 0 then [] else enc_u16 pid) ++ spec_props (publish_props o) ++
  match po_payload o with Some p => p | None => [] end.
Theorem enc_publish_spec_len o pid b t : po_topic o = Some t -> po_qos o <= 2 -> lenN t < 65536 -> pid < 65536 ->
  enc_publish o pid = Ok b ->
  b = spec_publish false (po_qos o) (po_retain o) t pid (publish_props o)
        (match po_payload o with Some p => p | None => [] end) /\
  lenN (publish_body o t pid) <= VMAX.
Proof.
  intros Ht Hq Hl Hp H. unfold enc_publish in H. rewrite Ht in H.
  assert (Hok : Forall fld_ok ([FBin t] ++ (if po_qos o =? 0 then [] else [F16 pid]) ++ [FProps (publish_props o)] ++
                               match po_payload o with Some p => [FRaw p] | None => [] end)).
  { repeat (apply Forall_app; split); repeat constructor; try exact I.
    - destruct (po_qos o =? 0); repeat constructor.
    - unfold publish_props. len_ok_tac.
    - destruct (po_payload o); repeat constructor. }
  destruct (enc_packet_spec _ _ _ Hok H) as [-> Hlen].
  assert (Hb : flds_bytes ([FBin t] ++ (if po_qos o =? 0 then [] else [F16 pid]) ++ [FProps (publish_props o)] ++
                           match po_payload o with Some p => [FRaw p] | None => [] end) = publish_body o t pid).
  { unfold flds_bytes, publish_body. rewrite !map_app, !concat_app. cbn [map concat fld_bytes app]. rewrite app_nil_r.
    f_equal. destruct (po_qos o =? 0); cbn [map concat app fld_bytes]; rewrite ?app_nil_r; f_equal;
      destruct (po_payload o); cbn [map concat fld_bytes]; rewrite ?app_nil_r; reflexivity. }
  rewrite Hb in *. split; [|exact Hlen]. unfold spec_publish.
  replace (publish_hdr false o) with (48 + b2n' false * 8 + po_qos o * 2 + b2n' (po_retain o))
    by (unfold publish_hdr; destruct (po_retain o); reflexivity).
  reflexivity.
Qed.
Theorem enc_publish_spec o pid b t : po_topic o = Some t -> po_qos o <= 2 -> lenN t < 65536 -> pid < 65536 ->
  enc_publish o pid = Ok b ->
  b = spec_publish false (po_qos o) (po_retain o) t pid (publish_props o)
        (match po_payload o with Some p => p | None => [] end).
Proof. intros. eapply enc_publish_spec_len; eassumption. Qed.

(* ---- SUBSCRIBE ------------------------------------------------------------------------------------------------------ *)
Definition abs_filter (f : sub_filter) : filter_value :=
  {| fv_topic := sf_topic f; fv_qos := sf_qos f; fv_no_local := sf_nl f; fv_rap := sf_rap f; fv_retain_handling := sf_rh f |}.
Lemma sub_options_spec f : sf_qos f <= 2 -> sf_rh f <= 2 -> sub_options f mod 256 = spec_sub_options (abs_filter f).
Proof.
  intros Hq Hr. unfold sub_options, spec_sub_options, abs_filter. cbn [fv_qos fv_no_local fv_rap fv_retain_handling].
  destruct (sf_nl f), (sf_rap f); cbn [b2n]; lia.
Qed.
Definition filter_ok (f : sub_filter) : Prop := sf_qos f <= 2 /\ sf_rh f <= 2 /\ lenN (sf_topic f) < 65536.

Lemma filters_bytes l : Forall filter_ok l ->
  concat (map fld_bytes (flat_map (fun f => [FBin (sf_topic f); F8 (sub_options f)]) l)) =
  concat (map (fun f => spec_bin (fv_topic f) ++ [spec_sub_options f]) (map abs_filter l)).
Proof.
  induction 1 as [|f l0 [Hq [Hr Hl]] Hfs IH]; [reflexivity|].
  cbn [flat_map map concat app fld_bytes]. rewrite IH. rewrite sub_options_spec by assumption.
  rewrite (enc_bin_spec (sf_topic f)) by exact Hl. unfold abs_filter at 1 2. cbn [fv_topic]. rewrite <- app_assoc. reflexivity.
Qed.
Lemma unsub_filters_bytes l : Forall (fun t : bytes => lenN t < 65536) l ->
  concat (map fld_bytes (map FBin l)) = concat (map spec_bin l).
Proof.
  induction 1 as [|t l0 Hl Hfs IH]; [reflexivity|]. cbn [map concat fld_bytes]. rewrite IH, (enc_bin_spec t) by exact Hl. reflexivity.
Qed.

Theorem enc_subscribe_spec o pid subid b : so_filters o <> [] -> Forall filter_ok (so_filters o) -> pid < 65536 ->
  enc_subscribe o pid subid = Ok b ->
  exists l, vlen subid = Some l /\
  b = spec_subscribe pid ((11, VV subid l) :: user_props (so_up o)) (map abs_filter (so_filters o)).
Proof.
  intros Hne Hf Hp H. unfold enc_subscribe in H. destruct (so_filters o) as [|f0 fs] eqn:Ef; [contradiction|].
  destruct (vlen subid) as [l|] eqn:El; [|discriminate]. exists l. split; [reflexivity|].
  assert (Hok : Forall fld_ok ([F16 pid; FProps ((11, VV subid l) :: user_props (so_up o))] ++
                               flat_map (fun f => [FBin (sf_topic f); F8 (sub_options f)]) (f0 :: fs))).
  { apply Forall_app; split.
    - constructor; [exact I|]. constructor; [|constructor]. cbn [fld_ok]. constructor; [|apply len_ok_users].
      unfold len_ok. cbn [snd]. split; [exact (vlen_some _ _ El)|]. unfold VarintP.vlen0. rewrite El. reflexivity.
    - apply Forall_forall. intros x Hx. apply in_flat_map in Hx. destruct Hx as [f [_ [<-|[<-|[]]]]]; exact I. }
  destruct (enc_packet_spec _ _ _ Hok H) as [-> _]. unfold spec_subscribe. f_equal.
  unfold flds_bytes. rewrite map_app, concat_app, (filters_bytes _ Hf). cbn [map concat fld_bytes app].
  rewrite enc_u16_spec by exact Hp. rewrite app_nil_r, <- !app_assoc. reflexivity.
Qed.

(* ---- UNSUBSCRIBE ---------------------------------------------------------------------------------------------------- *)
Theorem enc_unsubscribe_spec o pid b : uo_filters o <> [] -> Forall (fun t : bytes => lenN t < 65536) (uo_filters o) -> pid < 65536 ->
  enc_unsubscribe o pid = Ok b -> b = spec_unsubscribe pid (user_props (uo_up o)) (uo_filters o).
Proof.
  intros Hne Hf Hp H. unfold enc_unsubscribe in H. destruct (uo_filters o) as [|f0 fs] eqn:Ef; [contradiction|].
  assert (Hok : Forall fld_ok ([F16 pid; FProps (user_props (uo_up o))] ++ map FBin (f0 :: fs))).
  { apply Forall_app; split; [constructor; [exact I|]; constructor; [apply len_ok_users|constructor]|].
    apply Forall_forall. intros x Hx. apply in_map_iff in Hx. destruct Hx as [t [<- _]]. exact I. }
  destruct (enc_packet_spec _ _ _ Hok H) as [-> _]. unfold spec_unsubscribe. f_equal.
  unfold flds_bytes. rewrite map_app, concat_app, (unsub_filters_bytes _ Hf). cbn [map concat fld_bytes app].
  rewrite enc_u16_spec by exact Hp. rewrite app_nil_r, <- !app_assoc. reflexivity.
Qed.

(* ---- DISCONNECT, AUTH, PINGREQ, acknowledgements ---------------------------------------------------------------------- *)
Theorem enc_disconnect_spec o b : do_reason o < 256 -> enc_disconnect o = Ok b ->
  b = spec_disconnect_tx (do_reason o) (disconnect_props o).
Proof.
  intros Hr H. unfold enc_disconnect in H.
  assert (Hok : Forall fld_ok [F8 (do_reason o); FProps (disconnect_props o)]).
  { constructor; [exact I|]. constructor; [|constructor]. cbn [fld_ok]. unfold disconnect_props. len_ok_tac. }
  destruct (enc_packet_spec _ _ _ Hok H) as [-> _]. unfold spec_disconnect_tx, flds_bytes. cbn [map concat fld_bytes app].
  rewrite app_nil_r. replace (do_reason o mod 256) with (do_reason o) by lia. reflexivity.
Qed.
Theorem enc_auth_spec o b : ao_reason o < 256 -> enc_auth o = Ok b ->
  b = spec_auth_tx (ao_reason o) (auth_props o) (auth_shortened o).
Proof.
  intros Hr H. unfold enc_auth in H. destruct (auth_shortened o); cbn [negb andb] in H.
  - inversion H. reflexivity.
  - destruct (negb (isSome (ao_am o)) || negb (isSome (ao_ad o))); [discriminate|].
    assert (Hok : Forall fld_ok [F8 (ao_reason o); FProps (auth_props o)]).
    { constructor; [exact I|]. constructor; [|constructor]. cbn [fld_ok]. unfold auth_props. len_ok_tac. }
    destruct (enc_packet_spec _ _ _ Hok H) as [-> _]. unfold spec_auth_tx, flds_bytes. cbn [map concat fld_bytes app].
    rewrite app_nil_r. replace (ao_reason o mod 256) with (ao_reason o) by lia. reflexivity.
Qed.
Theorem fixed_packets_spec pid : pid < 65536 ->
  enc_pingreq = spec_pingreq /\ enc_pubrel pid = spec_ack 98 pid 0 [] AckShort2 /\
  enc_puback pid = spec_ack 64 pid 0 [] AckShort2 /\ enc_pubrec pid = spec_ack 80 pid 0 [] AckShort2 /\
  enc_pubcomp pid = spec_ack 112 pid 0 [] AckShort2.
Proof. intros H. repeat split. Qed.

(* ---- the property lists carry exactly the caller's optional values, nothing else ---------------------------------- *)
Lemma pfirst_users id l : id <> 38 -> pfirst id (user_props l) = None.
Proof.
  intros H. induction l as [|kv l IH]; [reflexivity|]. cbn [user_props map pfirst].
  replace (38 =? id) with false by (symmetry; apply N.eqb_neq; congruence). exact IH.
Qed.
Lemma users_user_props l : users (user_props l) = l.
Proof. induction l as [|[k v] l IH]; [reflexivity|]. cbn [user_props map users flat_map fst snd app]. f_equal. exact IH. Qed.
Lemma in_user_props p l : In p (user_props l) -> fst p = 38.
Proof. unfold user_props. intros H. apply in_map_iff in H. destruct H as [kv [<- _]]. reflexivity. Qed.

Ltac props_view := 
  repeat match goal with |- context [match ?o with Some _ => _ | None => _ end] => destruct o end;
  cbn [opt_prop app pfirst users flat_map option_map fst snd N.eqb Pos.eqb];
  rewrite ?pfirst_users by discriminate; rewrite ?users_user_props; try reflexivity.

Theorem publish_props_view o : let ps := publish_props o in
  pfirst 1 ps = option_map VB (po_pfi o) /\ pfirst 35 ps = option_map V16 (po_ta o) /\
  pfirst 2 ps = option_map V32 (po_mei o) /\ pfirst 9 ps = option_map VBin (po_cd o) /\
  pfirst 8 ps = option_map VStr (po_rt o) /\ pfirst 3 ps = option_map VStr (po_ct o) /\
  users ps = po_up o /\ (forall p, In p ps -> In (fst p) publish_ids).
Proof.
  cbv zeta. unfold publish_props.
  destruct (po_pfi o), (po_ta o), (po_mei o), (po_cd o), (po_rt o), (po_ct o);
    cbn [opt_prop app pfirst users flat_map option_map fst snd];
    repeat (change (?a =? ?b) with false || change (?a =? ?a) with true); cbv iota;
    rewrite ?pfirst_users by discriminate; rewrite ?users_user_props;
    repeat split; try reflexivity;
    intros p Hp; cbn [In] in Hp;
    repeat (destruct Hp as [<-|Hp]; [cbn; tauto|]); apply in_user_props in Hp; rewrite Hp; cbn; tauto.
Qed.

Ltac view_tac :=
  cbn [opt_prop app pfirst users flat_map option_map fst snd];
  repeat (change (?a =? ?b) with false || change (?a =? ?a) with true); cbv iota;
  rewrite ?pfirst_users by discriminate; rewrite ?users_user_props;
  repeat split; try reflexivity;
  intros p Hp; cbn [In] in Hp;
  repeat (destruct Hp as [<-|Hp]; [cbn; tauto|]); apply in_user_props in Hp; rewrite Hp; cbn; tauto.

Theorem connect_props_view o : let ps := connect_props o in
  pfirst 17 ps = option_map V32 (co_sei o) /\ pfirst 33 ps = option_map V16 (co_rm o) /\
  pfirst 39 ps = option_map V32 (co_mps o) /\ pfirst 34 ps = option_map V16 (co_tam o) /\
  pfirst 25 ps = option_map VB (co_rri o) /\ pfirst 23 ps = option_map VB (co_rpi o) /\
  pfirst 21 ps = option_map VStr (co_am o) /\ pfirst 22 ps = option_map VBin (co_ad o) /\
  users ps = co_up o /\ (forall p, In p ps -> In (fst p) connect_tx_ids).
Proof.
  cbv zeta. unfold connect_props.
  destruct (co_sei o), (co_rm o), (co_mps o), (co_tam o), (co_rri o), (co_rpi o), (co_am o), (co_ad o); view_tac.
Qed.
Theorem will_props_view o : let ps := will_props o in
  pfirst 24 ps = option_map V32 (co_wdi o) /\ pfirst 1 ps = option_map VB (co_wpfi o) /\
  pfirst 2 ps = option_map V32 (co_wmei o) /\ pfirst 3 ps = option_map VStr (co_wct o) /\
  pfirst 8 ps = option_map VStr (co_wrt o) /\ pfirst 9 ps = option_map VBin (co_wcd o) /\
  users ps = co_wup o /\ (forall p, In p ps -> In (fst p) will_ids).
Proof.
  cbv zeta. unfold will_props.
  destruct (co_wdi o), (co_wpfi o), (co_wmei o), (co_wct o), (co_wrt o), (co_wcd o); view_tac.
Qed.
Theorem disconnect_props_view o : let ps := disconnect_props o in
  pfirst 17 ps = option_map V32 (do_sei o) /\ pfirst 31 ps = option_map VStr (do_rs o) /\
  users ps = do_up o /\ (forall p, In p ps -> In (fst p) [17; 31; 38]).
Proof. cbv zeta. unfold disconnect_props. destruct (do_sei o), (do_rs o); view_tac. Qed.
Theorem auth_props_view o : let ps := auth_props o in
  pfirst 21 ps = option_map VStr (ao_am o) /\ pfirst 22 ps = option_map VBin (ao_ad o) /\
  users ps = ao_up o /\ (forall p, In p ps -> In (fst p) auth_ids).
Proof. cbv zeta. unfold auth_props. destruct (ao_am o), (ao_ad o); view_tac. Qed.
