(* C07 at the boundaries of a connection: what ends a connection does not end a stream. The user's DISCONNECT (handled as a
   fire-and-forget request), run() returning for whatever reason, and set_up() installing the next transport leave the table of
   subscriptions and every stream - buffer, sender, receiver - exactly as they are. Only the departure of the Context
   (C14_drop_closes_streams) and the expiry of the session on the next run() (C17_expired) close stream senders.
   (Seeded defect C07-9A reset the session after writing a DISCONNECT with Session Expiry Interval 0.) *)
From Poster Require Import Model.Sim Proofs.BytesP Proofs.ClientP.

Lemma cancel_streams s i ph : streams (cancel s i ph) = streams s.
Proof. unfold cancel. destruct (alookup i (ops s)); reflexivity. Qed.

Definition same_streams (s s' : sys) : Prop := subs (c s') = subs (c s) /\ streams s' = streams s.

Theorem fire_keeps_streams s i pkt : same_streams s (fst (handle_message s (MFire i pkt))).
Proof.
  unfold same_streams. cbn [handle_message]. destruct (negb (size_ok (c s) pkt)); cbn [fst].
  - rewrite complete_c, complete_streams. split; reflexivity.
  - destruct (negb (snd (write s pkt))); cbn [fst].
    + rewrite cancel_c, cancel_streams, write_c, write_streams. split; reflexivity.
    + rewrite complete_c, complete_streams, write_c, write_streams. split; reflexivity.
Qed.
Theorem exit_keeps_streams s r : same_streams s (exit_run s r).
Proof. split; reflexivity. Qed.
Theorem set_up_keeps_streams s : same_streams s (fst (step s EReconnect)).
Proof. split; reflexivity. Qed.
Theorem connack_keeps_subs x p : subs (handle_connack x p) = subs x.
Proof. reflexivity. Qed.
