(* Packet identifier allocation (ContextHandle::next_packet_id over the shared AtomicU16) and
   subscription identifiers: C11. The atomic's total modification order makes every history of
   allocations, from whatever clones and threads, one sequence of alloc_pid steps. *)
From Poster Require Import Model.Client.
From Coq Require Import ZArith ZifyN ZifyBool ZifyNat.
Ltac Zify.zify_post_hook ::= Z.div_mod_to_equations.
Arguments N.add : simpl never. Arguments N.mul : simpl never. Arguments N.modulo : simpl never.
Arguments N.ltb : simpl never. Arguments N.leb : simpl never. Arguments N.eqb : simpl never.

(* the identifiers handed out by n consecutive allocations starting from counter value ctr *)
Fixpoint allocs (n : nat) (ctr : N) : list N :=
  match n with
  | O => []
  | S k => let (id, ctr') := alloc_pid ctr in id :: allocs k ctr'
  end.

(* position of a counter value on the cycle 1 .. 65535 (0 is skipped, it behaves like 1) *)
Definition norm (ctr : N) : N := if ctr =? 0 then 1 else ctr.

Lemma alloc_pid_spec ctr : ctr < 65536 ->
  fst (alloc_pid ctr) = norm ctr /\ snd (alloc_pid ctr) < 65536 /\
  norm (snd (alloc_pid ctr)) = norm ctr mod 65535 + 1.
Proof.
  intros H. unfold alloc_pid, norm. destruct (ctr =? 0) eqn:E; cbn [fst snd].
  - split; [reflexivity|]. split; [lia|]. reflexivity.
  - apply N.eqb_neq in E. split; [reflexivity|]. split; [lia|].
    destruct ((ctr + 1) mod 65536 =? 0) eqn:E2; lia.
Qed.

Lemma allocs_nth : forall n ctr k, ctr < 65536 -> (k < n)%nat ->
  nth k (allocs n ctr) 0 = (norm ctr - 1 + N.of_nat k) mod 65535 + 1.
Proof.
  induction n as [|n IH]; intros ctr k Hc Hk; [lia|].
  cbn [allocs]. destruct (alloc_pid ctr) as [id ctr'] eqn:E.
  destruct (alloc_pid_spec ctr Hc) as [H1 [H2 H3]]. rewrite E in H1, H2, H3. cbn [fst snd] in *.
  assert (Hn : 1 <= norm ctr <= 65535) by (unfold norm; destruct (ctr =? 0) eqn:?; lia).
  destruct k as [|k]; cbn [nth].
  - subst id. lia.
  - rewrite IH by lia. rewrite H3. lia.
Qed.
Lemma allocs_length n : forall ctr, length (allocs n ctr) = n.
Proof.
  induction n as [|n IH]; intros ctr; cbn [allocs]; [reflexivity|].
  destruct (alloc_pid ctr). cbn [length]. rewrite IH. reflexivity.
Qed.

(* every identifier is a valid packet identifier *)
Theorem allocs_nonzero n ctr id : ctr < 65536 -> In id (allocs n ctr) -> 1 <= id <= 65535.
Proof.
  intros Hc Hin. apply (In_nth _ _ 0) in Hin. destruct Hin as [k [Hk Hn]].
  rewrite allocs_length in Hk. rewrite allocs_nth in Hn by assumption. lia.
Qed.

(* two identifiers handed out fewer than 65535 allocations apart differ *)
Theorem allocs_window n ctr i j : ctr < 65536 -> (i < j < n)%nat -> N.of_nat j - N.of_nat i < 65535 ->
  nth i (allocs n ctr) 0 <> nth j (allocs n ctr) 0.
Proof.
  intros Hc Hij Hw. rewrite !allocs_nth by (assumption || lia).
  assert (Hn : 1 <= norm ctr <= 65535) by (unfold norm; destruct (ctr =? 0) eqn:?; lia).
  intros Heq.
  assert (E : (norm ctr - 1 + N.of_nat i) mod 65535 = (norm ctr - 1 + N.of_nat j) mod 65535) by lia.
  clear Heq.
  (* equal residues of two numbers less than 65535 apart *)
  set (a := norm ctr - 1 + N.of_nat i) in *. set (b := norm ctr - 1 + N.of_nat j) in *.
  assert (Hab : a < b /\ b - a < 65535) by (subst a b; lia).
  clearbody a b. lia.
Qed.
Corollary allocs_nodup n ctr : ctr < 65536 -> N.of_nat n <= 65535 -> NoDup (allocs n ctr).
Proof.
  intros Hc Hn. apply (NoDup_nth _ 0). intros i j Hi Hj E. rewrite allocs_length in Hi, Hj.
  destruct (Nat.lt_total i j) as [H|[H|H]]; [|assumption|].
  - exfalso. apply (allocs_window n ctr i j Hc); lia || assumption.
  - exfalso. apply (allocs_window n ctr j i Hc); [lia|lia|]. symmetry; assumption.
Qed.

(* the counter stays a u16, so the statement above applies again after any number of steps *)
Lemma alloc_pid_range ctr : ctr < 65536 -> snd (alloc_pid ctr) < 65536.
Proof. intros H. apply alloc_pid_spec; assumption. Qed.

(* subscription identifiers: sub_id.fetch_add from 1; the first 2^28 - 1 calls get pairwise
   distinct non-zero identifiers that fit a variable byte integer *)
Fixpoint suballocs (n : nat) (ctr : N) : list N :=
  match n with
  | O => []
  | S k => let (id, ctr') := alloc_subid ctr in id :: suballocs k ctr'
  end.
Lemma suballocs_nth : forall n ctr k, (k < n)%nat -> ctr + N.of_nat n <= 4294967296 ->
  nth k (suballocs n ctr) 0 = ctr + N.of_nat k.
Proof.
  induction n as [|n IH]; intros ctr k Hk Hb; [lia|]. cbn [suballocs alloc_subid].
  destruct k as [|k]; cbn [nth]; [lia|]. rewrite IH by lia. lia.
Qed.
Theorem suballocs_fresh n k : (k < n)%nat -> N.of_nat n <= 268435455 ->
  nth k (suballocs n 1) 0 = 1 + N.of_nat k /\ 1 <= nth k (suballocs n 1) 0 <= 268435455.
Proof. intros Hk Hn. rewrite suballocs_nth by lia. lia. Qed.
