(* Variable byte integer: VarSizeInt in src/core/base_types.rs. *)
From Poster Require Export Model.Bytes.

Definition VMAX : N := 268435455.
Definition U32 : N := 4294967296.

(* TryFrom<usize> for VarSizeInt: how many bytes the value takes; None above MAX (the callers
   .unwrap() the result, i.e. panic). *)
Definition vlen (n : N) : option N :=
  if n <=? 127 then Some 1
  else if n <=? 16383 then Some 2
  else if n <=? 2097151 then Some 3
  else if n <=? VMAX then Some 4
  else None.

(* Encode for VarSizeInt, by representation. *)
Definition venc (n : N) : bytes :=
  match vlen n with
  | Some 1 => [n]
  | Some 2 => [n mod 128 + 128; (n / 128) mod 128]
  | Some 3 => [n mod 128 + 128; (n / 128) mod 128 + 128; (n / 16384) mod 128]
  | _ => [n mod 128 + 128; (n / 128) mod 128 + 128; (n / 16384) mod 128 + 128;
          (n / 2097152) mod 128]
  end.

Inductive vres := VOk (v len : N) | VInsufficient | VBad | VPanic.

(* TryFrom<&[u8]> for VarSizeInt: the for-loop, with u32 arithmetic; an overflowing u32
   operation is VPanic (overflow checks on); the theorems show it unreachable, so the
   wrapping (release) semantics coincides. *)
Fixpoint vdec_loop (bs : bytes) (idx mult val : N) : vres :=
  match bs with
  | [] => VInsufficient
  | b :: r =>
    if VMAX <? mult then VBad
    else
      let val' := val + N.land b 127 * mult in
      let mult' := mult * 128 in
      if (U32 <=? val') || (U32 <=? mult') then VPanic
      else if N.land b 128 =? 0 then
        (if idx <=? 3 then VOk val' (idx + 1) else VBad)
      else vdec_loop r (idx + 1) mult' val'
  end.
Definition vdec (bs : bytes) : vres := vdec_loop bs 0 1 0.

(* as a Decoder step: value and rest; VarSizeInt::byte_len = its representation's length,
   which is the number of bytes consumed *)
Definition dec_var (bs : bytes) : res (N * N) :=
  match vdec bs with
  | VOk v l => Ok (v, l)
  | VPanic => Panic
  | _ => Err
  end.
