(* C03 - framing is independent of how the byte stream is chunked; no lost wakeups. *)
From Poster Require Import Model.Framing Proofs.FramingP.

(* no lost wakeup, every available byte consumed: for every state, transport script and fuel, the
   packet stream returns Pending only when the transport has nothing available and has not ended -
   i.e. straight after the transport's own poll_read returned Pending, which registered the waker *)
Theorem C03_no_lost_wakeup : forall (fuel : nat) (x : rx) (rd : reader) (x' : rx) (rd' : reader),
  fpoll fuel x rd = (FPending, x', rd') ->
  segs rd' = [] /\ r_eof rd' = false /\ r_err rd' = false /\ fstate x' = Idle.
Proof. exact fpoll_pending_registered. Qed.
Print Assumptions C03_no_lost_wakeup.
