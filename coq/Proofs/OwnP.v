(* C14 at history level: in every state reachable through script events, every operation future that
   is waiting on an empty oneshot has that oneshot's sender owned by the Context (in the handle
   message queue or in awaiting_ack) - so dropping the Context resolves every one of them, and no
   future obtained from the library stays pending after that point. *)
From Poster Require Import Model.Sim Proofs.BytesP Proofs.ClientP Proofs.HandshakeP Proofs.SimInvP.
Arguments N.add : simpl never. Arguments N.mul : simpl never. Arguments N.sub : simpl never.
Arguments N.ltb : simpl never. Arguments N.leb : simpl never. Arguments N.eqb : simpl never.

Definition chan_of (o : op) (ph : N) : chan := if ph =? 1 then o_ch1 o else o_ch2 o.
Definition waiting_on (o : op) (ph : N) : Prop := (o_phase o = Wait1 /\ ph = 1) \/ (o_phase o = Wait2 /\ ph = 2).
Definition unresolved (s : sys) (i ph : N) : Prop :=
  exists o, alookup i (ops s) = Some o /\ waiting_on o ph /\ chan_of o ph = CEmpty.
Definition has_sender (s : sys) (i ph : N) : Prop :=
  (exists m, In m (msgq s) /\ msg_op m = (i, ph)) \/ (exists a, In (a, (i, ph)) (awaiting (c s))).
Definition Own (s : sys) : Prop :=
  forall i ph, unresolved s i ph -> ctx_alive s = true /\ has_sender s i ph.

(* how a step may change the picture: nothing becomes unresolved, and whatever stays unresolved
   keeps a sender *)
Definition Keeps (s s' : sys) : Prop :=
  ctx_alive s' = ctx_alive s /\
  forall i ph, unresolved s' i ph -> unresolved s i ph /\ (has_sender s i ph -> has_sender s' i ph).
Lemma Own_keeps s s' : Own s -> Keeps s s' -> Own s'.
Proof.
  intros Ho [Ha Hk] i ph Hu. destruct (Hk i ph Hu) as [Hu0 Hs]. destruct (Ho i ph Hu0) as [H1 H2].
  rewrite Ha. auto.
Qed.
Lemma Keeps_refl s : Keeps s s. Proof. split; [reflexivity|]. auto. Qed.
Lemma Keeps_trans s1 s2 s3 : Keeps s1 s2 -> Keeps s2 s3 -> Keeps s1 s3.
Proof.
  intros [A1 K1] [A2 K2]. split; [congruence|]. intros i ph Hu.
  destruct (K2 i ph Hu) as [Hu2 Hs2]. destruct (K1 i ph Hu2) as [Hu1 Hs1]. auto.
Qed.
(* states that agree on operations, queue, awaiting list and liveness *)
Definition core (s : sys) := (ops s, msgq s, awaiting (c s), ctx_alive s).
Lemma Keeps_core s s' : core s' = core s -> Keeps s s'.
Proof.
  unfold core. intros H. inversion H as [[H1 H2 H3 H4]]. split; [exact H4|]. intros i ph [o [Hl Hw]].
  split; [exists o; rewrite <- H1; auto|]. unfold has_sender. rewrite H2, H3. auto.
Qed.

(* ---- completing / cancelling one oneshot ------------------------------------------------------------------- *)
Lemma alookup_aset {A} k j (a : A) l : alookup j (aset k a l) = if k =? j then Some a else alookup j l.
Proof.
  destruct (k =? j) eqn:E.
  - apply N.eqb_eq in E. subst j. apply alookup_aset_same.
  - apply N.eqb_neq in E. apply alookup_aset_other. congruence.
Qed.
Lemma fill_not_empty ch v : fill_chan ch v = CEmpty -> False.
Proof. destruct ch; discriminate. Qed.
Lemma gone_not_empty ch : gone_chan ch = CEmpty -> False.
Proof. destruct ch; discriminate. Qed.

Lemma complete_keeps s i0 ph0 v : Keeps s (complete s i0 ph0 v) /\ ~ unresolved (complete s i0 ph0 v) i0 (if ph0 =? 1 then 1 else 2).
Proof.
  unfold complete. destruct (alookup i0 (ops s)) as [o0|] eqn:E0.
  - split.
    + split; [reflexivity|]. intros i ph [o [Hl [Hw Hc]]]. cbn [ops set_ops] in Hl. rewrite alookup_aset in Hl.
      split; [|unfold has_sender; cbn [msgq c set_ops]; auto].
      destruct (i0 =? i) eqn:Ei.
      * apply N.eqb_eq in Ei. subst i. inversion Hl; subst o. exists o0. split; [exact E0|].
        destruct (ph0 =? 1); unfold waiting_on, chan_of in *; cbn [o_phase o_ch1 o_ch2] in *;
          (split; [exact Hw|]); destruct (ph =? 1); try exact Hc; exfalso; eapply fill_not_empty; exact Hc.
      * exists o. auto.
    + intros [o [Hl [Hw Hc]]]. cbn [ops set_ops] in Hl. rewrite alookup_aset_same in Hl. inversion Hl; subst o.
      destruct (ph0 =? 1); unfold chan_of in Hc; cbn [N.eqb Pos.eqb o_ch1 o_ch2] in Hc;
        [change (1 =? 1) with true in Hc|change (2 =? 1) with false in Hc]; cbv iota in Hc; eapply fill_not_empty; exact Hc.
  - split; [apply Keeps_refl|]. intros [o [Hl _]]. rewrite E0 in Hl. discriminate.
Qed.
Lemma cancel_keeps s i0 ph0 : Keeps s (cancel s i0 ph0) /\ ~ unresolved (cancel s i0 ph0) i0 (if ph0 =? 1 then 1 else 2).
Proof.
  unfold cancel. destruct (alookup i0 (ops s)) as [o0|] eqn:E0.
  - split.
    + split; [reflexivity|]. intros i ph [o [Hl [Hw Hc]]]. cbn [ops set_ops] in Hl. rewrite alookup_aset in Hl.
      split; [|unfold has_sender; cbn [msgq c set_ops]; auto].
      destruct (i0 =? i) eqn:Ei.
      * apply N.eqb_eq in Ei. subst i. inversion Hl; subst o. exists o0. split; [exact E0|].
        destruct (ph0 =? 1); unfold waiting_on, chan_of in *; cbn [o_phase o_ch1 o_ch2] in *;
          (split; [exact Hw|]); destruct (ph =? 1); try exact Hc; exfalso; eapply gone_not_empty; exact Hc.
      * exists o. auto.
    + intros [o [Hl [Hw Hc]]]. cbn [ops set_ops] in Hl. rewrite alookup_aset_same in Hl. inversion Hl; subst o.
      destruct (ph0 =? 1); unfold chan_of in Hc; cbn [o_ch1 o_ch2] in Hc;
        [change (1 =? 1) with true in Hc|change (2 =? 1) with false in Hc]; cbv iota in Hc; eapply gone_not_empty; exact Hc.
  - split; [apply Keeps_refl|]. intros [o [Hl _]]. rewrite E0 in Hl. discriminate.
Qed.

(* ---- projections ------------------------------------------------------------------------------------------------ *)
Lemma core_write s p : core (fst (write s p)) = core s.
Proof. unfold write. destruct (wbudget s); [destruct (_ <=? _)|]; reflexivity. Qed.
Lemma core_close s j : core (close_stream_sender s j) = core s.
Proof. unfold close_stream_sender. destruct (alookup j (streams s)); reflexivity. Qed.
Lemma core_dispatch s sid p : core (dispatch s sid p) = core s.
Proof.
  unfold dispatch. destruct (alookup sid (subs (c s))) as [j|]; [|reflexivity].
  destruct (alookup j (streams s)) as [st|]; [destruct (st_recv st)|]; rewrite ?core_close; reflexivity.
Qed.
Lemma core_drop_recv s j : core (drop_recv s j) = core s.
Proof. unfold drop_recv. destruct (alookup j (streams s)); reflexivity. Qed.
Definition nph (ph : N) : N := if ph =? 1 then 1 else 2.

Lemma unres_core s s' i ph : core s' = core s -> unresolved s' i ph -> unresolved s i ph.
Proof. unfold core. intros H. inversion H as [[H1 H2 H3 H4]]. unfold unresolved. rewrite H1. auto. Qed.

(* ---- a handle message taken by the context ----------------------------------------------------------------------- *)
Lemma handle_message_sum s m : let s' := fst (handle_message s m) in
  ctx_alive s' = ctx_alive s /\ msgq s' = msgq s /\
  (forall x, In x (awaiting (c s)) -> In x (awaiting (c s'))) /\
  (forall i ph, unresolved s' i ph -> unresolved s i ph) /\
  (~ unresolved s' (fst (msg_op m)) (nph (snd (msg_op m))) \/ exists a, In (a, msg_op m) (awaiting (c s'))).
Proof.
  cbv zeta.
  assert (Hcomp : forall s0 i ph v, core s0 = core s ->
    ctx_alive (complete s0 i ph v) = ctx_alive s /\ msgq (complete s0 i ph v) = msgq s /\
    (forall x, In x (awaiting (c s)) -> In x (awaiting (c (complete s0 i ph v)))) /\
    (forall i' ph', unresolved (complete s0 i ph v) i' ph' -> unresolved s i' ph') /\
    ~ unresolved (complete s0 i ph v) i (nph ph)).
  { intros s0 i ph v Hc. destruct (complete_keeps s0 i ph v) as [[Ha Hk] Hn].
    unfold core in Hc. inversion Hc as [[H1 H2 H3 H4]].
    rewrite complete_msgq, complete_c, Ha, H2, H3, H4. repeat split; auto.
    intros i' ph' Hu. apply (unres_core s s0); [exact Hc|]. apply Hk. exact Hu. }
  assert (Hcanc : forall s0 i ph, core s0 = core s ->
    ctx_alive (cancel s0 i ph) = ctx_alive s /\ msgq (cancel s0 i ph) = msgq s /\
    (forall x, In x (awaiting (c s)) -> In x (awaiting (c (cancel s0 i ph)))) /\
    (forall i' ph', unresolved (cancel s0 i ph) i' ph' -> unresolved s i' ph') /\
    ~ unresolved (cancel s0 i ph) i (nph ph)).
  { intros s0 i ph Hc. destruct (cancel_keeps s0 i ph) as [[Ha Hk] Hn].
    unfold core in Hc. inversion Hc as [[H1 H2 H3 H4]].
    assert (Hm : msgq (cancel s0 i ph) = msgq s0) by (unfold cancel; destruct (alookup i (ops s0)); reflexivity).
    rewrite Hm, cancel_c, Ha, H2, H3, H4. repeat split; auto.
    intros i' ph' Hu. apply (unres_core s s0); [exact Hc|]. apply Hk. exact Hu. }
  assert (Happ : forall s0 x0 a i ph, core s0 = core s -> x0 = with_awaiting (c s0) (awaiting (c s0) ++ [(a, (i, ph))]) ->
    forall s1, core s1 = (ops s0, msgq s0, awaiting x0, ctx_alive s0) ->
    ctx_alive s1 = ctx_alive s /\ msgq s1 = msgq s /\
    (forall x, In x (awaiting (c s)) -> In x (awaiting (c s1))) /\
    (forall i' ph', unresolved s1 i' ph' -> unresolved s i' ph') /\
    exists a', In (a', (i, ph)) (awaiting (c s1))).
  { intros s0 x0 a i ph Hc -> s1 H1. unfold core in *. inversion Hc as [[A1 A2 A3 A4]]. inversion H1 as [[B1 B2 B3 B4]].
    cbn [awaiting with_awaiting] in B3. rewrite B2, B3, B4, A2, A3, A4. repeat split; auto.
    - intros x Hx. apply in_or_app. auto.
    - intros i' ph' [o Hu]. exists o. rewrite <- A1, <- B1. exact Hu.
    - exists a. apply in_or_app. right. left. reflexivity. }
  unfold handle_message. cbv zeta. destruct m as [i p|i ph a p|i a sid p]; cbn [msg_op fst snd].
  - destruct (negb (size_ok (c s) p)); cbn [fst].
    + destruct (Hcomp s i 1 CTooBig eq_refl) as [H1 [H2 [H3 [H4 H5]]]]. auto 6.
    + destruct (negb (snd (write s p))); cbn [fst].
      * destruct (Hcanc (fst (write s p)) i 1 (core_write s p)) as [H1 [H2 [H3 [H4 H5]]]]. auto 6.
      * destruct (Hcomp (fst (write s p)) i 1 CUnit (core_write s p)) as [H1 [H2 [H3 [H4 H5]]]]. auto 6.
  - destruct (negb (size_ok (c s) p)); cbn [fst].
    + destruct (Hcomp s i ph CTooBig eq_refl) as [H1 [H2 [H3 [H4 H5]]]]. auto 6.
    + destruct (ptype_of p =? 3).
      * destruct (quota (c s) =? 0); cbn [fst].
        -- destruct (Hcomp s i ph CQuota eq_refl) as [H1 [H2 [H3 [H4 H5]]]]. auto 6.
        -- set (s0 := set_c s (with_quota (c s) (quota (c s) - 1))).
           assert (Hc0 : core (fst (write s0 p)) = core s) by (rewrite core_write; reflexivity).
           destruct (negb (snd (write s0 p))); cbn [fst].
           ++ destruct (Hcanc (fst (write s0 p)) i ph Hc0) as [H1 [H2 [H3 [H4 H5]]]]. auto 6.
           ++ match goal with |- context [set_c ?sw ?x] =>
                destruct (Happ sw (with_awaiting (c sw) (awaiting (c sw) ++ [(a, (i, ph))])) a i ph Hc0 eq_refl (set_c sw x) eq_refl)
                  as [H1 [H2 [H3 [H4 H5]]]] end. auto 6.
      * destruct (ptype_of p =? 6).
        -- assert (Hc0 : core (fst (write s p)) = core s) by apply core_write.
           destruct (negb (snd (write s p))); cbn [fst].
           ++ destruct (Hcanc (fst (write s p)) i ph Hc0) as [H1 [H2 [H3 [H4 H5]]]]. auto 6.
           ++ match goal with |- context [set_c ?sw ?x] =>
                destruct (Happ sw (with_awaiting (c sw) (awaiting (c sw) ++ [(a, (i, ph))])) a i ph Hc0 eq_refl (set_c sw x) eq_refl)
                  as [H1 [H2 [H3 [H4 H5]]]] end. auto 6.
        -- assert (Hc0 : core (fst (write s p)) = core s) by apply core_write.
           destruct (negb (snd (write s p))); cbn [fst].
           ++ destruct (Hcanc (fst (write s p)) i ph Hc0) as [H1 [H2 [H3 [H4 H5]]]]. auto 6.
           ++ match goal with |- context [set_c ?sw ?x] =>
                destruct (Happ sw (with_awaiting (c sw) (awaiting (c sw) ++ [(a, (i, ph))])) a i ph Hc0 eq_refl (set_c sw x) eq_refl)
                  as [H1 [H2 [H3 [H4 H5]]]] end. auto 6.
  - destruct (negb (size_ok (c s) p)); cbn [fst].
    + destruct (Hcomp s i 1 CTooBig eq_refl) as [H1 [H2 [H3 [H4 H5]]]].
      pose proof (core_close (complete s i 1 CTooBig) i) as Hcl. unfold core in Hcl. inversion Hcl as [[C1 C2 C3 C4]].
      rewrite C2, C3, C4. repeat split; auto.
      * intros i' ph' [o Hu]. apply H4. exists o. rewrite <- C1. exact Hu.
      * left. intros [o Hu]. apply H5. exists o. rewrite <- C1. exact Hu.
    + set (x1 := with_subs (with_awaiting (c s) (awaiting (c s) ++ [(a, (i, 1))])) (subs (with_awaiting (c s) (awaiting (c s) ++ [(a, (i, 1))])) ++ [(sid, i)])).
      pose proof (core_write (set_c s x1) p) as Hw.
      destruct (Happ s (with_awaiting (c s) (awaiting (c s) ++ [(a, (i, 1))])) a i 1 eq_refl eq_refl (fst (write (set_c s x1) p)))
        as [H1 [H2 [H3 [H4 H5]]]]; [rewrite Hw; reflexivity|]. auto 6.
Qed.

(* ---- an inbound packet taken by the context ------------------------------------------------------------------------ *)
Lemma in_aremove {A} (x : N * A) k l : In x l -> In x (aremove k l) \/ (fst x = k /\ alookup k l = Some (snd x)).
Proof.
  induction l as [|[k' a'] l IH]; [intros []|]. cbn [aremove alookup In].
  destruct (k' =? k) eqn:E.
  - apply N.eqb_eq in E. subst k'. intros [H|H]; [right; subst x; auto|left; exact H].
  - intros [H|H]; [left; left; exact H|]. destruct (IH H) as [H1|H1]; [left; right; exact H1|right; exact H1].
Qed.

Definition PktSum (s s' : sys) : Prop :=
  ctx_alive s' = ctx_alive s /\ msgq s' = msgq s /\
  (forall i ph, unresolved s' i ph -> unresolved s i ph) /\
  (forall a i ph, In (a, (i, ph)) (awaiting (c s)) -> In (a, (i, ph)) (awaiting (c s')) \/ ~ unresolved s' i (nph ph)).
Lemma PktSum_core s s' : core s' = core s -> PktSum s s'.
Proof.
  unfold core. intros H. inversion H as [[H1 H2 H3 H4]]. unfold PktSum. rewrite H2, H3, H4. repeat split; auto.
  intros i ph [o Hu]. exists o. rewrite <- H1. exact Hu.
Qed.
Lemma ack_waiter_sum s0 s a p : core s0 = core s -> PktSum s (ack_waiter s0 a p).
Proof.
  intros Hc. unfold ack_waiter. destruct (alookup a (awaiting (c s0))) as [[i0 ph0]|] eqn:El; [|apply PktSum_core; exact Hc].
  set (s1 := set_c s0 (with_awaiting (c s0) (aremove a (awaiting (c s0))))).
  destruct (complete_keeps s1 i0 ph0 (CPkt p)) as [[Ha Hk] Hn].
  unfold core in Hc. inversion Hc as [[H1 H2 H3 H4]].
  unfold PktSum. rewrite Ha, complete_msgq, complete_c. cbn [ctx_alive msgq c set_c awaiting with_awaiting s1].
  rewrite H2, H4. repeat split; auto.
  - intros i ph Hu. destruct (Hk i ph Hu) as [[o Hu0] _]. exists o. rewrite <- H1. exact Hu0.
  - intros a' i ph Hin. rewrite <- H3 in Hin. destruct (in_aremove _ a _ Hin) as [H|[Hf Hl]]; [left; exact H|].
    right. cbn [fst snd] in *. rewrite El in Hl. inversion Hl; subst. exact Hn.
Qed.

Lemma handle_packet_sum s p : PktSum s (fst (handle_packet s p)).
Proof.
  unfold handle_packet. cbv zeta. destruct (rk p); cbn [fst];
    try (apply ack_waiter_sum; reflexivity); try (apply PktSum_core; reflexivity).
  - (* publish *)
    apply PktSum_core.
    destruct (r_qos p =? 0); cbn [fst]; rewrite ?core_write;
      repeat match goal with
      | |- context [if ?b then _ else _] => destruct b
      | |- context [match pub_subid p with _ => _ end] => destruct (pub_subid p)
      end; rewrite ?core_dispatch; reflexivity.
  - (* puback *) apply ack_waiter_sum. unfold core, bump_quota. destruct (quota (c s) =? rmax (c s)); reflexivity.
  - (* pubrec *) apply ack_waiter_sum. unfold core, bump_quota.
    destruct (128 <=? r_reason p); [destruct (quota (c s) =? rmax (c s))|]; reflexivity.
  - (* pubrel *) apply PktSum_core. rewrite core_write. reflexivity.
  - (* pubcomp *) apply ack_waiter_sum. unfold core, bump_quota. destruct (quota (c s) =? rmax (c s)); reflexivity.
Qed.

Lemma waiting_nph o ph : waiting_on o ph -> nph ph = ph.
Proof. intros [[_ ->]|[_ ->]]; reflexivity. Qed.

Lemma Own_packet s s' : Own s -> PktSum s s' -> Own s'.
Proof.
  intros Ho [Ha [Hm [Hu Haw]]] i ph Hun. destruct (Ho i ph (Hu i ph Hun)) as [H1 H2]. rewrite Ha. split; [exact H1|].
  destruct H2 as [[m [Hin Hop]]|[a Hin]].
  - left. exists m. rewrite Hm. auto.
  - destruct (Haw a i ph Hin) as [H|H]; [right; exists a; exact H|].
    exfalso. apply H. destruct Hun as [o [Hl [Hw Hc]]]. rewrite (waiting_nph o ph Hw). exists o. auto.
Qed.
Lemma Own_message s m q : Own s -> msgq s = m :: q -> Own (fst (handle_message (set_msgq s q) m)).
Proof.
  intros Ho Hq i ph Hun.
  destruct (handle_message_sum (set_msgq s q) m) as [Ha [Hm [Haw [Hu Hown]]]].
  assert (Hus : unresolved s i ph) by (destruct (Hu i ph Hun) as [o H]; exists o; exact H).
  destruct (Ho i ph Hus) as [H1 H2]. rewrite Ha. split; [exact H1|].
  destruct H2 as [[m' [Hin Hop]]|[a Hin]].
  - rewrite Hq in Hin. destruct Hin as [<-|Hin].
    + destruct Hown as [Hn|[a Hin']].
      * exfalso. apply Hn. rewrite Hop. cbn [fst snd]. destruct Hun as [o [Hl [Hw Hc]]]. rewrite (waiting_nph o ph Hw). exists o. auto.
      * right. exists a. rewrite <- Hop. exact Hin'.
    + left. exists m'. rewrite Hm. cbn [msgq set_msgq]. auto.
  - right. exists a. apply Haw. exact Hin.
Qed.

(* ---- keys of the operation table stay unique ---------------------------------------------------------------------- *)
Definition Uniq (s : sys) : Prop := NoDup (map fst (ops s)).
Lemma aset_keys {A} k (a : A) l : NoDup (map fst l) -> NoDup (map fst (aset k a l)) /\
  (forall x, In x (map fst (aset k a l)) -> x = k \/ In x (map fst l)).
Proof.
  induction l as [|[k' a'] l IH]; cbn [aset map fst].
  - intros _. split; [constructor; [intros []|constructor]|]. intros x [<-|[]]. auto.
  - intros Hn. inversion Hn as [|? ? Hnotin Hnd]; subst. destruct (k' =? k) eqn:E.
    + apply N.eqb_eq in E. subst k'. cbn [map fst]. split; [exact Hn|]. intros x [<-|H]; [left; reflexivity|right; right; exact H].
    + destruct (IH Hnd) as [H1 H2]. cbn [map fst]. split.
      * constructor; [|exact H1]. intros Hin. destruct (H2 _ Hin) as [->|H]; [apply N.eqb_neq in E; congruence|contradiction].
      * intros x [<-|H]; [right; left; reflexivity|]. destruct (H2 _ H) as [->|H']; [left; reflexivity|right; right; exact H'].
Qed.
Lemma aremove_keys {A} k (l : list (N * A)) : NoDup (map fst l) -> NoDup (map fst (aremove k l)) /\ alookup k (aremove k l) = None /\
  (forall x, In x (map fst (aremove k l)) -> In x (map fst l)).
Proof.
  induction l as [|[k' a'] l IH]; cbn [aremove map fst alookup]; [intros _; repeat split; auto; constructor|].
  intros Hn. inversion Hn as [|? ? Hnotin Hnd]; subst. destruct (k' =? k) eqn:E.
  - apply N.eqb_eq in E. subst k'. split; [exact Hnd|]. split; [|intros x H; right; exact H].
    clear -Hnotin. induction l as [|[k2 a2] l IH]; [reflexivity|]. cbn [alookup map fst In] in *.
    destruct (k2 =? k) eqn:E2; [apply N.eqb_eq in E2; subst; exfalso; apply Hnotin; left; reflexivity|]. apply IH. intros H. apply Hnotin. right. exact H.
  - destruct (IH Hnd) as [H1 [H2 H3]]. cbn [map fst alookup]. rewrite E. split.
    + constructor; [|exact H1]. intros Hin. apply Hnotin. apply H3. exact Hin.
    + split; [exact H2|]. intros x [<-|H]; [left; reflexivity|right; apply H3; exact H].
Qed.
Lemma Uniq_complete s i ph v : Uniq s -> Uniq (complete s i ph v).
Proof. intros Hu. unfold complete. destruct (alookup i (ops s)); [|exact Hu]. unfold Uniq. cbn [ops set_ops]. apply aset_keys. exact Hu. Qed.
Lemma Uniq_cancel s i ph : Uniq s -> Uniq (cancel s i ph).
Proof. intros Hu. unfold cancel. destruct (alookup i (ops s)); [|exact Hu]. unfold Uniq. cbn [ops set_ops]. apply aset_keys. exact Hu. Qed.
Lemma Uniq_core s s' : ops s' = ops s -> Uniq s -> Uniq s'.
Proof. unfold Uniq. intros ->. auto. Qed.

(* ---- the handle side ------------------------------------------------------------------------------------------------ *)
Definition OI (s : sys) : Prop := Own s /\ Uniq s.

Lemma Own_put s s1 i o' : Own s -> ops s1 = ops s -> (forall m, In m (msgq s) -> In m (msgq s1)) ->
  awaiting (c s1) = awaiting (c s) -> ctx_alive s1 = ctx_alive s ->
  (forall ph, waiting_on o' ph -> chan_of o' ph = CEmpty -> ctx_alive s1 = true /\ has_sender s1 i ph) ->
  Own (put_op s1 i o').
Proof.
  intros Ho Hops Hm Haw Ha Hnew i' ph [o [Hl [Hw Hc]]]. unfold put_op in Hl. cbn [ops set_ops] in Hl.
  rewrite alookup_aset in Hl. cbn [ctx_alive put_op set_ops]. unfold has_sender. cbn [msgq c put_op set_ops].
  destruct (i =? i') eqn:E.
  - apply N.eqb_eq in E. subst i'. inversion Hl; subst o. exact (Hnew ph Hw Hc).
  - rewrite Hops in Hl. destruct (Ho i' ph) as [H1 H2]; [exists o; auto|]. rewrite Ha. split; [exact H1|].
    destruct H2 as [[m [Hin Hop]]|[a Hin]]; [left; exists m; auto|right; exists a; rewrite Haw; exact Hin].
Qed.
Lemma Uniq_put s i o : Uniq s -> Uniq (put_op s i o).
Proof. intros Hu. unfold Uniq, put_op. cbn [ops set_ops]. apply aset_keys. exact Hu. Qed.

Lemma OI_core s s' : core s' = core s -> OI s -> OI s'.
Proof.
  intros Hc [Ho Hu]. split; [eapply Own_keeps; [exact Ho|apply Keeps_core; exact Hc]|].
  unfold core in Hc. assert (H1 : ops s' = ops s) by congruence. exact (Uniq_core s s' H1 Hu).
Qed.

Lemma OI_finish s s1 i o r : OI s -> ops s1 = ops s -> (forall m, In m (msgq s) -> In m (msgq s1)) ->
  awaiting (c s1) = awaiting (c s) -> ctx_alive s1 = ctx_alive s -> OI (fst (finish s1 i o r)).
Proof.
  intros [Ho Hu] H1 H2 H3 H4. unfold finish. cbn [fst]. split.
  - apply (Own_put s s1 i _ Ho H1 H2 H3 H4). intros ph [[Hp _]|[Hp _]]; cbn [o_phase] in Hp; discriminate.
  - apply Uniq_put. eapply Uniq_core; eassumption.
Qed.
Lemma OI_enqueue s s1 i o ph pid m : OI s -> ops s1 = ops s -> msgq s1 = msgq s -> awaiting (c s1) = awaiting (c s) ->
  ctx_alive s1 = ctx_alive s -> msg_op m = (i, nph ph) -> (ph = 1 \/ ph = 2) ->
  OI (fst (match send s1 m with
           | Some s2 => pending s2 i o (if ph =? 1 then Wait1 else Wait2) pid
           | None => finish s1 i o RErrExited end)).
Proof.
  intros HI H1 H2 H3 H4 Hm Hph. unfold send. destruct (ctx_alive s1) eqn:Ea.
  - destruct HI as [Ho Hu]. unfold pending. cbn [fst]. split.
    + apply (Own_put s (set_msgq s1 (msgq s1 ++ [m])) i _ Ho); [exact H1| |exact H3|cbn [ctx_alive set_msgq]; rewrite Ea; exact H4|].
      * intros m0 Hin. cbn [msgq set_msgq]. apply in_or_app. left. rewrite H2. exact Hin.
      * intros ph' Hw Hc. split; [exact Ea|]. left. exists m. cbn [msgq set_msgq]. split; [apply in_or_app; right; left; reflexivity|].
        rewrite Hm. f_equal. destruct Hph as [-> | ->]; destruct Hw as [[Hp ->]|[Hp ->]]; cbn in Hp; try discriminate; reflexivity.
    + apply Uniq_put. unfold Uniq. cbn [ops set_msgq]. rewrite H1. exact Hu.
  - apply (OI_finish s s1 i o RErrExited HI H1); [rewrite H2; auto|exact H3|rewrite Ea; exact H4].
Qed.

Lemma OI_first_poll s i o : OI s -> OI (fst (first_poll s i o)).
Proof.
  intros HI. unfold first_poll. cbv zeta.
  assert (Henq : forall s1 pid m, ops s1 = ops s -> msgq s1 = msgq s -> awaiting (c s1) = awaiting (c s) ->
     ctx_alive s1 = ctx_alive s -> msg_op m = (i, 1) ->
     OI (fst (match send s1 m with Some s2 => pending s2 i o Wait1 pid | None => finish s1 i o RErrExited end))).
  { intros s1 pid m A1 A2 A3 A4 A5. apply (OI_enqueue s s1 i o 1 pid m HI A1 A2 A3 A4 A5). left; reflexivity. }
  assert (Hfin : forall s1 r, ops s1 = ops s -> msgq s1 = msgq s -> awaiting (c s1) = awaiting (c s) ->
     ctx_alive s1 = ctx_alive s -> OI (fst (finish s1 i o r))).
  { intros s1 r A1 A2 A3 A4. apply (OI_finish s s1 i o r HI A1); [rewrite A2; auto|exact A3|exact A4]. }
  destruct (o_kind o) as [po|so|uo| |d].
  - destruct (po_qos po =? 0).
    + destruct (enc_publish po 0); [apply Henq|apply Hfin|apply Hfin]; reflexivity.
    + destruct (alloc_pid (pid_ctr s)) as [pid ctr].
      destruct (enc_publish po pid); [apply Henq|apply Hfin|apply Hfin]; reflexivity.
  - destruct (alloc_pid (pid_ctr s)) as [pid ctr]. destruct (alloc_subid (sub_ctr s)) as [sid sctr].
    destruct (enc_subscribe so pid sid); [|apply Hfin; reflexivity|apply Hfin; reflexivity].
    match goal with |- context [send ?s1 ?m] =>
      pose proof (OI_enqueue s s1 i o 1 pid m HI eq_refl eq_refl eq_refl eq_refl eq_refl (or_introl eq_refl)) as He;
      destruct (send s1 m) as [s2|] eqn:Es end.
    + exact He.
    + apply Hfin; reflexivity.
  - destruct (alloc_pid (pid_ctr s)) as [pid ctr].
    destruct (enc_unsubscribe uo pid); [apply Henq|apply Hfin|apply Hfin]; reflexivity.
  - apply Henq; reflexivity.
  - destruct (enc_disconnect d); [apply Henq|apply Hfin|apply Hfin]; reflexivity.
Qed.

Lemma OI_poll_wait1 s i o : OI s -> OI (fst (poll_wait1 s i o)).
Proof.
  intros HI. unfold poll_wait1.
  assert (Hfin : forall s1 r, core s1 = core s -> OI (fst (finish s1 i o r))).
  { intros s1 r Hc. unfold core in Hc. inversion Hc as [[A1 A2 A3 A4]].
    apply (OI_finish s s1 i o r HI A1); [rewrite A2; auto|exact A3|exact A4]. }
  destruct (o_ch1 o) as [|v|]; [exact HI| |].
  - destruct (o_kind o) as [po|so|uo| |d]; destruct v as [|p| |];
      try (apply Hfin; rewrite ?core_drop_recv; reflexivity);
      try (destruct (rk p); apply Hfin; reflexivity).
    destruct (po_qos po =? 1); destruct (rk p); try (apply Hfin; reflexivity);
      try (destruct (128 <=? r_reason p); apply Hfin; reflexivity).
    destruct (128 <=? r_reason p); [apply Hfin; reflexivity|].
    apply (OI_enqueue s s i o 2 (o_pid o) (MAwait i 2 (aid 7 (r_pid p)) (enc_pubrel (r_pid p))) HI eq_refl eq_refl eq_refl eq_refl eq_refl). right; reflexivity.
  - destruct (o_kind o); apply Hfin; rewrite ?core_drop_recv; reflexivity.
Qed.
Lemma OI_poll_wait2 s i o : OI s -> OI (fst (poll_wait2 s i o)).
Proof.
  intros HI. unfold poll_wait2.
  assert (Hfin : forall r, OI (fst (finish s i o r))).
  { intros r. apply (OI_finish s s i o r HI eq_refl); auto. }
  destruct (o_ch2 o) as [|v|]; [exact HI| |apply Hfin].
  destruct v as [|p| |]; try apply Hfin. destruct (rk p); apply Hfin.
Qed.
Lemma OI_poll_op s i : OI s -> OI (fst (poll_op s i)).
Proof.
  intros HI. unfold poll_op. destruct (alookup i (ops s)) as [o|]; [|exact HI].
  destruct (o_phase o); [apply OI_first_poll|apply OI_poll_wait1|apply OI_poll_wait2|]; exact HI.
Qed.

Lemma OI_drop_op s i : OI s -> OI (drop_op s i).
Proof.
  intros [Ho Hu]. unfold drop_op. destruct (alookup i (ops s)) as [o|] eqn:El; [|split; assumption].
  set (s1 := match o_kind o with
             | OSub _ => if match alookup i (streams s) with Some st => negb (st_taken st) | None => false end then drop_recv s i else s
             | _ => s end).
  assert (Hc : core s1 = core s).
  { subst s1. destruct (o_kind o); try reflexivity.
    destruct (match alookup i (streams s) with Some st => negb (st_taken st) | None => false end); [apply core_drop_recv|reflexivity]. }
  unfold core in Hc. inversion Hc as [[A1 A2 A3 A4]].
  assert (Hu1 : Uniq s1) by (eapply Uniq_core; eassumption).
  destruct (aremove_keys i (ops s1) Hu1) as [K1 [K2 K3]].
  split; [|unfold Uniq; cbn [ops set_ops]; exact K1].
  intros i' ph [o' [Hl [Hw Hcn]]]. cbn [ops set_ops] in Hl.
  destruct (N.eq_dec i' i) as [->|Hne]; [rewrite K2 in Hl; discriminate|].
  rewrite alookup_aremove_other in Hl by exact Hne. rewrite A1 in Hl.
  destruct (Ho i' ph) as [H1 H2]; [exists o'; auto|]. cbn [ctx_alive set_ops]. rewrite A4. split; [exact H1|].
  unfold has_sender. cbn [msgq c set_ops]. rewrite A2, A3. exact H2.
Qed.

Lemma fold_cancel (l : list (N * (N * N))) : forall s,
  let s' := fold_left (fun s e => cancel s (fst (snd e)) (snd (snd e))) l s in
  Keeps s s' /\ msgq s' = msgq s /\ streams s' = streams s /\ (Uniq s -> Uniq s') /\
  (forall a i ph, In (a, (i, ph)) l -> ~ unresolved s' i (nph ph)).
Proof.
  induction l as [|[a [i ph]] l IH]; intros s; cbn [fold_left fst snd].
  - split; [apply Keeps_refl|]. repeat split; auto.
  - destruct (IH (cancel s i ph)) as [K [M [St [U N]]]]. destruct (cancel_keeps s i ph) as [K0 N0].
    assert (Hm : msgq (cancel s i ph) = msgq s) by (unfold cancel; destruct (alookup i (ops s)); reflexivity).
    assert (Hs : streams (cancel s i ph) = streams s) by (unfold cancel; destruct (alookup i (ops s)); reflexivity).
    split; [eapply Keeps_trans; eassumption|]. split; [congruence|]. split; [congruence|].
    split; [intros Hu; apply U; apply Uniq_cancel; exact Hu|].
    intros a' i' ph' [Heq|Hin]; [|eapply N; exact Hin]. inversion Heq; subst.
    intros Hun. apply N0. destruct K as [_ K]. apply (K i' (nph ph') Hun).
Qed.
Lemma drop_msg_keeps s m : Keeps s (drop_msg s m) /\ msgq (drop_msg s m) = msgq s /\ (Uniq s -> Uniq (drop_msg s m)) /\
  ~ unresolved (drop_msg s m) (fst (msg_op m)) (nph (snd (msg_op m))).
Proof.
  assert (Hm : forall i ph, msgq (cancel s i ph) = msgq s) by (intros i ph; unfold cancel; destruct (alookup i (ops s)); reflexivity).
  destruct m as [i p|i ph a p|i a sid p]; cbn [drop_msg msg_op fst snd].
  - destruct (cancel_keeps s i 1) as [K N]. split; [exact K|]. split; [apply Hm|]. split; [apply Uniq_cancel|exact N].
  - destruct (cancel_keeps s i ph) as [K N]. split; [exact K|]. split; [apply Hm|]. split; [apply Uniq_cancel|exact N].
  - destruct (cancel_keeps s i 1) as [K N].
    pose proof (core_close (cancel s i 1) i) as Hc. unfold core in Hc. inversion Hc as [[A1 A2 A3 A4]].
    split; [eapply Keeps_trans; [exact K|apply Keeps_core; exact Hc]|].
    split; [rewrite A2; apply Hm|].
    split; [intros Hu; eapply Uniq_core; [exact A1|apply Uniq_cancel; exact Hu]|].
    intros [o Hu]. apply N. exists o. rewrite <- A1. exact Hu.
Qed.
Lemma fold_drop_msg (l : list cmsg) : forall s,
  let s' := fold_left drop_msg l s in
  Keeps s s' /\ (Uniq s -> Uniq s') /\ (forall m, In m l -> ~ unresolved s' (fst (msg_op m)) (nph (snd (msg_op m)))).
Proof.
  induction l as [|m l IH]; intros s; cbn [fold_left].
  - split; [apply Keeps_refl|]. split; [auto|intros m []].
  - destruct (IH (drop_msg s m)) as [K [U N]]. destruct (drop_msg_keeps s m) as [K0 [_ [U0 N0]]].
    split; [eapply Keeps_trans; eassumption|]. split; [auto|].
    intros m' [<-|Hin]; [|apply N; exact Hin]. intros Hun. apply N0. destruct K as [_ K]. apply (K _ _ Hun).
Qed.

Lemma fold_close (l : list (N * N)) : forall s, core (fold_left (fun s e => close_stream_sender s (snd e)) l s) = core s.
Proof. induction l as [|e l IH]; intros s; cbn [fold_left]; [reflexivity|]. rewrite IH. apply core_close. Qed.

(* Context::reset_session and drop(Context): every stored sender is dropped *)
Lemma reset_session_sum s : let s' := reset_session s in
  ctx_alive s' = ctx_alive s /\ msgq s' = msgq s /\ awaiting (c s') = [] /\ (Uniq s -> Uniq s') /\
  (forall i ph, unresolved s' i ph -> unresolved s i ph) /\
  (forall a i ph, In (a, (i, ph)) (awaiting (c s)) -> ~ unresolved s' i (nph ph)).
Proof.
  cbv zeta. unfold reset_session. cbv zeta.
  set (s1 := fold_left (fun s e => cancel s (fst (snd e)) (snd (snd e))) (awaiting (c s)) s).
  destruct (fold_cancel (awaiting (c s)) s) as [[Ka K] [M [_ [U N]]]]. fold s1 in Ka, K, M, U, N.
  set (s2 := fold_left (fun s e => close_stream_sender s (snd e)) (subs (c s1)) s1).
  pose proof (fold_close (subs (c s1)) s1) as Hc. fold s2 in Hc. unfold core in Hc. inversion Hc as [[A1 A2 A3 A4]].
  cbn [ctx_alive msgq c set_c awaiting]. rewrite A4, A2, Ka, M. repeat split; auto.
  - intros Hu. unfold Uniq. cbn [ops set_c]. rewrite A1. apply U. exact Hu.
  - intros i ph [o Hu]. cbn [ops set_c] in Hu. rewrite A1 in Hu. apply (K i ph). exists o. exact Hu.
  - intros a i ph Hin [o Hu]. cbn [ops set_c] in Hu. rewrite A1 in Hu. apply (N a i ph Hin). exists o. exact Hu.
Qed.
Lemma OI_reset_session s : OI s -> OI (reset_session s).
Proof.
  intros [Ho Hu]. destruct (reset_session_sum s) as [Ha [Hm [Haw [HU [Hmono Hn]]]]]. split; [|apply HU; exact Hu].
  intros i ph Hun. destruct (Ho i ph (Hmono i ph Hun)) as [H1 H2]. rewrite Ha. split; [exact H1|].
  destruct H2 as [[m [Hin Hop]]|[a Hin]]; [left; exists m; rewrite Hm; auto|].
  exfalso. apply (Hn a i ph Hin). destruct Hun as [o [Hl [Hw Hc]]]. rewrite (waiting_nph o ph Hw). exists o. auto.
Qed.

(* after drop(Context) nothing at all is left waiting on an empty oneshot *)
Lemma drop_ctx_resolves s : Own s -> forall i ph, ~ unresolved (drop_ctx s) i ph.
Proof.
  intros Ho i ph Hun. unfold drop_ctx in Hun. cbv zeta in Hun.
  destruct (reset_session_sum s) as [Ha [Hm [Haw [HU [Hmono Hn]]]]].
  destruct (fold_drop_msg (msgq (reset_session s)) (reset_session s)) as [[_ K] [_ N]].
  set (s2 := fold_left drop_msg (msgq (reset_session s)) (reset_session s)) in *.
  assert (Hun2 : unresolved s2 i ph) by (destruct Hun as [o Hu]; exists o; exact Hu).
  destruct (K i ph Hun2) as [Hun1 _]. pose proof (Hmono i ph Hun1) as Hun0.
  destruct (Ho i ph Hun0) as [_ [[m [Hin Hop]]|[a Hin]]].
  - rewrite <- Hm in Hin. apply (N m Hin). rewrite Hop. cbn [fst snd].
    destruct Hun2 as [o [Hl [Hw Hc]]]. rewrite (waiting_nph o ph Hw). exists o. auto.
  - apply (Hn a i ph Hin). destruct Hun1 as [o [Hl [Hw Hc]]]. rewrite (waiting_nph o ph Hw). exists o. auto.
Qed.
Lemma OI_drop_ctx s : OI s -> OI (drop_ctx s).
Proof.
  intros [Ho Hu]. split; [intros i ph Hun; exfalso; exact (drop_ctx_resolves s Ho i ph Hun)|].
  unfold drop_ctx. cbv zeta. unfold Uniq. cbn [ops].
  destruct (reset_session_sum s) as [_ [_ [_ [HU _]]]].
  destruct (fold_drop_msg (msgq (reset_session s)) (reset_session s)) as [_ [U _]]. apply U. apply HU. exact Hu.
Qed.

(* ---- the Context never adds or removes entries of the operation table ------------------------------------------ *)
Definition keys (s : sys) : list N := map fst (ops s).
Lemma aset_keys_same {A} k (a : A) l : alookup k l <> None -> map fst (aset k a l) = map fst l.
Proof.
  induction l as [|[k' a'] l IH]; cbn [alookup aset map fst]; [intros H; contradiction|].
  destruct (k' =? k) eqn:E; cbn [map fst]; [apply N.eqb_eq in E; subst; reflexivity|]. intros H. rewrite (IH H). reflexivity.
Qed.
Lemma keys_complete s i ph v : keys (complete s i ph v) = keys s.
Proof.
  unfold keys, complete. destruct (alookup i (ops s)) eqn:E; [|reflexivity]. cbn [ops set_ops].
  apply aset_keys_same. rewrite E. discriminate.
Qed.
Lemma keys_cancel s i ph : keys (cancel s i ph) = keys s.
Proof.
  unfold keys, cancel. destruct (alookup i (ops s)) eqn:E; [|reflexivity]. cbn [ops set_ops].
  apply aset_keys_same. rewrite E. discriminate.
Qed.
Lemma keys_core s s' : core s' = core s -> keys s' = keys s.
Proof. unfold core, keys. intros H. assert (H1 : ops s' = ops s) by congruence. rewrite H1. reflexivity. Qed.
Lemma keys_ack_waiter s a p : keys (ack_waiter s a p) = keys s.
Proof. unfold ack_waiter. destruct (alookup a (awaiting (c s))) as [[i ph]|]; [|reflexivity]. rewrite keys_complete. reflexivity. Qed.
Lemma keys_write s p : keys (fst (write s p)) = keys s. Proof. apply keys_core. apply core_write. Qed.
Lemma keys_handle_packet s p : keys (fst (handle_packet s p)) = keys s.
Proof.
  unfold handle_packet. cbv zeta. destruct (rk p); cbn [fst]; rewrite ?keys_ack_waiter, ?keys_write; try reflexivity.
  destruct (r_qos p =? 0); cbn [fst]; rewrite ?keys_write;
    repeat match goal with
    | |- context [if ?b then _ else _] => destruct b
    | |- context [match pub_subid p with _ => _ end] => destruct (pub_subid p)
    end; rewrite ?(keys_core _ _ (core_dispatch _ _ _)); reflexivity.
Qed.
Lemma keys_set_c s x : keys (set_c s x) = keys s. Proof. reflexivity. Qed.
Lemma keys_close s j : keys (close_stream_sender s j) = keys s. Proof. apply keys_core. apply core_close. Qed.
Lemma keys_handle_message s m : keys (fst (handle_message s m)) = keys s.
Proof.
  unfold handle_message. cbv zeta. destruct m as [i p|i ph a p|i a sid p].
  - destruct (negb (size_ok (c s) p)); cbn [fst]; [apply keys_complete|].
    destruct (negb (snd (write s p))); cbn [fst]; rewrite ?keys_cancel, ?keys_complete, ?keys_write; reflexivity.
  - destruct (negb (size_ok (c s) p)); cbn [fst]; [apply keys_complete|].
    destruct (ptype_of p =? 3).
    + destruct (quota (c s) =? 0); cbn [fst]; [apply keys_complete|].
      destruct (negb (snd (write _ p))); cbn [fst]; rewrite ?keys_cancel, ?keys_set_c, ?keys_write; reflexivity.
    + destruct (ptype_of p =? 6); destruct (negb (snd (write s p))); cbn [fst];
        rewrite ?keys_cancel, ?keys_set_c, ?keys_write; reflexivity.
  - destruct (negb (size_ok (c s) p)); cbn [fst]; rewrite ?keys_close, ?keys_complete, ?keys_write; reflexivity.
Qed.
Lemma Uniq_keys s s' : keys s' = keys s -> Uniq s -> Uniq s'.
Proof. unfold Uniq, keys. intros ->. auto. Qed.

(* ---- the run loop, connect, settle ----------------------------------------------------------------------------------- *)
Lemma OI_exit_run s r : OI s -> OI (exit_run s r).
Proof. apply OI_core. reflexivity. Qed.
Lemma OI_run_turn s : OI s -> OI (fst (run_turn s)).
Proof.
  intros HI. unfold run_turn. destruct (fpoll (poll_fuel (rd s)) (fr s) (rd s)) as [[o f] r].
  assert (HI1 : OI (set_io s r f)) by (eapply OI_core; [|exact HI]; reflexivity).
  destruct o as [bs| | | |]; try (cbn [fst]; apply OI_exit_run; exact HI1).
  - destruct (dec_packet bs) as [p| |]; try (cbn [fst]; apply OI_exit_run; exact HI1).
    assert (HI2 : OI (fst (handle_packet (set_io s r f) p))).
    { destruct HI1 as [Ho Hu]. split; [eapply Own_packet; [exact Ho|apply handle_packet_sum]|].
      eapply Uniq_keys; [apply keys_handle_packet|exact Hu]. }
    destruct (handle_packet (set_io s r f) p) as [s1 a]. cbn [fst] in *. destruct a; cbn [fst]; [exact HI2|apply OI_exit_run; exact HI2].
  - destruct (msgq (set_io s r f)) as [|m q] eqn:Eq.
    + destruct (live_senders (set_io s r f) =? 0); cbn [fst]; [apply OI_exit_run|]; exact HI1.
    + assert (HI2 : OI (fst (handle_message (set_msgq (set_io s r f) q) m))).
      { destruct HI1 as [Ho Hu]. split; [apply Own_message; assumption|].
        eapply Uniq_keys; [apply keys_handle_message|exact Hu]. }
      destruct (handle_message (set_msgq (set_io s r f) q) m) as [s1 a]. cbn [fst] in *.
      destruct a; cbn [fst]; [exact HI2|apply OI_exit_run; exact HI2].
Qed.
Lemma OI_conn_turn s : OI s -> OI (conn_turn s).
Proof.
  intros HI. unfold conn_turn. destruct (fpoll (poll_fuel (rd s)) (fr s) (rd s)) as [[o f] r].
  assert (HI1 : OI (set_io s r f)) by (eapply OI_core; [|exact HI]; reflexivity).
  destruct o as [bs| | | |]; try (eapply OI_core; [|exact HI1]; reflexivity).
  destruct (dec_packet bs) as [p| |]; try (eapply OI_core; [|exact HI1]; reflexivity).
  destruct (rk p); eapply OI_core; try exact HI1; reflexivity.
Qed.
Lemma OI_settle_loop fuel : forall s, OI s -> OI (settle_loop fuel s).
Proof.
  induction fuel as [|fuel IH]; intros s HI; cbn [settle_loop]; [exact HI|].
  destruct (cph s); [exact HI|apply OI_conn_turn; exact HI|].
  pose proof (OI_run_turn s HI) as H. destruct (run_turn s) as [s1 t]. cbn [fst] in H. destruct t; [exact H|apply IH; exact H].
Qed.
Lemma OI_settle s : OI s -> OI (settle s).
Proof. intros HI. unfold settle. destruct (hold s || negb (ctx_alive s)); [exact HI|apply OI_settle_loop; exact HI]. Qed.

Lemma OI_start_conn s pkt sei : OI s -> OI (start_conn s pkt sei).
Proof.
  intros HI. unfold start_conn. cbv zeta. destruct pkt as [b| |]; try (eapply OI_core; [|exact HI]; reflexivity).
  set (s1 := match sei with Some v => set_c s (with_sei_ts (c s) v (disc_ts (c s))) | None => s end).
  assert (HI1 : OI s1) by (subst s1; destruct sei; [eapply OI_core; [|exact HI]; reflexivity|exact HI]).
  assert (HI2 : OI (fst (write s1 b))) by (eapply OI_core; [apply core_write|exact HI1]).
  destruct (snd (write s1 b)).
  - apply OI_settle. eapply OI_core; [|exact HI2]. reflexivity.
  - eapply OI_core; [|exact HI2]. reflexivity.
Qed.
Lemma core_retransmit l : forall s, core (fst (retransmit s l)) = core s.
Proof.
  induction l as [|[a pkt] l IH]; intros s; cbn [retransmit]; [reflexivity|].
  destruct (snd (write s pkt)); [rewrite IH|cbn [fst]]; apply core_write.
Qed.
Lemma OI_start_run s : OI s -> OI (start_run s).
Proof.
  intros HI. unfold start_run. cbv zeta.
  assert (HI0 : OI (set_cph s CIdle)) by (eapply OI_core; [|exact HI]; reflexivity).
  destruct (disc_ts (c (set_cph s CIdle))) as [t|].
  - set (s1 := if session_expired (c (set_cph s CIdle)) t then reset_session (set_cph s CIdle) else set_cph s CIdle).
    assert (HI1 : OI s1) by (subst s1; destruct (session_expired _ _); [apply OI_reset_session|]; exact HI0).
    set (s2 := set_c s1 (with_sei_ts (c s1) (sei (c s1)) None)).
    assert (HI2 : OI s2) by (eapply OI_core; [|exact HI1]; reflexivity).
    pose proof (core_retransmit (retx (c s2)) s2) as Hr.
    destruct (retransmit s2 (retx (c s2))) as [s3 ok]. cbn [fst] in Hr.
    assert (HI3 : OI s3) by (eapply OI_core; [exact Hr|exact HI2]).
    destruct ok; [apply OI_settle; eapply OI_core; [|exact HI3]; reflexivity|apply OI_exit_run; exact HI3].
  - apply OI_settle. eapply OI_core; [|exact HI0]. reflexivity.
Qed.
Lemma OI_set_io s r f : OI s -> OI (set_io s r f).
Proof. apply OI_core. reflexivity. Qed.
Lemma OI_put_new s i o : OI s -> o_phase o = NotStarted -> OI (put_op s i o).
Proof.
  intros [Ho Hu] Hp. split; [|apply Uniq_put; exact Hu].
  apply (Own_put s s i o Ho eq_refl); auto. intros ph [[H _]|[H _]]; rewrite Hp in H; discriminate.
Qed.
Lemma OI_remove_op s i : OI s -> OI (set_ops s (aremove i (ops s))).
Proof.
  intros [Ho Hu]. destruct (aremove_keys i (ops s) Hu) as [K1 [K2 K3]]. split; [|exact K1].
  intros i' ph [o' [Hl [Hw Hcn]]]. cbn [ops set_ops] in Hl.
  destruct (N.eq_dec i' i) as [->|Hne]; [rewrite K2 in Hl; discriminate|].
  rewrite alookup_aremove_other in Hl by exact Hne. apply (Ho i' ph). exists o'. auto.
Qed.

Lemma OI_spin_one s i kind ack : OI s -> OI (fst (spin_one s i kind ack)).
Proof.
  intros HI. unfold spin_one. destruct (negb (memN 0 (handles s))); [exact HI|]. cbv zeta.
  set (s1 := put_op (set_wire s (wbudget s) []) i (mkop (spin_opts kind) NotStarted CEmpty CEmpty 0)).
  assert (HI1 : OI s1).
  { subst s1. apply OI_put_new; [|reflexivity]. eapply OI_core; [|exact HI]. reflexivity. }
  pose proof (OI_poll_op s1 i HI1) as Hp. destruct (poll_op s1 i) as [s2 o1]. cbn [fst] in Hp.
  assert (HI2 : OI (settle s2)) by (apply OI_settle; exact Hp).
  set (pid := match kind, wire_ev (settle s2) with
             | 1, _ :: _ :: _ :: _ :: _ :: a :: b :: _ | 2, _ :: _ :: _ :: _ :: _ :: a :: b :: _ => Some (a * 256 + b)
             | 3, _ :: _ :: a :: b :: _ | 4, _ :: _ :: a :: b :: _ => Some (a * 256 + b)
             | _, _ => None
             end).
  destruct ack; [|destruct pid; exact HI2]. destruct pid as [p|]; [|exact HI2]. cbn [fst].
  apply OI_remove_op.
  assert (Hfold : forall l s0, OI s0 ->
     OI (fold_left (fun s pk =>
               let s := settle (set_io s (mkrd (segs (rd s) ++ [pk]) (r_eof (rd s)) (r_err (rd s))) (fr s)) in
               settle (fst (poll_op s i))) l s0)).
  { induction l as [|pk l IH]; intros s0 H0; cbn [fold_left]; [exact H0|]. apply IH. cbv zeta.
    apply OI_settle. apply OI_poll_op. apply OI_settle. apply OI_set_io. exact H0. }
  apply Hfold. exact HI2.
Qed.
Lemma OI_spin fuel : forall s i kind ack, OI s -> OI (fst (spin fuel s i kind ack)).
Proof.
  induction fuel as [|fuel IH]; intros s i kind ack HI; cbn [spin]; [exact HI|].
  pose proof (OI_spin_one s i kind ack HI) as H1. destruct (spin_one s i kind ack) as [s1 o1]. cbn [fst] in H1.
  pose proof (IH s1 (i + 1) kind ack H1) as H2. destruct (spin fuel s1 (i + 1) kind ack) as [s2 o2]. exact H2.
Qed.

Theorem OI_step s e : OI s -> OI (fst (step s e)).
Proof.
  intros HI. unfold step. cbv zeta.
  assert (Hg : OI (begin_ev s)) by (eapply OI_core; [|exact HI]; reflexivity).
  set (s0 := begin_ev s) in *.
  destruct e; cbn [fst].
  - destruct (negb (ctx_alive s0)); cbn [fst]; [exact Hg|apply OI_start_conn; exact Hg].
  - destruct (negb (ctx_alive s0)); cbn [fst]; [exact Hg|apply OI_start_conn; exact Hg].
  - destruct (negb (ctx_alive s0)); cbn [fst]; [exact Hg|apply OI_start_run; exact Hg].
  - destruct b; cbn [fst]; apply OI_settle; [exact Hg|apply OI_set_io; exact Hg].
  - apply OI_settle. apply OI_set_io. exact Hg.
  - apply OI_settle. apply OI_set_io. exact Hg.
  - eapply OI_core; [|exact Hg]. reflexivity.
  - exact Hg.
  - destruct (memN h (handles s0)); cbn [fst]; [apply OI_put_new; [exact Hg|reflexivity]|exact Hg].
  - pose proof (OI_poll_op s0 i Hg) as Hp. destruct (poll_op s0 i) as [s1 o]. cbn [fst] in *. apply OI_settle. exact Hp.
  - apply OI_settle. apply OI_drop_op. exact Hg.
  - destruct (alookup i (streams s0)) as [st|]; [|exact Hg].
    destruct (op_phase_of s0 i) as [[| | |]|]; try exact Hg.
    destruct (st_recv st && negb (st_taken st)); cbn [fst]; [|exact Hg]. eapply OI_core; [|exact Hg]. reflexivity.
  - pose proof (core_dispatch s0 0 (rx0 KPingresp)) as _.
    assert (Hp : OI (fst (poll_stream s0 j))).
    { eapply OI_core; [|exact Hg]. unfold poll_stream. destruct (alookup j (streams s0)) as [st|]; [|reflexivity].
      destruct (negb (st_taken st)); [reflexivity|]. destruct (st_buf st); [destruct (st_sender st)|]; reflexivity. }
    destruct (poll_stream s0 j) as [s1 o]. cbn [fst] in *. apply OI_settle. exact Hp.
  - assert (Hd : OI (set_streams (drop_recv s0 j) (aremove j (streams (drop_recv s0 j))))).
    { eapply OI_core; [|exact Hg]. pose proof (core_drop_recv s0 j) as H. unfold core in *. cbn [ops msgq c ctx_alive set_streams]. exact H. }
    destruct (op_phase_of s0 j) as [[| | |]|]; cbn [fst]; apply OI_settle; assumption.
  - destruct (memN h (handles s0) && negb (memN h2 (handles s0))); cbn [fst]; [|exact Hg]. eapply OI_core; [|exact Hg]. reflexivity.
  - apply OI_settle. eapply OI_core; [|exact Hg]. reflexivity.
  - apply OI_drop_ctx. exact Hg.
  - eapply OI_core; [|exact Hg]. reflexivity.
  - apply OI_settle. eapply OI_core; [|exact Hg]. reflexivity.
  - destruct (ctx_alive s0); cbn [fst]; [|exact Hg]. eapply OI_core; [|exact Hg]. reflexivity.
  - eapply OI_core; [|exact Hg]. reflexivity.
  - pose proof (OI_spin (N.to_nat n) s0 base kind ack Hg) as H1.
    destruct (spin (N.to_nat n) s0 base kind ack) as [s1 o]. cbn [fst] in *. eapply OI_core; [|exact H1]. reflexivity.
Qed.

Lemma OI_init : OI sys_init.
Proof. split; [intros i ph [o [Hl _]]; discriminate|constructor]. Qed.
Theorem OI_reachable evs : forall s, OI s -> OI (final_state s evs).
Proof. induction evs as [|e evs IH]; intros s HI; cbn [final_state]; [exact HI|]. apply IH. apply OI_step. exact HI. Qed.

(* ---- C14: nothing stays pending once the Context is gone ------------------------------------------------------------ *)
Lemma alookup_in {A} k (a : A) l : alookup k l = Some a -> In (k, a) l.
Proof.
  induction l as [|[k' a'] l IH]; cbn [alookup]; [discriminate|]. destruct (k' =? k) eqn:E.
  - apply N.eqb_eq in E. subst. intros H. inversion H. left. reflexivity.
  - intros H. right. apply IH. exact H.
Qed.
Lemma poll_wait1_dead s i o : ctx_alive s = false -> o_ch1 o <> CEmpty -> exists r, snd (poll_wait1 s i o) = [ODone i r].
Proof.
  intros Ha Hc. unfold poll_wait1. destruct (o_ch1 o) as [|v|]; [contradiction| |].
  - destruct (o_kind o) as [po|so|uo| |d]; destruct v as [|p| |]; try (eexists; reflexivity);
      try (destruct (rk p); eexists; reflexivity).
    destruct (po_qos po =? 1); destruct (rk p); try (eexists; reflexivity);
      try (destruct (128 <=? r_reason p); eexists; reflexivity).
    destruct (128 <=? r_reason p); [eexists; reflexivity|]. unfold send. rewrite Ha. eexists; reflexivity.
  - destruct (o_kind o); eexists; reflexivity.
Qed.
Lemma poll_wait2_dead s i o : o_ch2 o <> CEmpty -> exists r, snd (poll_wait2 s i o) = [ODone i r].
Proof.
  intros Hc. unfold poll_wait2. destruct (o_ch2 o) as [|v|]; [contradiction| |eexists; reflexivity].
  destruct v as [|p| |]; try (eexists; reflexivity). destruct (rk p); eexists; reflexivity.
Qed.

Theorem no_pending_after_drop s i : Own s -> ctx_alive s = false -> snd (poll_op s i) <> [OPend i].
Proof.
  intros Ho Ha. unfold poll_op. destruct (alookup i (ops s)) as [o|] eqn:El; [|cbn; discriminate].
  destruct (o_phase o) eqn:Ep.
  - destruct (first_poll_after_drop s i o Ha) as [r [Hr _]]. rewrite Hr. discriminate.
  - assert (Hc : o_ch1 o <> CEmpty).
    { intros Hc. destruct (Ho i 1) as [H1 _]; [exists o; repeat split; auto; left; auto|]. congruence. }
    destruct (poll_wait1_dead s i o Ha Hc) as [r Hr]. rewrite Hr. discriminate.
  - assert (Hc : o_ch2 o <> CEmpty).
    { intros Hc. destruct (Ho i 2) as [H1 _]; [exists o; repeat split; auto; right; auto|]. congruence. }
    destruct (poll_wait2_dead s i o Hc) as [r Hr]. rewrite Hr. discriminate.
  - cbn. discriminate.
Qed.

(* every history: after the Context has been dropped, no poll of any operation future returns Pending *)
Theorem no_hang_after_drop evs i : let s := final_state sys_init evs in
  ctx_alive s = false -> snd (poll_op s i) <> [OPend i].
Proof. cbv zeta. intros Ha. apply no_pending_after_drop; [|exact Ha]. apply (OI_reachable evs sys_init OI_init). Qed.

(* and while the Context is alive, an operation waiting on an empty oneshot always has its sender held by
   the Context (queue or awaiting_ack): the ownership invariant, in every reachable state *)
Theorem ownership_reachable evs : Own (final_state sys_init evs).
Proof. apply (OI_reachable evs sys_init OI_init). Qed.
