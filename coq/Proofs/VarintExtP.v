(* How the variable byte integer decoder behaves under extension, restriction and zero padding
   of its input: what the framing proof needs. *)
From Poster Require Import Model.Varint Proofs.BytesP Proofs.VarintP Proofs.ListP.
From Coq Require Import ZArith ZifyN ZifyBool ZifyNat.
Ltac Zify.zify_post_hook ::= Z.div_mod_to_equations.
Arguments N.add : simpl never. Arguments N.mul : simpl never. Arguments N.sub : simpl never.
Arguments N.ltb : simpl never. Arguments N.leb : simpl never. Arguments N.eqb : simpl never.
Arguments N.land : simpl never. Arguments N.pow : simpl never.

(* the loop without the (unreachable) overflow check, and with the range test on the index *)
Fixpoint vl (bs : bytes) (idx val mult : N) : vres :=
  match bs with
  | [] => VInsufficient
  | b :: r =>
    if 4 <=? idx then VBad
    else if N.land b 128 =? 0 then VOk (val + N.land b 127 * mult) (idx + 1)
    else vl r (idx + 1) (val + N.land b 127 * mult) (mult * 128)
  end.

Lemma vdec_loop_vl bs : forall idx mult val, idx <= 4 -> mult = 128 ^ idx -> val < mult ->
  vdec_loop bs idx mult val = vl bs idx val mult.
Proof.
  induction bs as [|b r IH]; intros idx mult val Hi Hm Hv; cbn [vdec_loop vl]; [reflexivity|].
  destruct (4 <=? idx) eqn:E4.
  - apply N.leb_le in E4. assert (idx = 4) by lia. subst idx mult.
    change (128 ^ 4) with 268435456. unfold VMAX. reflexivity.
  - apply N.leb_gt in E4.
    assert (Hpow : mult * 128 = 128 ^ (idx + 1)) by (subst mult; rewrite N.pow_add_r; reflexivity).
    assert (Hm28 : mult * 128 <= 268435456).
    { rewrite Hpow. change 268435456 with (128 ^ 4). apply N.pow_le_mono_r; lia. }
    replace (VMAX <? mult) with false by (symmetry; apply N.ltb_ge; unfold VMAX; lia).
    assert (Hb := land127_le b).
    assert (Hval : val + N.land b 127 * mult < mult * 128) by nia.
    replace (U32 <=? val + N.land b 127 * mult) with false by (symmetry; apply N.leb_gt; unfold U32; lia).
    replace (U32 <=? mult * 128) with false by (symmetry; apply N.leb_gt; unfold U32; lia).
    cbn [orb]. destruct (N.land b 128 =? 0).
    + replace (idx <=? 3) with true by (symmetry; apply N.leb_le; lia). reflexivity.
    + apply IH; [lia|exact Hpow|exact Hval].
Qed.
Lemma vdec_vl bs : vdec bs = vl bs 0 0 1.
Proof. unfold vdec. apply vdec_loop_vl; [lia|reflexivity|lia]. Qed.

Lemma vl_ext_ok a e : forall i v m x l, vl a i v m = VOk x l -> vl (a ++ e) i v m = VOk x l.
Proof.
  induction a as [|b r IH]; intros i v m x l; cbn [vl app]; [discriminate|].
  destruct (4 <=? i); [discriminate|]. destruct (N.land b 128 =? 0); [auto|apply IH].
Qed.
Lemma vl_ext_bad a e : forall i v m, vl a i v m = VBad -> vl (a ++ e) i v m = VBad.
Proof.
  induction a as [|b r IH]; intros i v m; cbn [vl app]; [discriminate|].
  destruct (4 <=? i); [auto|]. destruct (N.land b 128 =? 0); [discriminate|apply IH].
Qed.
Lemma vl_len a : forall i v m x l, vl a i v m = VOk x l -> i + 1 <= l /\ l <= i + lenN a.
Proof.
  induction a as [|b r IH]; intros i v m x l; cbn [vl]; [discriminate|]. rewrite lenN_cons.
  destruct (4 <=? i); [discriminate|]. destruct (N.land b 128 =? 0).
  - intros H. inversion H. lia.
  - intros H. apply IH in H. lia.
Qed.
Lemma vl_restrict a e : forall i v m x l, vl (a ++ e) i v m = VOk x l -> l <= i + lenN a -> vl a i v m = VOk x l.
Proof.
  induction a as [|b r IH]; intros i v m x l; cbn [vl app].
  - intros H Hl. apply vl_len in H. rewrite lenN_nil in Hl. lia.
  - rewrite lenN_cons. destruct (4 <=? i); [discriminate|]. destruct (N.land b 128 =? 0); [auto|].
    intros H Hl. apply IH; [exact H|lia].
Qed.
(* zero padding: a zero byte ends the integer, so a length completed by padding is one more than
   the real bytes available *)
Lemma vl_pad a k : forall i v m x l, vl a i v m = VInsufficient -> vl (a ++ zeros k) i v m = VOk x l ->
  l = i + lenN a + 1.
Proof.
  induction a as [|b r IH]; intros i v m x l; cbn [vl app].
  - intros _. rewrite lenN_nil. unfold zeros. destruct (N.to_nat k) as [|n]; cbn [repeat vl]; [discriminate|].
    destruct (4 <=? i); [discriminate|]. change (N.land 0 128 =? 0) with true. cbv iota. intros H. inversion H. lia.
  - rewrite lenN_cons. destruct (4 <=? i); [discriminate|]. destruct (N.land b 128 =? 0); [discriminate|].
    intros H1 H2. rewrite (IH _ _ _ _ _ H1 H2). lia.
Qed.
(* a length that is malformed with padding is never well-formed whatever else follows *)
Lemma vl_bad_pad a k : forall i v m, vl (a ++ zeros k) i v m = VBad ->
  forall e x l, vl (a ++ e) i v m <> VOk x l.
Proof.
  induction a as [|b r IH]; intros i v m; cbn [vl app].
  - unfold zeros. destruct (N.to_nat k) as [|n]; cbn [repeat vl]; [discriminate|].
    destruct (4 <=? i) eqn:E4.
    + intros _ e x l. destruct e; cbn [vl]; [discriminate|]. rewrite E4. discriminate.
    + change (N.land 0 128 =? 0) with true. cbv iota. discriminate.
  - destruct (4 <=? i); [discriminate|]. destruct (N.land b 128 =? 0); [discriminate|]. apply IH.
Qed.
(* the decoder never looks beyond five bytes *)
Lemma vl_firstn bs : forall i v m, i <= 4 ->
  vl (takeN (5 - i) bs) i v m = vl bs i v m.
Proof.
  induction bs as [|b r IH]; intros i v m Hi.
  - unfold takeN. rewrite firstn_nil. reflexivity.
  - unfold takeN. destruct (N.to_nat (5 - i)) as [|n] eqn:En; [lia|]. cbn [firstn vl].
    destruct (4 <=? i) eqn:E4; [reflexivity|]. apply N.leb_gt in E4.
    destruct (N.land b 128 =? 0); [reflexivity|].
    replace n with (N.to_nat (5 - (i + 1))) by lia. apply IH. lia.
Qed.

(* the same facts about vdec itself *)
Lemma vdec_ext_ok a e x l : vdec a = VOk x l -> vdec (a ++ e) = VOk x l.
Proof. rewrite !vdec_vl. apply vl_ext_ok. Qed.
Lemma vdec_ext_bad a e : vdec a = VBad -> vdec (a ++ e) = VBad.
Proof. rewrite !vdec_vl. apply vl_ext_bad. Qed.
Lemma vdec_len a x l : vdec a = VOk x l -> 1 <= l /\ l <= lenN a.
Proof. rewrite vdec_vl. intros H. apply vl_len in H. lia. Qed.
Lemma vdec_restrict a e x l : vdec (a ++ e) = VOk x l -> l <= lenN a -> vdec a = VOk x l.
Proof. rewrite !vdec_vl. intros H Hl. eapply vl_restrict; [exact H|lia]. Qed.
Lemma vdec_pad a k x l : vdec a = VInsufficient -> vdec (a ++ zeros k) = VOk x l -> l = lenN a + 1.
Proof. rewrite !vdec_vl. intros H1 H2. rewrite (vl_pad _ _ _ _ _ _ _ H1 H2). lia. Qed.
Lemma vdec_bad_pad a k : vdec (a ++ zeros k) = VBad -> forall e x l, vdec (a ++ e) <> VOk x l.
Proof. rewrite vdec_vl. intros H e x l. rewrite vdec_vl. apply (vl_bad_pad _ _ _ _ _ H). Qed.
Lemma vdec_firstn5 bs : vdec (takeN 5 bs) = vdec bs.
Proof. rewrite !vdec_vl. apply (vl_firstn bs 0 0 1). lia. Qed.
(* the four possible answers on a prefix, given the answer on the whole *)
Lemma vdec_prefix_insufficient a e : vdec (a ++ e) = VInsufficient -> vdec a = VInsufficient.
Proof.
  intros H. destruct (vdec a) as [x l| | |] eqn:E; [| reflexivity | |].
  - rewrite (vdec_ext_ok _ e _ _ E) in H. discriminate.
  - rewrite (vdec_ext_bad _ e E) in H. discriminate.
  - exfalso. exact (vdec_no_panic _ E).
Qed.
