(* The wire as a function of the history of Context steps (C06 / C08 / C10 / C12 at history level): with a healthy
   writer, what the Context has written after any sequence of handle requests and inbound packets is exactly the
   concatenation, in order, of every request's packet that is not refused (too big, or a QoS>0 PUBLISH at quota 0),
   unchanged, and of the acknowledgement each inbound packet is due - nothing else, nothing twice, nothing missing. *)
From Poster Require Import Model.Client Proofs.BytesP Proofs.ClientP Proofs.QuotaP Proofs.HandshakeP Proofs.ResumeP.
Arguments N.add : simpl never. Arguments N.mul : simpl never. Arguments N.sub : simpl never.
Arguments N.ltb : simpl never. Arguments N.leb : simpl never. Arguments N.eqb : simpl never.

(* refused locally, from the property text: larger than the server's Maximum Packet Size, or a QoS>0 PUBLISH while
   the send quota is exhausted *)
Definition refused (s : sys) (m : cmsg) : bool :=
  negb (size_ok (c s) (msg_pkt m)) ||
  match m with MAwait _ _ _ pkt => (ptype_of pkt =? 3) && (quota (c s) =? 0) | _ => false end.

Fixpoint spec_wire (s : sys) (evs : list qev) : bytes :=
  match evs with
  | [] => []
  | QMsg m :: r => (if refused s m then [] else msg_pkt m) ++ spec_wire (qstep s (QMsg m)) r
  | QPkt p :: r => ack_due p ++ spec_wire (qstep s (QPkt p)) r
  end.

Lemma message_wire s m : wbudget s = None ->
  wire_ev (fst (handle_message s m)) = wire_ev s ++ (if refused s m then [] else msg_pkt m).
Proof.
  intros Hb. unfold refused. destruct (size_ok (c s) (msg_pkt m)) eqn:Hs; cbn [negb orb].
  - destruct m as [i p|i ph a p|i a sid p]; cbn [msg_pkt] in *.
    + apply fits_written; [exact Hs|exact Hb|intros; discriminate].
    + destruct (ptype_of p =? 3) eqn:Ht; cbn [andb].
      * destruct (quota (c s) =? 0) eqn:Hq.
        -- apply N.eqb_eq in Ht, Hq. destruct (quota_refusal s i ph a p Hs Ht Hq) as (_ & _ & Hw & _).
           rewrite Hw, app_nil_r. reflexivity.
        -- apply fits_written; [exact Hs|exact Hb|]. intros i0 ph0 a0 p0 He _. injection He as _ _ _ <-.
           apply N.eqb_neq. exact Hq.
      * apply fits_written; [exact Hs|exact Hb|]. intros i0 ph0 a0 p0 He Hp. injection He as _ _ _ <-.
        apply N.eqb_neq in Ht. contradiction.
    + apply fits_written; [exact Hs|exact Hb|intros; discriminate].
  - destruct (too_big_rejected s m Hs) as (_ & _ & Hw & _). rewrite Hw, app_nil_r. reflexivity.
Qed.

Theorem wire_history evs : forall s, wbudget s = None ->
  wire_ev (run_q s evs) = wire_ev s ++ spec_wire s evs.
Proof.
  induction evs as [|e evs IH]; intros s Hb; cbn [run_q spec_wire]; [rewrite app_nil_r; reflexivity|].
  rewrite (IH (qstep s e) (qstep_wb_none s e Hb)).
  destruct e as [m|p]; cbn [qstep].
  - rewrite message_wire by exact Hb. rewrite <- app_assoc. reflexivity.
  - pose proof (handle_packet_wire s p Hb) as H. unfold wb in H. injection H as H _. rewrite H, <- app_assoc. reflexivity.
Qed.

(* the same, for the refusal decision: a request is refused exactly when the property says so, and a refused request
   leaves the Context state, the wire and the queue untouched (only its own oneshot is answered) *)
Lemma refused_untouched s m : refused s m = true ->
  c (fst (handle_message s m)) = c s /\ wire_ev (fst (handle_message s m)) = wire_ev s /\
  snd (handle_message s m) = Continue.
Proof.
  unfold refused. destruct (size_ok (c s) (msg_pkt m)) eqn:Hs; cbn [negb orb].
  - destruct m as [i p|i ph a p|i a sid p]; try discriminate. cbn [msg_pkt] in Hs. intros H.
    apply andb_prop in H as [Ht Hq]. apply N.eqb_eq in Ht, Hq.
    destruct (quota_refusal s i ph a p Hs Ht Hq) as (H1 & H2 & H3 & _). auto.
  - intros _. destruct (too_big_rejected s m Hs) as (H1 & H2 & H3 & _). auto.
Qed.
