(* Step lemmas for the outbound QoS handshakes (C06), stream dispatch (C07), inbound QoS 2
   (C09) and session resumption (C17). *)
From Poster Require Import Model.Client Proofs.BytesP Proofs.ClientP.
From Coq Require Import ZArith ZifyN ZifyBool ZifyNat.
Ltac Zify.zify_post_hook ::= Z.div_mod_to_equations.
Arguments N.add : simpl never. Arguments N.mul : simpl never. Arguments N.sub : simpl never.
Arguments N.ltb : simpl never. Arguments N.leb : simpl never. Arguments N.eqb : simpl never.
Arguments N.shiftr : simpl never. Arguments N.lor : simpl never. Arguments N.land : simpl never.

(* ---- C06: the first poll of publish() ------------------------------------------------------ *)
(* the PUBLISH handed to the context: header 0x30 | qos<<1 | retain with DUP clear, and the
   request kind matches the QoS *)
Lemma first_poll_publish s i o po : o_kind o = OPub po -> ctx_alive s = true ->
  let pid := if po_qos po =? 0 then 0 else fst (alloc_pid (pid_ctr s)) in
  match enc_publish po pid with
  | Ok pkt =>
    msgq (fst (first_poll s i o)) =
      msgq s ++ [if po_qos po =? 0 then MFire i pkt
                 else MAwait i 1 (aid (if po_qos po =? 1 then 4 else 5) pid) pkt] /\
    snd (first_poll s i o) = [OPend i] /\
    wire_ev (fst (first_poll s i o)) = wire_ev s /\
    hd 0 pkt = 48 + po_qos po * 2 + b2n (po_retain po)
  | Err => snd (first_poll s i o) = [ODone i RErrCodec] /\ msgq (fst (first_poll s i o)) = msgq s
  | Panic => snd (first_poll s i o) = [ODone i RPanic] /\ msgq (fst (first_poll s i o)) = msgq s
  end.
Proof.
  intros Hk Ha. unfold first_poll. rewrite Hk. cbv zeta.
  destruct (po_qos po =? 0) eqn:Eq.
  - destruct (enc_publish po 0) as [pkt| |] eqn:Ee; unfold send; rewrite ?Ha; cbn; auto.
    repeat split; try reflexivity.
    unfold enc_publish in Ee. destruct (po_topic po); [|discriminate].
    unfold enc_packet in Ee. destruct (venc_checked _); try discriminate. cbn [bind] in Ee.
    destruct (enc_flds _); try discriminate. cbn [bind] in Ee. inversion Ee. cbn [hd].
    unfold publish_hdr. cbn [b2n]. lia.
  - destruct (alloc_pid (pid_ctr s)) as [pid ctr]. cbn [fst].
    destruct (enc_publish po pid) as [pkt| |] eqn:Ee; unfold send; cbn [ctx_alive set_ctrs]; rewrite ?Ha; cbn; auto.
    repeat split; try reflexivity.
    unfold enc_publish in Ee. destruct (po_topic po); [|discriminate].
    unfold enc_packet in Ee. destruct (venc_checked _); try discriminate. cbn [bind] in Ee.
    destruct (enc_flds _); try discriminate. cbn [bind] in Ee. inversion Ee. cbn [hd].
    unfold publish_hdr. cbn [b2n]. lia.
Qed.

(* QoS 0: completes Ok once the context has written it (CUnit is sent after the write) *)
Lemma publish_qos0_done s i o po : o_kind o = OPub po -> o_ch1 o = CFull CUnit ->
  snd (poll_wait1 s i o) = [ODone i ROk].
Proof. intros Hk Hc. unfold poll_wait1. rewrite Hc, Hk. reflexivity. Qed.

(* QoS 1: completes on its PUBACK; reason >= 0x80 is PubackError carrying the packet *)
Lemma publish_qos1_done s i o po p : o_kind o = OPub po -> po_qos po = 1 ->
  o_ch1 o = CFull (CPkt p) -> rk p = KPuback ->
  snd (poll_wait1 s i o) = [ODone i (if 128 <=? r_reason p then RErrPuback p else ROk)] /\
  msgq (fst (poll_wait1 s i o)) = msgq s /\ wire_ev (fst (poll_wait1 s i o)) = wire_ev s.
Proof.
  intros Hk Hq Hc Hr. unfold poll_wait1. rewrite Hc, Hk, Hq, Hr. change (1 =? 1) with true. cbv iota.
  auto.
Qed.

(* QoS 2, PUBREC: reason >= 0x80 fails with PubrecError and no PUBREL is ever requested;
   a smaller reason requests exactly one PUBREL with the PUBREC's identifier *)
Lemma publish_qos2_pubrec s i o po p : o_kind o = OPub po -> po_qos po = 2 ->
  o_ch1 o = CFull (CPkt p) -> rk p = KPubrec -> ctx_alive s = true ->
  if 128 <=? r_reason p
  then snd (poll_wait1 s i o) = [ODone i (RErrPubrec p)] /\ msgq (fst (poll_wait1 s i o)) = msgq s
  else snd (poll_wait1 s i o) = [OPend i] /\
       msgq (fst (poll_wait1 s i o)) = msgq s ++ [MAwait i 2 (aid 7 (r_pid p)) (enc_pubrel (r_pid p))].
Proof.
  intros Hk Hq Hc Hr Ha. unfold poll_wait1. rewrite Hc, Hk, Hq, Hr. change (2 =? 1) with false. cbv iota.
  destruct (128 <=? r_reason p); [auto|]. unfold send. rewrite Ha. auto.
Qed.
Lemma publish_qos2_done s i o p : o_ch2 o = CFull (CPkt p) -> rk p = KPubcomp ->
  snd (poll_wait2 s i o) = [ODone i (if 128 <=? r_reason p then RErrPubcomp p else ROk)].
Proof. intros Hc Hr. unfold poll_wait2. rewrite Hc, Hr. reflexivity. Qed.
(* the PUBREL is the fixed four bytes 0x62 0x02 id *)
Lemma enc_pubrel_bytes pid : enc_pubrel pid = [98; 2; (pid / 256) mod 256; pid mod 256].
Proof. reflexivity. Qed.

(* ---- C07: dispatch ---------------------------------------------------------------------------- *)
Lemma alookup_aset_same {A} k (a : A) l : alookup k (aset k a l) = Some a.
Proof.
  induction l as [|[k' a'] l IH]; cbn [aset alookup].
  - rewrite N.eqb_refl. reflexivity.
  - destruct (k' =? k) eqn:E; cbn [alookup]; [rewrite N.eqb_refl; reflexivity|]. rewrite E. exact IH.
Qed.
Lemma alookup_aset_other {A} k j (a : A) l : j <> k -> alookup j (aset k a l) = alookup j l.
Proof.
  intros Hne. induction l as [|[k' a'] l IH]; cbn [aset alookup].
  - replace (k =? j) with false by (symmetry; apply N.eqb_neq; congruence). reflexivity.
  - destruct (k' =? k) eqn:E; cbn [alookup].
    + apply N.eqb_eq in E. subst k'. replace (k =? j) with false by (symmetry; apply N.eqb_neq; congruence). reflexivity.
    + destruct (k' =? j); [reflexivity|exact IH].
Qed.

(* a PUBLISH dispatched on subscription identifier sid: appended, unchanged, to the buffer of the
   stream registered under sid and to no other; every other stream is untouched *)
Lemma dispatch_delivers s sid p j st :
  alookup sid (subs (c s)) = Some j -> alookup j (streams s) = Some st -> st_recv st = true ->
  alookup j (streams (dispatch s sid p)) = Some (mkst (st_buf st ++ [p]) (st_sender st) true (st_taken st)) /\
  (forall k, k <> j -> alookup k (streams (dispatch s sid p)) = alookup k (streams s)) /\
  c (dispatch s sid p) = c s.
Proof.
  intros Hs Hj Hr. unfold dispatch. rewrite Hs, Hj, Hr. cbn [streams set_streams c].
  split; [apply alookup_aset_same|]. split; [|reflexivity]. intros k Hk. apply alookup_aset_other. exact Hk.
Qed.
Lemma dispatch_unknown s sid p : alookup sid (subs (c s)) = None -> dispatch s sid p = s.
Proof. unfold dispatch. intros ->. reflexivity. Qed.
(* the stream yields its buffer in order, one item per poll *)
Lemma poll_stream_item s j st p r : alookup j (streams s) = Some st -> st_taken st = true -> st_buf st = p :: r ->
  snd (poll_stream s j) = [OItem j p] /\
  alookup j (streams (fst (poll_stream s j))) = Some (mkst r (st_sender st) (st_recv st) (st_taken st)).
Proof.
  intros Hl Ht Hb. unfold poll_stream. rewrite Hl, Ht, Hb. cbn [negb snd fst streams set_streams].
  split; [reflexivity|apply alookup_aset_same].
Qed.

(* ---- C09: inbound QoS 2 ------------------------------------------------------------------------ *)
Definition is_q2 (p : rxpkt) : bool := match rk p with KPublish => r_qos p =? 2 | _ => false end.
(* a re-delivery (identifier answered with PUBREC, PUBREL not yet seen): PUBREC again, nothing
   reaches any stream, the set of awaited identifiers is unchanged *)
Lemma q2_redelivery s p : rk p = KPublish -> r_qos p = 2 -> memN (r_pid p) (await_rel (c s)) = true ->
  wbudget s = None ->
  streams (fst (handle_packet s p)) = streams s /\
  await_rel (c (fst (handle_packet s p))) = await_rel (c s) /\
  wire_ev (fst (handle_packet s p)) = wire_ev s ++ enc_pubrec (r_pid p).
Proof.
  intros Hk Hq Hm Hb. unfold handle_packet. rewrite Hk, Hq, Hm. change (2 =? 2) with true.
  change (2 =? 0) with false. change (2 =? 1) with false. cbn [andb negb]. cbv zeta iota.
  cbn [fst]. rewrite write_streams, write_c, write_nofault_fst by exact Hb. auto.
Qed.
(* a new QoS 2 message: recorded, dispatched once, PUBREC *)
Lemma q2_new s p : rk p = KPublish -> r_qos p = 2 -> memN (r_pid p) (await_rel (c s)) = false ->
  wbudget s = None ->
  let s1 := set_c s (with_rel (c s) (await_rel (c s) ++ [r_pid p])) in
  streams (fst (handle_packet s p)) =
    streams (match pub_subid p with Some sid => dispatch s1 sid p | None => s1 end) /\
  await_rel (c (fst (handle_packet s p))) = await_rel (c s) ++ [r_pid p] /\
  wire_ev (fst (handle_packet s p)) = wire_ev s ++ enc_pubrec (r_pid p).
Proof.
  intros Hk Hq Hm Hb. unfold handle_packet. rewrite Hk, Hq, Hm. change (2 =? 2) with true.
  change (2 =? 0) with false. change (2 =? 1) with false. cbn [andb negb]. cbv zeta iota.
  cbn [fst]. rewrite write_streams, write_c.
  assert (Hd : forall s0 sid, await_rel (c (dispatch s0 sid p)) = await_rel (c s0) /\ wb (dispatch s0 sid p) = wb s0).
  { intros s0 sid. split; [|apply dispatch_wb]. unfold dispatch.
    destruct (alookup sid (subs (c s0))) as [j|]; [|reflexivity].
    destruct (alookup j (streams s0)) as [st|]; [destruct (st_recv st)|]; cbn; rewrite ?close_c; reflexivity. }
  destruct (pub_subid p) as [sid|].
  - destruct (Hd (set_c s (with_rel (c s) (await_rel (c s) ++ [r_pid p]))) sid) as [H1 H2].
    split; [reflexivity|]. split; [rewrite H1; reflexivity|].
    unfold wb in H2. inversion H2 as [[H3 H4]]. cbn [wbudget set_c] in H4.
    rewrite write_nofault_fst by (rewrite H4; exact Hb). cbn [wire_ev set_wire]. rewrite H3. reflexivity.
  - rewrite write_nofault_fst by exact Hb. auto.
Qed.
(* PUBREL: the identifier is released, PUBCOMP is written *)
Lemma q2_release s p : rk p = KPubrel -> wbudget s = None ->
  await_rel (c (fst (handle_packet s p))) = filter (fun i => negb (i =? r_pid p)) (await_rel (c s)) /\
  streams (fst (handle_packet s p)) = streams s /\
  wire_ev (fst (handle_packet s p)) = wire_ev s ++ enc_pubcomp (r_pid p).
Proof.
  intros Hk Hb. unfold handle_packet. rewrite Hk. cbv zeta. cbn [fst].
  rewrite write_c, write_streams, write_nofault_fst by exact Hb. auto.
Qed.

(* ---- C17: resumption ------------------------------------------------------------------------------ *)
Lemma session_expired_spec x t : t < 4294967296 ->
  session_expired x t = true <-> (sei x = 0 \/ (sei x <> 4294967295 /\ sei x <= t)).
Proof.
  intros Ht. unfold session_expired. rewrite orb_true_iff, andb_true_iff, negb_true_iff.
  rewrite !N.eqb_eq, N.eqb_neq, N.leb_le. replace (N.min t 4294967295) with t by lia. tauto.
Qed.
(* retransmit writes the queued packets in queue order, nothing else; each takes one slot of the send quota *)
Definition same_but_quota (x y : ctx) : Prop :=
  awaiting x = awaiting y /\ subs x = subs y /\ retx x = retx y /\ await_rel x = await_rel y /\ rmax x = rmax y /\
  maxpkt x = maxpkt y /\ sei x = sei y /\ disc_ts x = disc_ts y.
Lemma retransmit_wire l : forall s, wbudget s = None ->
  wire_ev (fst (retransmit s l)) = wire_ev s ++ concat (map snd l) /\ snd (retransmit s l) = true /\
  same_but_quota (c (fst (retransmit s l))) (c s) /\ quota (c (fst (retransmit s l))) = quota (c s) - lenN l /\
  ops (fst (retransmit s l)) = ops s.
Proof.
  induction l as [|[a pkt] l IH]; intros s Hb; cbn [retransmit map concat snd].
  - rewrite app_nil_r, lenN_nil, N.sub_0_r. unfold same_but_quota. repeat split; reflexivity.
  - rewrite write_nofault_snd, !write_nofault_fst by exact Hb.
    set (s1 := set_c (set_wire s None (wire_ev s ++ pkt)) (with_quota (c (set_wire s None (wire_ev s ++ pkt))) (quota (c (set_wire s None (wire_ev s ++ pkt))) - 1))).
    destruct (IH s1) as (H1 & H2 & H3 & H4 & H5); [reflexivity|].
    rewrite H1, H2, H4, H5. unfold same_but_quota in *. unfold s1 in *.
    cbn [wire_ev set_c set_wire c ops quota with_quota awaiting subs retx await_rel rmax maxpkt sei disc_ts] in *.
    rewrite app_assoc, lenN_cons. split; [reflexivity|]. split; [reflexivity|]. split; [exact H3|]. split; [lia|reflexivity].
Qed.
(* what enters and leaves the retransmit queue *)
Lemma retx_publish s i ph a pkt : size_ok (c s) pkt = true -> ptype_of pkt = 3 -> quota (c s) <> 0 ->
  wbudget s = None ->
  retx (c (fst (handle_message s (MAwait i ph a pkt)))) = retx (c s) ++ [(a, set_dup pkt)].
Proof.
  intros Hs Ht Hq Hb. unfold handle_message. rewrite Hs, Ht. change (3 =? 3) with true. cbn [negb]. cbv iota zeta.
  replace (quota (c s) =? 0) with false by (symmetry; apply N.eqb_neq; exact Hq).
  rewrite write_nofault_snd, write_nofault_fst by exact Hb. reflexivity.
Qed.
Lemma retx_pubrel s i ph a pkt : size_ok (c s) pkt = true -> ptype_of pkt = 6 -> wbudget s = None ->
  retx (c (fst (handle_message s (MAwait i ph a pkt)))) = retx (c s) ++ [(a, pkt)].
Proof.
  intros Hs Ht Hb. unfold handle_message. rewrite Hs, Ht. change (6 =? 3) with false. change (6 =? 6) with true.
  cbn [negb]. cbv iota zeta. rewrite write_nofault_snd, write_nofault_fst by exact Hb. reflexivity.
Qed.
Lemma ack_waiter_retx s a p : retx (c (ack_waiter s a p)) = retx (c s).
Proof.
  unfold ack_waiter. destruct (alookup a (awaiting (c s))) as [[i ph]|]; [|reflexivity]. rewrite complete_c. reflexivity.
Qed.
Lemma bump_retx x : retx (bump_quota x) = retx x.
Proof. unfold bump_quota. destruct (quota x =? rmax x); reflexivity. Qed.
Lemma dispatch_retx s0 sid p : retx (c (dispatch s0 sid p)) = retx (c s0).
Proof.
  unfold dispatch; destruct (alookup sid (subs (c s0))) as [j|]; [|reflexivity];
  destruct (alookup j (streams s0)) as [st|]; [destruct (st_recv st)|]; cbn; rewrite ?close_c; reflexivity.
Qed.
Lemma retx_ack s p :
  retx (c (fst (handle_packet s p))) =
  match rk p with
  | KPuback => aremove (aid 4 (r_pid p)) (retx (c s))
  | KPubrec => aremove (aid 5 (r_pid p)) (retx (c s))
  | KPubcomp => aremove (aid 7 (r_pid p)) (retx (c s))
  | _ => retx (c s)
  end.
Proof.
  unfold handle_packet. cbv zeta. destruct (rk p); cbn [fst]; rewrite ?ack_waiter_retx; cbn [c set_c retx with_retx];
    rewrite ?bump_retx; try reflexivity.
  - destruct (r_qos p =? 0); cbn [fst]; rewrite ?write_c;
    repeat match goal with
      | |- context [if ?b then _ else _] => destruct b
      | |- context [match pub_subid p with _ => _ end] => destruct (pub_subid p)
      end; rewrite ?dispatch_retx; reflexivity.
  - destruct (128 <=? r_reason p); rewrite ?bump_retx; reflexivity.
  - rewrite write_c. reflexivity.
Qed.
(* DUP is set in the stored copy only: bit 3 of the first byte, everything else unchanged *)
Lemma set_dup_spec h r : set_dup (h :: r) = N.lor h 8 :: r.
Proof. reflexivity. Qed.

(* ---- C15: dropping a future is local ----------------------------------------------------------- *)
Lemma alookup_aremove_other {A} k j (l : list (N * A)) : j <> k -> alookup j (aremove k l) = alookup j l.
Proof.
  intros Hne. induction l as [|[k' a'] l IH]; cbn [aremove alookup]; [reflexivity|].
  destruct (k' =? k) eqn:E; cbn [alookup].
  - apply N.eqb_eq in E. subst k'. replace (k =? j) with false by (symmetry; apply N.eqb_neq; congruence). reflexivity.
  - destruct (k' =? j); [reflexivity|exact IH].
Qed.
Lemma drop_recv_proj s j : c (drop_recv s j) = c s /\ msgq (drop_recv s j) = msgq s /\
  wire_ev (drop_recv s j) = wire_ev s /\ ops (drop_recv s j) = ops s.
Proof. unfold drop_recv. destruct (alookup j (streams s)); cbn; auto. Qed.
Lemma drop_op_local s i :
  c (drop_op s i) = c s /\ msgq (drop_op s i) = msgq s /\ wire_ev (drop_op s i) = wire_ev s /\
  forall j, j <> i -> alookup j (ops (drop_op s i)) = alookup j (ops s).
Proof.
  unfold drop_op. destruct (alookup i (ops s)) as [o|]; [|auto].
  destruct (drop_recv_proj s i) as [H1 [H2 [H3 H4]]].
  destruct (o_kind o); cbn [c msgq wire_ev ops set_ops];
    try (repeat split; try reflexivity; intros j Hj; apply alookup_aremove_other; exact Hj).
  destruct (match alookup i (streams s) with Some st => negb (st_taken st) | None => false end);
    cbn [c msgq wire_ev ops set_ops]; rewrite ?H1, ?H2, ?H3, ?H4;
    repeat split; try reflexivity; intros j Hj; apply alookup_aremove_other; exact Hj.
Qed.
