#!/bin/bash
# run_seed_own.sh <seed-dir-name> [tier]   like run_seed.sh, but runs only the check of the property the seed was written against
# (plus those named in $ALSO, e.g. ALSO="02 09"); meta.json records which checks were run. Never leaves /repo modified.
set -u
S=$1; TIER=${2:-quick}; D=/verif/seeded/$S
[ -f $D/patch.diff ] || { echo "no such seed $S"; exit 2; }
cd /repo; git diff --quiet || { echo "/repo has local modifications; refusing"; exit 2; }
trap 'git -C /repo checkout -q -- . ' EXIT
git apply $D/patch.diff || { echo "$S: patch does not apply"; exit 2; }
cd /verif; mkdir -p work/seed-$S; rm -f work/seed-$S/*.log work/seed-$S/exit.txt
# build the harness once (serialised by the cargo lock anyway)
OWN=$(echo $S | cut -c2-3)
for i in $OWN ${ALSO:-}; do
  ( ./check C$i $TIER > work/seed-$S/C$i.log 2>&1; echo "C$i $?" >> work/seed-$S/exit.txt ) &
done
wait
caught=$(grep -l "^VIOLATION" work/seed-$S/C*.log 2>/dev/null | sed 's|.*/||; s|\.log||' | tr '\n' ' ')
echo "$S: caught by: ${caught:-NONE}"
for f in work/seed-$S/C*.log; do grep -H "^VIOLATION" $f | head -2; done
python3 - "$S" "$caught" <<'PY'
import json,sys,os
s,caught=sys.argv[1],sys.argv[2].split()
p='/verif/seeded/%s/meta.json'%s
m=json.load(open(p)); m['detected_by']=caught; m['ran']="tools/run_seed_own.sh %s (git -C /repo apply; ./check quick for the seed's own property only; git -C /repo checkout -- .)"%s
det={}
for c in caught:
    for l in open('/verif/work/seed-%s/%s.log'%(s,c)):
        if l.startswith('VIOLATION'):
            r=l.split('replay=')[1].split()[0]
            try:
                d=json.load(open(r)); det[c]={"no_longer_checks":d.get("no_longer_checks"),"message":d.get("message"),"case":d.get("case"), "no_failing_input": 'no-failing-input-found' in l}
            except Exception as e: det[c]={"line":l.strip()}
            break
m['detail']=det
json.dump(m,open(p,'w'),indent=1)
PY
rm -f /verif/evidence/replays/*  # replays of a mutant run are not evidence of the unchanged tree
