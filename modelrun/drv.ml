(* modelrun: runs the extracted Coq model on the cases of the case language and prints the same
   lines as the Rust harness.  Hand-written glue (parser/printer), part of the trusted base. *)
module M = Model

(* ---- N <-> int ---- *)
let rec pos_of_int (i : int) : M.positive =
  if i = 1 then M.XH else if i land 1 = 1 then M.XI (pos_of_int (i lsr 1)) else M.XO (pos_of_int (i lsr 1))
let n_of_int (i : int) : M.n = if i <= 0 then M.N0 else M.Npos (pos_of_int i)
let rec int_of_pos = function M.XH -> 1 | M.XO p -> 2 * int_of_pos p | M.XI p -> 2 * int_of_pos p + 1
let int_of_n = function M.N0 -> 0 | M.Npos p -> int_of_pos p

(* ---- values of the case language ---- *)
let unhex (s : string) : int list =
  let buf = ref [] in
  List.iter (fun part ->
    if part = "-" || part = "" then ()
    else if part.[0] = 'r' then begin
      let x = String.index part 'x' in
      let cnt = int_of_string (String.sub part 1 (x - 1)) in
      let b = int_of_string ("0x" ^ String.sub part (x + 1) (String.length part - x - 1)) in
      for _ = 1 to cnt do buf := b :: !buf done
    end else begin
      let n = String.length part / 2 in
      for i = 0 to n - 1 do buf := int_of_string ("0x" ^ String.sub part (2 * i) 2) :: !buf done
    end) (String.split_on_char '+' s);
  List.rev !buf
let bytes_of (s : string) : M.bytes = List.map n_of_int (unhex s)
let num (s : string) : M.n = n_of_int (int_of_string s)

let kv (t : string) : string * string =
  match String.index_opt t '=' with
  | Some i -> (String.sub t 0 i, String.sub t (i + 1) (String.length t - i - 1))
  | None -> failwith ("k=v expected: " ^ t)
let pair (v : string) : M.bytes * M.bytes =
  let i = String.index v ':' in
  (bytes_of (String.sub v 0 i), bytes_of (String.sub v (i + 1) (String.length v - i - 1)))
let get k l = List.assoc_opt k l
let getall k l = List.filter_map (fun (k', v) -> if k = k' then Some v else None) l
let onum k l = Option.map num (get k l)
let obytes k l = Option.map bytes_of (get k l)
let obool k l = Option.map (fun v -> v = "1") (get k l)
let dnum k d l = match get k l with Some v -> num v | None -> n_of_int d
let dbool k l = match get k l with Some v -> v = "1" | None -> false

(* the harness applies setters in token order and a later setter overwrites an earlier one:
   keep the LAST occurrence of single-valued keys *)
let lastwins (l : (string * string) list) : (string * string) list =
  let multi = ["up"; "wup"; "f"] in
  let rec go seen = function
    | [] -> []
    | (k, v) :: r ->
      if List.mem k multi then (k, v) :: go seen r
      else if List.mem k seen then go seen r else (k, v) :: go (k :: seen) r in
  List.rev (go [] (List.rev l))

let connect_opts toks : M.connect_opts =
  let l = lastwins (List.map kv toks) in
  { M.co_cid = (match get "cid" l with Some v -> bytes_of v | None -> []);
    co_ka = dnum "ka" 0 l; co_sei = onum "sei" l; co_rm = onum "rm" l; co_mps = onum "mps" l;
    co_tam = onum "tam" l; co_rri = obool "rri" l; co_rpi = obool "rpi" l;
    co_am = obytes "am" l; co_ad = obytes "ad" l; co_up = List.map pair (getall "up" l);
    co_wq = dnum "wq" 0 l; co_wr = dbool "wr" l; co_cs = dbool "cs" l;
    co_wdi = onum "wdi" l; co_wpfi = obool "wpfi" l; co_wmei = onum "wmei" l;
    co_wct = obytes "wct" l; co_wrt = obytes "wrt" l; co_wcd = obytes "wcd" l;
    co_wup = List.map pair (getall "wup" l);
    co_wt = obytes "wt" l; co_wp = obytes "wp" l; co_un = obytes "un" l; co_pw = obytes "pw" l }
let auth_opts toks : M.auth_opts =
  let l = lastwins (List.map kv toks) in
  { M.ao_reason = dnum "r" 0 l; ao_am = obytes "am" l; ao_ad = obytes "ad" l;
    ao_up = List.map pair (getall "up" l) }
let disconnect_opts toks : M.disconnect_opts =
  let l = lastwins (List.map kv toks) in
  { M.do_reason = dnum "r" 0 l; do_sei = onum "sei" l; do_rs = obytes "rs" l;
    do_up = List.map pair (getall "up" l) }
let publish_opts toks : M.publish_opts =
  let l = lastwins (List.map kv toks) in
  { M.po_qos = dnum "q" 0 l; po_retain = dbool "ret" l; po_topic = obytes "t" l;
    po_payload = obytes "pl" l; po_pfi = obool "pfi" l; po_ta = onum "ta" l; po_mei = onum "mei" l;
    po_cd = obytes "cd" l; po_rt = obytes "rt" l; po_ct = obytes "ct" l;
    po_up = List.map pair (getall "up" l) }
let subscribe_opts toks : M.subscribe_opts =
  let l = lastwins (List.map kv toks) in
  let filt v =
    let i = String.rindex v ':' in
    let t = String.sub v 0 i and fl = String.sub v (i + 1) 4 in
    let d k = Char.code fl.[k] - 48 in
    { M.sf_topic = bytes_of t; sf_qos = n_of_int (min (d 0) 2); sf_nl = d 1 = 1; sf_rap = d 2 = 1;
      sf_rh = n_of_int (min (d 3) 2) } in
  { M.so_filters = List.map filt (getall "f" l); so_up = List.map pair (getall "up" l) }
let unsubscribe_opts toks : M.unsubscribe_opts =
  let l = lastwins (List.map kv toks) in
  { M.uo_filters = List.map bytes_of (getall "f" l); uo_up = List.map pair (getall "up" l) }

let event (toks : string list) : M.event =
  match toks with
  | "connect" :: r -> M.EConnect (connect_opts r)
  | "auth" :: r -> M.EAuth (auth_opts r)
  | ["run"] -> M.ERun
  | ["deliver"; h] -> M.EDeliver (bytes_of h)
  | ["eof"] -> M.EEof
  | ["rerr"] -> M.ERerr
  | ["rintr"] -> M.ERerr                 (* a read failing with ErrorKind::Interrupted: to the client any read error ends the stream *)
  | ["werr"; n] -> M.EWerr (num n)
  | ["werr0"; n] -> M.EWerr (num n)      (* the write half reporting Ok(0): write_all turns it into an error (WriteZero) *)
  | ["wintr"; n] -> M.EWerr (num n)      (* one poll_write failing with ErrorKind::Interrupted: write_all does not retry, any write error ends run() *)
  | ["cfault"; _] -> M.ENop              (* poll_close failing or pending: the library never closes the transport *)
  | "wmode" :: _ -> M.ENop
  | "start" :: i :: h :: kind :: r | "startown" :: i :: h :: kind :: r ->
    let k = match kind with
      | "pub" -> M.OPub (publish_opts r)
      | "sub" -> M.OSub (subscribe_opts r)
      | "unsub" -> M.OUnsub (unsubscribe_opts r)
      | "ping" -> M.OPing
      | "disc" -> M.ODisc (disconnect_opts r)
      | _ -> failwith ("op kind " ^ kind) in
    M.EStart (num i, num h, k)
  | ["poll"; i] | ["fpoll"; i] -> M.EPoll (num i)
  | ["dropop"; i] -> M.EDropOp (num i)
  | ["tostream"; i] -> M.EToStream (num i)
  | ["pollstream"; j] | ["fpollstream"; j] -> M.EPollStream (num j)
  | ["dropstream"; j] -> M.EDropStream (num j)
  | ["clone"; h; h2] -> M.EClone (num h, num h2)
  | ["drophandle"; h] -> M.EDropHandle (num h)
  | ["dropctx"] -> M.EDropCtx
  | ["hold"] -> M.EHold
  | ["release"] -> M.ERelease
  | ["markdisc"; t] -> M.EMarkDisc (num t)
  | ["reconnect"] -> M.EReconnect
  | ["sweep"] -> M.ENop
  | ["spin"; n; base; kind; ack] ->
    let k = match kind with "pub1" -> 1 | "pub2" -> 2 | "sub" -> 3 | _ -> 4 in
    M.ESpin (num n, num base, n_of_int k, ack = "1")
  | _ -> failwith ("unknown event: " ^ String.concat " " toks)

(* ---- printing ---- *)
let hex (b : M.bytes) : string =
  if b = [] then "-" else begin
    let buf = Buffer.create (2 * List.length b) in
    List.iter (fun x -> Buffer.add_string buf (Printf.sprintf "%02x" (int_of_n x))) b;
    Buffer.contents buf end
let fnv (b : M.bytes) : int =
  List.fold_left (fun h x -> ((h lxor (int_of_n x)) * 0x01000193) land 0xffffffff) 0x811c9dc5 b
let big (b : M.bytes) : string =
  let n = List.length b in
  if n > 96 then Printf.sprintf "L%d:%08x" n (fnv b) else hex b
let cstr (s : M.string) : string =
  let b = Buffer.create 8 in
  let bit x k = if x then 1 lsl k else 0 in
  let rec go = function
    | M.EmptyString -> ()
    | M.String (M.Ascii (a0, a1, a2, a3, a4, a5, a6, a7), r) ->
      Buffer.add_char b (Char.chr (bit a0 0 + bit a1 1 + bit a2 2 + bit a3 3 + bit a4 4 + bit a5 5
                                    + bit a6 6 + bit a7 7));
      go r in
  go s; Buffer.contents b
let fval ~(raw : bool) (v : M.fval) : string =
  match v with
  | M.FN n -> string_of_int (int_of_n n)
  | M.FON None | M.FOB None -> "~"
  | M.FON (Some n) -> "=" ^ string_of_int (int_of_n n)
  | M.FOB (Some b) -> "=" ^ big b
  | M.FBy b -> if raw then hex b else big b
  | M.FUP [] -> "-"
  | M.FUP l -> String.concat "," (List.map (fun (k, v) -> big k ^ ":" ^ big v) l)
let view (v : M.view) : string =
  String.concat " " (List.map (fun (k, x) -> let k = cstr k in k ^ "=" ^ fval ~raw:(k = "codes") x) v)

let opres (r : M.opres) : string =
  match r with
  | M.ROk -> "ok"
  | M.RSub p -> "ok sub " ^ view (M.view_suback p)
  | M.RUnsub p -> "ok unsub " ^ view (M.view_suback p)
  | M.RErrCodec -> "err Codec"
  | M.RErrExited -> "err ContextExited"
  | M.RErrQuota -> "err QuotaExceeded"
  | M.RErrTooBig -> "err MaximumPacketSizeExceeded"
  | M.RErrPuback p -> "err Puback " ^ view (M.view_ack p)
  | M.RErrPubrec p -> "err Pubrec " ^ view (M.view_ack p)
  | M.RErrPubcomp p -> "err Pubcomp " ^ view (M.view_ack p)
  | M.RPanic -> "PANIC"
let obs (o : M.obs) : string =
  let i = int_of_n in
  match o with
  | M.OWire b -> "W " ^ hex b
  | M.OConn (M.ConnAck p) -> "C ok " ^ view (M.view_connack p)
  | M.OConn (M.ConnAuth p) -> "C auth " ^ view (M.view_auth p)
  | M.OConn (M.ConnErrConnect p) -> "C err Connect " ^ view (M.view_connect_error p)
  | M.OConn M.ConnErrCodec -> "C err Codec"
  | M.OConn M.ConnErrSocketClosed -> "C err SocketClosed"
  | M.OConn M.ConnAssert | M.OConn M.ConnPanic -> "X ctx"
  | M.ORun M.RunOk -> "R ok"
  | M.ORun M.RunSocketClosed -> "R err SocketClosed"
  | M.ORun M.RunHandleClosed -> "R err HandleClosed"
  | M.ORun M.RunCodec -> "R err Codec"
  | M.ORun (M.RunDisconnected p) -> "R err Disconnected " ^ view (M.view_disconnected p)
  | M.ORun M.RunPanic -> "X ctx"
  | M.ODone (k, M.RPanic) -> Printf.sprintf "X op %d" (i k)
  | M.ODone (k, r) -> Printf.sprintf "D %d %s" (i k) (opres r)
  | M.OPend k -> Printf.sprintf "P %d" (i k)
  | M.OItem (j, p) -> Printf.sprintf "I %d %s" (i j) (view (M.view_publish p))
  | M.ONone j -> Printf.sprintf "N %d" (i j)
  | M.OEnd j -> Printf.sprintf "E %d" (i j)
  | M.OUnknown (w, k) ->
    let what = match i w with 0 | 1 -> "op" | 2 -> "stream" | 3 -> "handle" | _ -> "tostream" in
    Printf.sprintf "? %s %d" what (i k)
  | M.OAlloc (k, Some p, _) -> Printf.sprintf "K %d pid=%d" (i k) (i p)
  | M.OAlloc (k, None, pan) -> Printf.sprintf "K %d none%s" (i k) (if pan then " panic" else "")
  | M.OIncomplete k -> Printf.sprintf "K %d incomplete" (i k)

let split_ws (s : string) : string list =
  List.filter (fun t -> t <> "") (String.split_on_char ' ' (String.trim s))

let run_case (body : string) : string list =
  let evs = List.filter (fun t -> t <> []) (List.map split_ws (String.split_on_char ';' body)) in
  (* the harness numbers events by their position among ALL ';'-separated fields; empty
     fields are skipped there without consuming an index only if blank: keep the same rule *)
  (* pub0s <n>: n QoS 0 publishes, each started, polled to completion and forgotten, printing nothing *)
  let q0 = M.OPub (publish_opts ["q=0"; "t=61"]) in
  let lab = num "900000" in
  let quiet_of toks = match toks with
    | ["pub0s"; n] -> Some (int_of_string n)
    | _ -> None in
  let evs = List.map (fun t -> match quiet_of t with Some n -> (n, M.ENop) | None -> (0, event t)) evs in
  (* = M.run_script evs (a left fold of M.step from M.sys_init, numbering the events), iterated here so
     that earlier states are not retained *)
  let rec go s k evs acc =
    match evs with
    | [] -> List.rev acc
    | (0, e) :: r ->
      let (s', o) = M.step s e in
      go s' (k + 1) r (List.rev_append (List.map (fun x -> Printf.sprintf "%d %s" k (obs x)) o) acc)
    | (n, _) :: r ->
      let rec rep s n = if n = 0 then s else
        let s = fst (M.step s (M.EStart (lab, num "0", q0))) in
        let s = fst (M.step s (M.EPoll lab)) in
        let s = fst (M.step s (M.EPoll lab)) in
        rep (fst (M.step s (M.EDropOp lab))) (n - 1) in
      go (rep s n) (k + 1) r acc in
  go M.sys_init 0 evs []

let () =
  try
    while true do
      let line = String.trim (input_line stdin) in
      if line <> "" && line.[0] <> '#' then begin
        let i = String.index line '|' in
        let id = String.trim (String.sub line 0 i) in
        let body = String.sub line (i + 1) (String.length line - i - 1) in
        print_string ("CASE " ^ id ^ "\n");
        List.iter (fun l -> print_string l; print_char '\n') (run_case body);
        print_string "END\n"
      end
    done
  with End_of_file -> ()
