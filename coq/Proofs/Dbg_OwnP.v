(* C14 at history level: in every state reachable through script events, every operation future that
   is waiting on an empty oneshot has that oneshot's sender owned by the Context (in the handle
   message queue or in awaiting_ack) - so dropping the Context resolves every one of them, and no
   future obtained from the library stays pending after that point. *)
From Poster Require Import Model.Sim Proofs.BytesP Proofs.ClientP Proofs.HandshakeP Proofs.SimInvP.
Arguments N.add : simpl never. Arguments N.mul : simpl never. Arguments N.sub : simpl never.
Arguments N.ltb : simpl never. Arguments N.leb : simpl never. Arguments N.eqb : simpl never.

Definition chan_of (o : op) (ph : N) : chan := if ph =? 1 then o_ch1 o else o_ch2 o.
Definition waiting_on (o : op) (ph : N) : Prop := (o_phase o = Wait1 /\ ph = 1) \/ (o_phase o = Wait2 /\ ph = 2).
Definition unresolved (s : sys) (i ph : N) : Prop :=
  exists o, alookup i (ops s) = Some o /\ waiting_on o ph /\ chan_of o ph = CEmpty.
Definition has_sender (s : sys) (i ph : N) : Prop :=
  (exists m, In m (msgq s) /\ msg_op m = (i, ph)) \/ (exists a, In (a, (i, ph)) (awaiting (c s))).
Definition Own (s : sys) : Prop :=
  forall i ph, unresolved s i ph -> ctx_alive s = true /\ has_sender s i ph.

(* how a step may change the picture: nothing becomes unresolved, and whatever stays unresolved
   keeps a sender *)
Definition Keeps (s s' : sys) : Prop :=
  ctx_alive s' = ctx_alive s /\
  forall i ph, unresolved s' i ph -> unresolved s i ph /\ (has_sender s i ph -> has_sender s' i ph).
Lemma Own_keeps s s' : Own s -> Keeps s s' -> Own s'.
Proof.
  intros Ho [Ha Hk] i ph Hu. destruct (Hk i ph Hu) as [Hu0 Hs]. destruct (Ho i ph Hu0) as [H1 H2].
  rewrite Ha. auto.
Qed.
Lemma Keeps_refl s : Keeps s s. Proof. split; [reflexivity|]. auto. Qed.
Lemma Keeps_trans s1 s2 s3 : Keeps s1 s2 -> Keeps s2 s3 -> Keeps s1 s3.
Proof.
  intros [A1 K1] [A2 K2]. split; [congruence|]. intros i ph Hu.
  destruct (K2 i ph Hu) as [Hu2 Hs2]. destruct (K1 i ph Hu2) as [Hu1 Hs1]. auto.
Qed.
(* states that agree on operations, queue, awaiting list and liveness *)
Definition core (s : sys) := (ops s, msgq s, awaiting (c s), ctx_alive s).
Lemma Keeps_core s s' : core s' = core s -> Keeps s s'.
Proof.
  unfold core. intros H. inversion H as [[H1 H2 H3 H4]]. split; [exact H4|]. intros i ph [o [Hl Hw]].
  split; [exists o; rewrite <- H1; auto|]. unfold has_sender. rewrite H2, H3. auto.
Qed.

(* ---- completing / cancelling one oneshot ------------------------------------------------------------------- *)
Lemma alookup_aset {A} k j (a : A) l : alookup j (aset k a l) = if k =? j then Some a else alookup j l.
Proof.
  destruct (k =? j) eqn:E.
  - apply N.eqb_eq in E. subst j. apply alookup_aset_same.
  - apply N.eqb_neq in E. apply alookup_aset_other. congruence.
Qed.
Lemma fill_not_empty ch v : fill_chan ch v = CEmpty -> False.
Proof. destruct ch; discriminate. Qed.
Lemma gone_not_empty ch : gone_chan ch = CEmpty -> False.
Proof. destruct ch; discriminate. Qed.

Lemma complete_keeps s i0 ph0 v : Keeps s (complete s i0 ph0 v) /\ ~ unresolved (complete s i0 ph0 v) i0 (if ph0 =? 1 then 1 else 2).
Proof.
  unfold complete. destruct (alookup i0 (ops s)) as [o0|] eqn:E0.
  - split.
    + split; [reflexivity|]. intros i ph [o [Hl [Hw Hc]]]. cbn [ops set_ops] in Hl. rewrite alookup_aset in Hl.
      split; [|unfold has_sender; cbn [msgq c set_ops]; auto].
      destruct (i0 =? i) eqn:Ei.
      * apply N.eqb_eq in Ei. subst i. inversion Hl; subst o. exists o0. split; [exact E0|].
        destruct (ph0 =? 1); unfold waiting_on, chan_of in *; cbn [o_phase o_ch1 o_ch2] in *;
          (split; [exact Hw|]); destruct (ph =? 1); try exact Hc; exfalso; eapply fill_not_empty; exact Hc.
      * exists o. auto.
    + intros [o [Hl [Hw Hc]]]. cbn [ops set_ops] in Hl. rewrite alookup_aset_same in Hl. inversion Hl; subst o.
      destruct (ph0 =? 1); unfold chan_of in Hc; cbn [N.eqb Pos.eqb o_ch1 o_ch2] in Hc;
        [change (1 =? 1) with true in Hc|change (2 =? 1) with false in Hc]; cbv iota in Hc; eapply fill_not_empty; exact Hc.
  - split; [apply Keeps_refl|]. intros [o [Hl _]]. rewrite E0 in Hl. discriminate.
Qed.
Lemma cancel_keeps s i0 ph0 : Keeps s (cancel s i0 ph0) /\ ~ unresolved (cancel s i0 ph0) i0 (if ph0 =? 1 then 1 else 2).
Proof.
  unfold cancel. destruct (alookup i0 (ops s)) as [o0|] eqn:E0.
  - split.
    + split; [reflexivity|]. intros i ph [o [Hl [Hw Hc]]]. cbn [ops set_ops] in Hl. rewrite alookup_aset in Hl.
      split; [|unfold has_sender; cbn [msgq c set_ops]; auto].
      destruct (i0 =? i) eqn:Ei.
      * apply N.eqb_eq in Ei. subst i. inversion Hl; subst o. exists o0. split; [exact E0|].
        destruct (ph0 =? 1); unfold waiting_on, chan_of in *; cbn [o_phase o_ch1 o_ch2] in *;
          (split; [exact Hw|]); destruct (ph =? 1); try exact Hc; exfalso; eapply gone_not_empty; exact Hc.
      * exists o. auto.
    + intros [o [Hl [Hw Hc]]]. cbn [ops set_ops] in Hl. rewrite alookup_aset_same in Hl. inversion Hl; subst o.
      destruct (ph0 =? 1); unfold chan_of in Hc; cbn [o_ch1 o_ch2] in Hc;
        [change (1 =? 1) with true in Hc|change (2 =? 1) with false in Hc]; cbv iota in Hc; eapply gone_not_empty; exact Hc.
  - split; [apply Keeps_refl|]. intros [o [Hl _]]. rewrite E0 in Hl. discriminate.
Qed.

(* ---- projections ------------------------------------------------------------------------------------------------ *)
Lemma core_write s p : core (fst (write s p)) = core s.
Proof. unfold write. destruct (wbudget s); [destruct (_ <=? _)|]; reflexivity. Qed.
Lemma core_close s j : core (close_stream_sender s j) = core s.
Proof. unfold close_stream_sender. destruct (alookup j (streams s)); reflexivity. Qed.
Lemma core_dispatch s sid p : core (dispatch s sid p) = core s.
Proof.
  unfold dispatch. destruct (alookup sid (subs (c s))) as [j|]; [|reflexivity].
  destruct (alookup j (streams s)) as [st|]; [destruct (st_recv st)|]; rewrite ?core_close; reflexivity.
Qed.
Lemma core_drop_recv s j : core (drop_recv s j) = core s.
Proof. unfold drop_recv. destruct (alookup j (streams s)); reflexivity. Qed.
Definition nph (ph : N) : N := if ph =? 1 then 1 else 2.

Lemma unres_core s s' i ph : core s' = core s -> unresolved s' i ph -> unresolved s i ph.
Proof. unfold core. intros H. inversion H as [[H1 H2 H3 H4]]. unfold unresolved. rewrite H1. auto. Qed.

(* ---- a handle message taken by the context ----------------------------------------------------------------------- *)
Lemma handle_message_sum s m : let s' := fst (handle_message s m) in
  ctx_alive s' = ctx_alive s /\ msgq s' = msgq s /\
  (forall x, In x (awaiting (c s)) -> In x (awaiting (c s'))) /\
  (forall i ph, unresolved s' i ph -> unresolved s i ph) /\
  (~ unresolved s' (fst (msg_op m)) (nph (snd (msg_op m))) \/ exists a, In (a, msg_op m) (awaiting (c s'))).
Proof.
  cbv zeta.
  assert (Hcomp : forall s0 i ph v, core s0 = core s ->
    ctx_alive (complete s0 i ph v) = ctx_alive s /\ msgq (complete s0 i ph v) = msgq s /\
    (forall x, In x (awaiting (c s)) -> In x (awaiting (c (complete s0 i ph v)))) /\
    (forall i' ph', unresolved (complete s0 i ph v) i' ph' -> unresolved s i' ph') /\
    ~ unresolved (complete s0 i ph v) i (nph ph)).
  { intros s0 i ph v Hc. destruct (complete_keeps s0 i ph v) as [[Ha Hk] Hn].
    unfold core in Hc. inversion Hc as [[H1 H2 H3 H4]].
    rewrite complete_msgq, complete_c, Ha, H2, H3, H4. repeat split; auto.
    intros i' ph' Hu. apply (unres_core s s0); [exact Hc|]. apply Hk. exact Hu. }
  assert (Hcanc : forall s0 i ph, core s0 = core s ->
    ctx_alive (cancel s0 i ph) = ctx_alive s /\ msgq (cancel s0 i ph) = msgq s /\
    (forall x, In x (awaiting (c s)) -> In x (awaiting (c (cancel s0 i ph)))) /\
    (forall i' ph', unresolved (cancel s0 i ph) i' ph' -> unresolved s i' ph') /\
    ~ unresolved (cancel s0 i ph) i (nph ph)).
  { intros s0 i ph Hc. destruct (cancel_keeps s0 i ph) as [[Ha Hk] Hn].
    unfold core in Hc. inversion Hc as [[H1 H2 H3 H4]].
    assert (Hm : msgq (cancel s0 i ph) = msgq s0) by (unfold cancel; destruct (alookup i (ops s0)); reflexivity).
    rewrite Hm, cancel_c, Ha, H2, H3, H4. repeat split; auto.
    intros i' ph' Hu. apply (unres_core s s0); [exact Hc|]. apply Hk. exact Hu. }
  assert (Happ : forall s0 x0 a i ph, core s0 = core s -> x0 = with_awaiting (c s0) (awaiting (c s0) ++ [(a, (i, ph))]) ->
    forall s1, core s1 = (ops s0, msgq s0, awaiting x0, ctx_alive s0) ->
    ctx_alive s1 = ctx_alive s /\ msgq s1 = msgq s /\
    (forall x, In x (awaiting (c s)) -> In x (awaiting (c s1))) /\
    (forall i' ph', unresolved s1 i' ph' -> unresolved s i' ph') /\
    exists a', In (a', (i, ph)) (awaiting (c s1))).
  { intros s0 x0 a i ph Hc -> s1 H1. unfold core in *. inversion Hc as [[A1 A2 A3 A4]]. inversion H1 as [[B1 B2 B3 B4]].
    cbn [awaiting with_awaiting] in B3. rewrite B2, B3, B4, A2, A3, A4. repeat split; auto.
    - intros x Hx. apply in_or_app. auto.
    - intros i' ph' [o Hu]. exists o. rewrite <- A1, <- B1. exact Hu.
    - exists a. apply in_or_app. right. left. reflexivity. }
  unfold handle_message. cbv zeta. destruct m as [i p|i ph a p|i a sid p]; cbn [msg_op fst snd].
  - destruct (negb (size_ok (c s) p)); cbn [fst].
    + destruct (Hcomp s i 1 CTooBig eq_refl) as [H1 [H2 [H3 [H4 H5]]]]. auto 6.
    + destruct (negb (snd (write s p))); cbn [fst].
      * destruct (Hcanc (fst (write s p)) i 1 (core_write s p)) as [H1 [H2 [H3 [H4 H5]]]]. auto 6.
      * destruct (Hcomp (fst (write s p)) i 1 CUnit (core_write s p)) as [H1 [H2 [H3 [H4 H5]]]]. auto 6.
  - destruct (negb (size_ok (c s) p)); cbn [fst].
    + destruct (Hcomp s i ph CTooBig eq_refl) as [H1 [H2 [H3 [H4 H5]]]]. auto 6.
    + destruct (ptype_of p =? 3).
      * destruct (quota (c s) =? 0); cbn [fst].
        -- destruct (Hcomp s i ph CQuota eq_refl) as [H1 [H2 [H3 [H4 H5]]]]. auto 6.
        -- set (s0 := set_c s (with_quota (c s) (quota (c s) - 1))).
           assert (Hc0 : core (fst (write s0 p)) = core s) by (rewrite core_write; reflexivity).
           destruct (negb (snd (write s0 p))); cbn [fst].
           ++ destruct (Hcanc (fst (write s0 p)) i ph Hc0) as [H1 [H2 [H3 [H4 H5]]]]. auto 6.
           ++ match goal with |- context [set_c ?sw ?x] =>
                destruct (Happ sw (with_awaiting (c sw) (awaiting (c sw) ++ [(a, (i, ph))])) a i ph Hc0 eq_refl (set_c sw x) eq_refl)
                  as [H1 [H2 [H3 [H4 H5]]]] end. auto 6.
      * destruct (ptype_of p =? 6).
        -- assert (Hc0 : core (fst (write s p)) = core s) by apply core_write.
           destruct (negb (snd (write s p))); cbn [fst].
           ++ destruct (Hcanc (fst (write s p)) i ph Hc0) as [H1 [H2 [H3 [H4 H5]]]]. auto 6.
           ++ match goal with |- context [set_c ?sw ?x] =>
                destruct (Happ sw (with_awaiting (c sw) (awaiting (c sw) ++ [(a, (i, ph))])) a i ph Hc0 eq_refl (set_c sw x) eq_refl)
                  as [H1 [H2 [H3 [H4 H5]]]] end. auto 6.
        -- assert (Hc0 : core (fst (write s p)) = core s) by apply core_write.
           destruct (negb (snd (write s p))); cbn [fst].
           ++ destruct (Hcanc (fst (write s p)) i ph Hc0) as [H1 [H2 [H3 [H4 H5]]]]. auto 6.
           ++ match goal with |- context [set_c ?sw ?x] =>
                destruct (Happ sw (with_awaiting (c sw) (awaiting (c sw) ++ [(a, (i, ph))])) a i ph Hc0 eq_refl (set_c sw x) eq_refl)
                  as [H1 [H2 [H3 [H4 H5]]]] end. auto 6.
  - destruct (negb (size_ok (c s) p)); cbn [fst].
    + destruct (Hcomp s i 1 CTooBig eq_refl) as [H1 [H2 [H3 [H4 H5]]]].
      pose proof (core_close (complete s i 1 CTooBig) i) as Hcl. unfold core in Hcl. inversion Hcl as [[C1 C2 C3 C4]].
      rewrite C2, C3, C4. repeat split; auto.
      * intros i' ph' [o Hu]. apply H4. exists o. rewrite <- C1. exact Hu.
      * left. intros [o Hu]. apply H5. exists o. rewrite <- C1. exact Hu.
    + set (x1 := with_subs (with_awaiting (c s) (awaiting (c s) ++ [(a, (i, 1))])) (subs (with_awaiting (c s) (awaiting (c s) ++ [(a, (i, 1))])) ++ [(sid, i)])).
      pose proof (core_write (set_c s x1) p) as Hw.
      destruct (Happ s (with_awaiting (c s) (awaiting (c s) ++ [(a, (i, 1))])) a i 1 eq_refl eq_refl (fst (write (set_c s x1) p)))
        as [H1 [H2 [H3 [H4 H5]]]]; [rewrite Hw; reflexivity|]. auto 6.
Qed.

(* ---- an inbound packet taken by the context ------------------------------------------------------------------------ *)
Lemma in_aremove {A} (x : N * A) k l : In x l -> In x (aremove k l) \/ (fst x = k /\ alookup k l = Some (snd x)).
Proof.
  induction l as [|[k' a'] l IH]; [intros []|]. cbn [aremove alookup In].
  destruct (k' =? k) eqn:E.
  - apply N.eqb_eq in E. subst k'. intros [H|H]; [right; subst x; auto|left; exact H].
  - intros [H|H]; [left; left; exact H|]. destruct (IH H) as [H1|H1]; [left; right; exact H1|right; exact H1].
Qed.

Definition PktSum (s s' : sys) : Prop :=
  ctx_alive s' = ctx_alive s /\ msgq s' = msgq s /\
  (forall i ph, unresolved s' i ph -> unresolved s i ph) /\
  (forall a i ph, In (a, (i, ph)) (awaiting (c s)) -> In (a, (i, ph)) (awaiting (c s')) \/ ~ unresolved s' i (nph ph)).
Lemma PktSum_core s s' : core s' = core s -> PktSum s s'.
Proof.
  unfold core. intros H. inversion H as [[H1 H2 H3 H4]]. unfold PktSum. rewrite H2, H3, H4. repeat split; auto.
  intros i ph [o Hu]. exists o. rewrite <- H1. exact Hu.
Qed.
Lemma ack_waiter_sum s0 s a p : core s0 = core s -> PktSum s (ack_waiter s0 a p).
Proof.
  intros Hc. unfold ack_waiter. destruct (alookup a (awaiting (c s0))) as [[i0 ph0]|] eqn:El; [|apply PktSum_core; exact Hc].
  set (s1 := set_c s0 (with_awaiting (c s0) (aremove a (awaiting (c s0))))).
  destruct (complete_keeps s1 i0 ph0 (CPkt p)) as [[Ha Hk] Hn].
  unfold core in Hc. inversion Hc as [[H1 H2 H3 H4]].
  unfold PktSum. rewrite Ha, complete_msgq, complete_c. cbn [ctx_alive msgq c set_c awaiting with_awaiting s1].
  rewrite H2, H4. repeat split; auto.
  - intros i ph Hu. destruct (Hk i ph Hu) as [[o Hu0] _]. exists o. rewrite <- H1. exact Hu0.
  - intros a' i ph Hin. rewrite <- H3 in Hin. destruct (in_aremove _ a _ Hin) as [H|[Hf Hl]]; [left; exact H|].
    right. cbn [fst snd] in *. rewrite El in Hl. inversion Hl; subst. exact Hn.
Qed.

Lemma handle_packet_sum s p : PktSum s (fst (handle_packet s p)).
Proof.
  unfold handle_packet. cbv zeta. destruct (rk p); cbn [fst];
    try (apply ack_waiter_sum; reflexivity); try (apply PktSum_core; reflexivity).
  - (* publish *)
    apply PktSum_core.
    destruct (r_qos p =? 0); cbn [fst]; rewrite ?core_write;
      repeat match goal with
      | |- context [if ?b then _ else _] => destruct b
      | |- context [match pub_subid p with _ => _ end] => destruct (pub_subid p)
      end; rewrite ?core_dispatch; reflexivity.
  - (* puback *) apply ack_waiter_sum. unfold core, bump_quota. destruct (quota (c s) =? rmax (c s)); reflexivity.
  - (* pubrec *) apply ack_waiter_sum. unfold core, bump_quota.
    destruct (128 <=? r_reason p); [destruct (quota (c s) =? rmax (c s))|]; reflexivity.
  - (* pubrel *) apply PktSum_core. rewrite core_write. reflexivity.
  - (* pubcomp *) apply ack_waiter_sum. unfold core, bump_quota. destruct (quota (c s) =? rmax (c s)); reflexivity.
Qed.

Lemma waiting_nph o ph : waiting_on o ph -> nph ph = ph.
Proof. intros [[_ ->]|[_ ->]]; reflexivity. Qed.

Lemma Own_packet s s' : Own s -> PktSum s s' -> Own s'.
Proof.
  intros Ho [Ha [Hm [Hu Haw]]] i ph Hun. destruct (Ho i ph (Hu i ph Hun)) as [H1 H2]. rewrite Ha. split; [exact H1|].
  destruct H2 as [[m [Hin Hop]]|[a Hin]].
  - left. exists m. rewrite Hm. auto.
  - destruct (Haw a i ph Hin) as [H|H]; [right; exists a; exact H|].
    exfalso. apply H. destruct Hun as [o [Hl [Hw Hc]]]. rewrite (waiting_nph o ph Hw). exists o. auto.
Qed.
Lemma Own_message s m q : Own s -> msgq s = m :: q -> Own (fst (handle_message (set_msgq s q) m)).
Proof.
  intros Ho Hq i ph Hun.
  destruct (handle_message_sum (set_msgq s q) m) as [Ha [Hm [Haw [Hu Hown]]]].
  assert (Hus : unresolved s i ph) by (destruct (Hu i ph Hun) as [o H]; exists o; exact H).
  destruct (Ho i ph Hus) as [H1 H2]. rewrite Ha. split; [exact H1|].
  destruct H2 as [[m' [Hin Hop]]|[a Hin]].
  - rewrite Hq in Hin. destruct Hin as [<-|Hin].
    + destruct Hown as [Hn|[a Hin']].
      * exfalso. apply Hn. rewrite Hop. cbn [fst snd]. destruct Hun as [o [Hl [Hw Hc]]]. rewrite (waiting_nph o ph Hw). exists o. auto.
      * right. exists a. rewrite <- Hop. exact Hin'.
    + left. exists m'. rewrite Hm. cbn [msgq set_msgq]. auto.
  - right. exists a. apply Haw. exact Hin.
Qed.

(* ---- keys of the operation table stay unique ---------------------------------------------------------------------- *)
Definition Uniq (s : sys) : Prop := NoDup (map fst (ops s)).
Lemma aset_keys {A} k (a : A) l : NoDup (map fst l) -> NoDup (map fst (aset k a l)) /\
  (forall x, In x (map fst (aset k a l)) -> x = k \/ In x (map fst l)).
Proof.
  induction l as [|[k' a'] l IH]; cbn [aset map fst].
  - intros _. split; [constructor; [intros []|constructor]|]. intros x [<-|[]]. auto.
  - intros Hn. inversion Hn as [|? ? Hnotin Hnd]; subst. destruct (k' =? k) eqn:E.
    + apply N.eqb_eq in E. subst k'. cbn [map fst]. split; [exact Hn|]. intros x [<-|H]; auto.
Show.
