(* C16 - progress relies only on wakeups; spurious polls have no effect.
   Partial: waker registration inside oneshot, mpsc, select! and compiler-generated futures is
   assumed; the theorems cover the library's own poll logic as modelled. *)
From Poster Require Import Model.Client Proofs.ClientP Proofs.FramingP.

(* polling an operation whose oneshot is still empty changes nothing and reports Pending *)
Theorem C16_spurious_op : forall (s : sys) (i : N) (o : op),
  alookup i (ops s) = Some o ->
  (o_phase o = Wait1 /\ o_ch1 o = CEmpty) \/ (o_phase o = Wait2 /\ o_ch2 o = CEmpty) ->
  poll_op s i = (s, [OPend i]).
Proof. exact spurious_op_poll. Qed.
Print Assumptions C16_spurious_op.

(* polling a stream with nothing buffered and a live sender changes nothing *)
Theorem C16_spurious_stream : forall (s : sys) (j : N) (st : strm),
  alookup j (streams s) = Some st -> st_taken st = true -> st_buf st = [] -> st_sender st = true ->
  poll_stream s j = (s, [ONone j]).
Proof. exact spurious_stream_poll. Qed.
Print Assumptions C16_spurious_stream.

(* the hand-written RxPacketStream::poll_next returns Pending only straight after the transport's
   poll_read returned Pending (which registered the waker): for every state, script and fuel, at a
   Pending the transport has nothing available (every delivered byte was consumed) and has not ended *)
Theorem C16_pending_has_waker : forall (fuel : nat) (x : rx) (rd : reader) (x' : rx) (rd' : reader),
  fpoll fuel x rd = (FPending, x', rd') ->
  segs rd' = [] /\ r_eof rd' = false /\ r_err rd' = false /\ fstate x' = Idle.
Proof. exact fpoll_pending_registered. Qed.
Print Assumptions C16_pending_has_waker.

(* a spurious poll of the packet stream in that situation returns Pending again and leaves the
   framing state exactly as it was: nothing emitted, nothing lost *)
Theorem C16_spurious_ctx : forall (fuel : nat) (x : rx) (rd : reader) (x' : rx) (rd' : reader),
  fpoll fuel x rd = (FPending, x', rd') ->
  forall n : nat, fpoll (S n) x' rd' = (FPending, x', rd').
Proof. exact fpoll_pending_idempotent. Qed.
Print Assumptions C16_spurious_ctx.
