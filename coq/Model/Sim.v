(* Script layer: the events of the case language (DESIGN.md appendix D) executed on the client
   model, and the accessor views (src/client/rsp.rs, src/client/error.rs) of what the library
   hands back.  `run_script` is what the correspondence check compares with the harness. *)
From Coq Require Import String.
From Poster Require Export Model.Client.

(* ---- accessor views --------------------------------------------------------------------------- *)
Inductive fval :=
| FN (n : N) | FON (o : option N) | FOB (o : option bytes) | FBy (b : bytes)
| FUP (l : list (bytes * bytes)).
Definition view := list (string * fval).

Definition pbytes (id : N) (ps : list prop) : option bytes :=
  match plast id ps with Some (VStr b) | Some (VBin b) => Some b | _ => None end.
Definition dflt (d : N) (o : option N) : N := match o with Some v => v | None => d end.

Definition view_connack (p : rxpkt) : view :=
  let ps := r_props p in
  [("sp", FN (b2n (r_sp p))); ("r", FN (r_reason p));
   ("wsa", FN (dflt 1 (pnum 40 ps))); ("sia", FN (dflt 1 (pnum 41 ps)));
   ("ssa", FN (dflt 1 (pnum 42 ps))); ("mq", FN (dflt 2 (pnum 36 ps)));
   ("ra", FN (dflt 1 (pnum 37 ps))); ("ska", FON (pnum 19 ps));
   ("rm", FN (dflt 65535 (pnum 33 ps))); ("tam", FN (dflt 0 (pnum 34 ps)));
   ("sei", FON (pnum 17 ps)); ("mps", FON (pnum 39 ps));
   ("aci", FOB (pbytes 18 ps)); ("rs", FOB (pbytes 31 ps)); ("ri", FOB (pbytes 26 ps));
   ("sr", FOB (pbytes 28 ps)); ("am", FOB (pbytes 21 ps)); ("ad", FOB (pbytes 22 ps));
   ("up", FUP (users ps))]%string.
Definition view_connect_error (p : rxpkt) : view :=
  let ps := r_props p in
  [("r", FN (r_reason p)); ("rs", FOB (pbytes 31 ps)); ("sr", FOB (pbytes 28 ps));
   ("up", FUP (users ps))]%string.
Definition view_auth (p : rxpkt) : view :=
  let ps := r_props p in
  [("r", FN (r_reason p)); ("rs", FOB (pbytes 31 ps)); ("am", FOB (pbytes 21 ps));
   ("ad", FOB (pbytes 22 ps)); ("up", FUP (users ps))]%string.
Definition view_ack (p : rxpkt) : view :=
  let ps := r_props p in
  [("r", FN (r_reason p)); ("rs", FOB (pbytes 31 ps)); ("up", FUP (users ps))]%string.
Definition view_suback (p : rxpkt) : view :=
  let ps := r_props p in
  [("rs", FOB (pbytes 31 ps)); ("up", FUP (users ps)); ("codes", FBy (r_codes p))]%string.
Definition view_disconnected (p : rxpkt) : view :=
  let ps := r_props p in
  [("r", FN (r_reason p)); ("sei", FN 0); ("rs", FOB (pbytes 31 ps));
   ("sr", FOB (pbytes 28 ps)); ("up", FUP (users ps))]%string.
Definition view_publish (p : rxpkt) : view :=
  let ps := r_props p in
  [("dup", FN (b2n (r_dup p))); ("ret", FN (b2n (r_retain p))); ("q", FN (r_qos p));
   ("t", FBy (r_topic p)); ("pfi", FON (pnum 1 ps)); ("ta", FON (pnum 35 ps));
   ("mei", FON (pnum 2 ps)); ("cd", FOB (pbytes 9 ps)); ("rt", FOB (pbytes 8 ps));
   ("ct", FOB (pbytes 3 ps)); ("pl", FBy (r_payload p)); ("up", FUP (users ps))]%string.

(* ---- events ------------------------------------------------------------------------------------- *)
Inductive event :=
| EConnect (o : connect_opts) | EAuth (o : auth_opts) | ERun
| EDeliver (b : bytes) | EEof | ERerr | EWerr (n : N) | ENop
| EStart (i h : N) (k : opkind) | EPoll (i : N) | EDropOp (i : N)
| EToStream (i : N) | EPollStream (j : N) | EDropStream (j : N)
| EClone (h h2 : N) | EDropHandle (h : N) | EDropCtx
| EHold | ERelease | EMarkDisc (t : N) | EReconnect
| ESpin (n base kind : N) (ack : bool).

Definition begin_ev (s : sys) : sys := set_tail (set_wire s (wbudget s) []) [].
Definition end_ev (s : sys) (pre : list obs) : list obs :=
  pre ++ (match wire_ev s with [] => [] | w => [OWire w] end) ++ tail_ev s.

Definition with_sei_ts (x : ctx) (v : N) (t : option N) : ctx :=
  mkctx (awaiting x) (subs x) (retx x) (await_rel x) (quota x) (rmax x) (maxpkt x) v t.

Definition start_conn (s : sys) (pkt : res bytes) (new_sei : option N) : sys :=
  let fin (s : sys) (r : connres) := set_tail (set_cph s CIdle) (tail_ev s ++ [OConn r]) in
  match pkt with
  | Err => fin s ConnErrCodec
  | Panic => fin s ConnPanic
  | Ok b =>
    let s := match new_sei with
             | Some v => set_c s (with_sei_ts (c s) v (disc_ts (c s)))
             | None => s end in
    let ok := snd (write s b) in
    let s := fst (write s b) in
    if ok then settle (set_cph s CConnecting) else fin s ConnErrSocketClosed
  end.

Definition start_run (s : sys) : sys :=
  let s := set_cph s CIdle in
  match disc_ts (c s) with
  | None => settle (set_cph s CRunning)
  | Some t =>
    let s := if session_expired (c s) t then reset_session s else s in
    let s := set_c s (with_sei_ts (c s) (sei (c s)) None) in
    let (s, ok) := retransmit s (retx (c s)) in
    if ok then settle (set_cph s CRunning) else exit_run s RunSocketClosed
  end.

Definition spin_opts (kind : N) : opkind :=
  match kind with
  | 1 => OPub (Build_publish_opts 1 false (Some [97]) None None None None None None None [])
  | 2 => OPub (Build_publish_opts 2 false (Some [97]) None None None None None None None [])
  | 3 => OSub (Build_subscribe_opts [Build_sub_filter [97] 0 false false 0] [])
  | _ => OUnsub (Build_unsubscribe_opts [[97]] [])
  end.
Definition spin_acks (kind pid : N) : list bytes :=
  match kind with
  | 1 => [64 :: 2 :: enc_u16 pid]
  | 2 => [80 :: 2 :: enc_u16 pid; 112 :: 2 :: enc_u16 pid]
  | 3 => [144 :: 4 :: enc_u16 pid ++ [0; 0]]
  | _ => [176 :: 4 :: enc_u16 pid ++ [0; 0]]
  end.
Definition op_phase_of (s : sys) (i : N) : option phase :=
  match alookup i (ops s) with Some o => Some (o_phase o) | None => None end.

(* one operation of a `spin` batch: start, poll, read the identifier off the wire, then (ack)
   feed the acknowledgements a broker would send and poll to completion *)
Definition spin_one (s : sys) (i kind : N) (ack : bool) : sys * list obs :=
  if negb (memN 0 (handles s)) then (s, []) else
  let s := put_op (set_wire s (wbudget s) []) i (mkop (spin_opts kind) NotStarted CEmpty CEmpty 0) in
  let (s, o1) := poll_op s i in
  let s := settle s in
  let written := wire_ev s in
  let pid := match kind, written with
             | 1, _ :: _ :: _ :: _ :: _ :: a :: b :: _ | 2, _ :: _ :: _ :: _ :: _ :: a :: b :: _ =>
               Some (a * 256 + b)
             | 3, _ :: _ :: a :: b :: _ | 4, _ :: _ :: a :: b :: _ => Some (a * 256 + b)
             | _, _ => None
             end in
  let panicked := existsb (fun o => match o with ODone _ RPanic => true | _ => false end) o1 in
  let line := OAlloc i pid panicked in
  match ack, pid with
  | true, Some p =>
    let s := fold_left (fun s pk =>
               let s := settle (set_io s (mkrd (segs (rd s) ++ [pk]) (r_eof (rd s)) (r_err (rd s))) (fr s)) in
               settle (fst (poll_op s i))) (spin_acks kind p) s in
    let done := match op_phase_of s i with Some Finished => true | _ => false end in
    (set_ops s (aremove i (ops s)), line :: (if done then [] else [OIncomplete i]))
  | _, _ => (s, [line])
  end.
Fixpoint spin (fuel : nat) (s : sys) (i kind : N) (ack : bool) : sys * list obs :=
  match fuel with
  | O => (s, [])
  | S fuel =>
    let (s, o1) := spin_one s i kind ack in
    let (s, o2) := spin fuel s (i + 1) kind ack in
    (s, o1 ++ o2)
  end.

Definition step (s : sys) (e : event) : sys * list obs :=
  let s := begin_ev s in
  let fin (s : sys) (pre : list obs) := (s, end_ev s pre) in
  match e with
  | EConnect o =>
    if negb (ctx_alive s) then fin s [] else
    fin (start_conn s (enc_connect o) (Some (match co_sei o with Some v => v | None => 0 end))) []
  | EAuth o =>
    if negb (ctx_alive s) then fin s [] else fin (start_conn s (enc_auth o) None) []
  | ERun => if negb (ctx_alive s) then fin s [] else fin (start_run s) []
  | EDeliver b =>
    match b with
    | [] => fin (settle s) []
    | _ => fin (settle (set_io s (mkrd (segs (rd s) ++ [b]) (r_eof (rd s)) (r_err (rd s))) (fr s))) []
    end
  | EEof => fin (settle (set_io s (mkrd (segs (rd s)) true (r_err (rd s))) (fr s))) []
  | ERerr => fin (settle (set_io s (mkrd (segs (rd s)) (r_eof (rd s)) true) (fr s))) []
  | EWerr n => fin (set_wire s (Some n) (wire_ev s)) []
  | ENop => fin s []
  | EStart i h k =>
    if memN h (handles s) then fin (put_op s i (mkop k NotStarted CEmpty CEmpty 0)) []
    else fin s [OUnknown 3 h]
  | EPoll i => let (s, o) := poll_op s i in fin (settle s) o
  | EDropOp i => fin (settle (drop_op s i)) []
  | EToStream i =>
    match alookup i (streams s), op_phase_of s i with
    | Some st, Some Finished =>
      if st_recv st && negb (st_taken st)
      then fin (set_streams s (aset i (mkst (st_buf st) (st_sender st) true true) (streams s))) []
      else fin s [OUnknown 4 i]
    | _, _ => fin s [OUnknown 4 i]
    end
  | EPollStream j => let (s, o) := poll_stream s j in fin (settle s) o
  | EDropStream j =>
    match op_phase_of s j with
    | Some NotStarted | Some Wait1 | Some Wait2 => fin (settle s) []
    | _ => fin (settle (set_streams (drop_recv s j) (aremove j (streams (drop_recv s j))))) []
    end
  | EClone h h2 =>
    if memN h (handles s) && negb (memN h2 (handles s)) then fin (set_handles s (h2 :: handles s)) []
    else fin s []
  | EDropHandle h => fin (settle (set_handles s (filter (fun x => negb (x =? h)) (handles s)))) []
  | EDropCtx => fin (drop_ctx s) []
  | EHold => fin (set_hold s true) []
  | ERelease => fin (settle (set_hold s false)) []
  | EMarkDisc t =>
    if ctx_alive s then fin (set_c s (with_sei_ts (c s) (sei (c s)) (Some t))) [] else fin s []
  | EReconnect =>
    let s := set_cph s CIdle in
    fin (set_wire (set_io s rd_init rx_init) None (wire_ev s)) []
  | ESpin n base kind ack =>
    let (s, o) := spin (N.to_nat n) s base kind ack in
    (* the batch prints digest lines only *)
    (set_tail (set_wire s (wbudget s) []) [], o)
  end.

Fixpoint run_events (s : sys) (k : N) (evs : list event) : list (N * obs) :=
  match evs with
  | [] => []
  | e :: r => let (s, o) := step s e in map (fun x => (k, x)) o ++ run_events s (k + 1) r
  end.
Definition run_script (evs : list event) : list (N * obs) := run_events sys_init 0 evs.
