#!/bin/bash
# confirm_control.sh <Hn> <variant>   e.g. H4 B  (reads /tmp/mut/H4.out/B, stores controls/H4-B)
# Confirms that a sub-agent's behaviour-preserving rewrite applies to HEAD, builds, and passes the 93 unit tests
# (in the clean scratch worktree /tmp/mut/HEAD), then stores it as /verif/controls/<Hn>-<variant>/ {patch.diff, notes.md, meta.json}.
set -u
H=$1; V=$2; WT=/tmp/mut/HEAD; SRC=/tmp/mut/$H.out/$V; OUT=/verif/controls/$H-$V
export CARGO_NET_OFFLINE=true
[ -s $SRC/patch.diff ] || { echo "$H-$V: no patch"; exit 2; }
cd $WT || exit 2
git checkout -q -- . ; git clean -fdq -e target
git apply $SRC/patch.diff || { echo "$H-$V: patch does not apply"; git checkout -q -- .; exit 2; }
timeout 900 cargo test --offline --lib > /tmp/mut/$H-$V.lib.log 2>&1; lib=$?
npass=$(grep -o "[0-9]* passed" /tmp/mut/$H-$V.lib.log | head -1)
lines=$(git diff --numstat -- src | awk '{a+=$1; d+=$2} END {print a "+/" d "-"}')
git checkout -q -- . ; git clean -fdq -e target
echo "$H-$V: lib tests with patch exit=$lib ($npass), $lines"
if [ $lib -eq 0 ]; then
  mkdir -p $OUT; cp $SRC/patch.diff $OUT/; cp $SRC/notes.md $OUT/notes.md 2>/dev/null
  python3 - "$H" "$V" "$OUT" "$npass" "$lines" <<'PY'
import json,sys
h,v,out,npass,lines=sys.argv[1:6]
json.dump({"control":h+"-"+v,"kind":"behaviour-preserving rewrite (negative control): every check must stay silent",
 "source":"independent sub-agent given the 17 property texts and a scratch worktree, nothing from /verif",
 "confirmed":{"applies_to_head":True,"existing_lib_tests_with_patch":npass,"changed_lines":lines,
              "how":"tools/confirm_control.sh %s %s in the scratch worktree /tmp/mut/HEAD"%(h,v)},
 "detected_by":None}, open(out+'/meta.json','w'), indent=1)
PY
  echo "$H-$V: CONFIRMED -> $OUT"
else
  echo "$H-$V: NOT confirmed"
fi
