// Correspondence harness: drives the real `poster` library through its public API with a scripted
// mock transport and a waker-strict manual executor, printing one line per observable.
// See /verif/DESIGN.md section 4 and appendix D for the script language and output format.

use either::Either;
use futures::{AsyncRead, AsyncWrite, Stream};
use poster::{
    error::MqttError, reason::*, AuthOpts, AuthRsp, ConnectOpts, ConnectRsp, Context,
    ContextHandle, DisconnectOpts, PublishData, PublishOpts, QoS, RetainHandling, SubscribeOpts,
    SubscribeRsp, SubscriptionOpts, UnsubscribeOpts, UnsubscribeRsp, UserProperties,
};
use std::{
    cell::RefCell,
    collections::{BTreeMap, VecDeque},
    future::Future,
    io::{self, BufRead, Write as _},
    panic::{catch_unwind, AssertUnwindSafe},
    pin::Pin,
    rc::Rc,
    sync::{
        atomic::{AtomicBool, Ordering},
        Arc,
    },
    task::{Context as TaskCx, Poll, Wake, Waker},
    time::Duration,
};

// ---------------------------------------------------------------------------------------------
// wakers

struct Flag(AtomicBool);
impl Wake for Flag {
    fn wake(self: Arc<Self>) {
        self.0.store(true, Ordering::SeqCst)
    }
    fn wake_by_ref(self: &Arc<Self>) {
        self.0.store(true, Ordering::SeqCst)
    }
}
fn new_flag() -> Arc<Flag> {
    Arc::new(Flag(AtomicBool::new(false)))
}
fn take(flag: &Arc<Flag>) -> bool {
    flag.0.swap(false, Ordering::SeqCst)
}
fn is_set(flag: &Arc<Flag>) -> bool {
    flag.0.load(Ordering::SeqCst)
}

// ---------------------------------------------------------------------------------------------
// mock transport

#[derive(Default)]
struct ReadState {
    segs: VecDeque<Vec<u8>>,
    eof: bool,
    err: bool,
    intr: bool,
    waker: Option<Waker>,
    reads: usize,
}
#[derive(Clone, Default)]
struct MockRead(Rc<RefCell<ReadState>>);

impl AsyncRead for MockRead {
    fn poll_read(
        self: Pin<&mut Self>,
        cx: &mut TaskCx<'_>,
        buf: &mut [u8],
    ) -> Poll<io::Result<usize>> {
        let mut s = self.0.borrow_mut();
        s.reads += 1;
        if let Some(seg) = s.segs.pop_front() {
            let n = buf.len().min(seg.len());
            buf[..n].copy_from_slice(&seg[..n]);
            if n < seg.len() {
                s.segs.push_front(seg[n..].to_vec());
            }
            return Poll::Ready(Ok(n));
        }
        if s.intr {
            s.intr = false;
            s.err = true; // (to the client any read error is the end of the stream; what follows is never asked for)
            return Poll::Ready(Err(io::Error::new(io::ErrorKind::Interrupted, "scripted interrupted read")));
        }
        if s.err {
            return Poll::Ready(Err(io::Error::new(io::ErrorKind::Other, "scripted read error")));
        }
        if s.eof {
            return Poll::Ready(Ok(0));
        }
        s.waker = Some(cx.waker().clone());
        Poll::Pending
    }
}

#[derive(Default)]
struct WriteState {
    out: Vec<u8>,
    chunks: Vec<usize>, // empty = accept everything; else cyclic accepted sizes
    chunk_idx: usize,
    pend_every: usize, // 0 = never; k = every k-th call returns Pending (self-waking)
    calls: usize,
    budget: Option<usize>, // bytes still accepted before a scripted write error
    zero_writes: bool,     // the scripted write fault is Ok(0) instead of an error
    zero_calls: usize,
    block_after: Option<usize>, // bytes still accepted before the writer blocks (Pending, waker kept) until `wunblock`
    intr_after: Option<usize>,  // bytes still accepted before ONE poll_write fails with ErrorKind::Interrupted
    close_fault: u8,            // 0 = poll_close succeeds; 1 = it fails; 2 = it stays Pending (self-waking never)
    close_calls: usize,
    wwaker: Option<std::task::Waker>,
}
#[derive(Clone, Default)]
struct MockWrite(Rc<RefCell<WriteState>>);

impl AsyncWrite for MockWrite {
    fn poll_write(self: Pin<&mut Self>, cx: &mut TaskCx<'_>, buf: &[u8]) -> Poll<io::Result<usize>> {
        let mut s = self.0.borrow_mut();
        s.calls += 1;
        if s.pend_every != 0 && s.calls % s.pend_every == 0 {
            cx.waker().wake_by_ref();
            return Poll::Pending;
        }
        if s.budget == Some(0) {
            if s.zero_writes {
                // a write half that stops taking bytes: Ok(0) for a non-empty buffer
                s.zero_calls += 1;
                if s.zero_calls > 1_000_000 {
                    panic!("the writer reported Ok(0) a million times within one case: the client spins on it");
                }
                return Poll::Ready(Ok(0));
            }
            return Poll::Ready(Err(io::Error::new(io::ErrorKind::Other, "scripted write error")));
        }
        if s.block_after == Some(0) {
            s.wwaker = Some(cx.waker().clone());
            return Poll::Pending;
        }
        if s.intr_after == Some(0) {
            s.intr_after = None;
            return Poll::Ready(Err(io::Error::new(io::ErrorKind::Interrupted, "scripted interrupted write")));
        }
        let mut n = buf.len();
        if let Some(b) = s.intr_after {
            n = n.min(b);
            s.intr_after = Some(b - n);
        }
        if let Some(b) = s.block_after {
            n = n.min(b);
            s.block_after = Some(b - n);
        }
        if !s.chunks.is_empty() {
            let k = s.chunks[s.chunk_idx % s.chunks.len()].max(1);
            s.chunk_idx += 1;
            n = n.min(k);
        }
        if let Some(b) = s.budget {
            n = n.min(b);
            s.budget = Some(b - n);
        }
        s.out.extend_from_slice(&buf[..n]);
        Poll::Ready(Ok(n))
    }
    fn poll_flush(self: Pin<&mut Self>, _cx: &mut TaskCx<'_>) -> Poll<io::Result<()>> {
        Poll::Ready(Ok(()))
    }
    fn poll_close(self: Pin<&mut Self>, _cx: &mut TaskCx<'_>) -> Poll<io::Result<()>> {
        let mut s = self.0.borrow_mut();
        s.close_calls += 1;
        match s.close_fault {
            1 => Poll::Ready(Err(io::Error::new(io::ErrorKind::BrokenPipe, "scripted close error"))),
            2 => Poll::Pending,
            _ => Poll::Ready(Ok(())),
        }
    }
}

type Ctx = Context<MockRead, MockWrite>;

// ---------------------------------------------------------------------------------------------
// canonical printing

fn hex(b: &[u8]) -> String {
    if b.is_empty() {
        return "-".to_string();
    }
    let mut s = String::with_capacity(b.len() * 2);
    for x in b {
        s.push_str(&format!("{:02x}", x));
    }
    s
}
fn fnv(b: &[u8]) -> u32 {
    let mut h: u32 = 0x811c9dc5;
    for x in b {
        h ^= *x as u32;
        h = h.wrapping_mul(0x01000193);
    }
    h
}
fn big(b: &[u8]) -> String {
    if b.len() > 96 {
        format!("L{}:{:08x}", b.len(), fnv(b))
    } else {
        hex(b)
    }
}
fn ostr(o: Option<&str>) -> String {
    match o {
        None => "~".into(),
        Some(s) => format!("={}", big(s.as_bytes())),
    }
}
fn obin(o: Option<&[u8]>) -> String {
    match o {
        None => "~".into(),
        Some(s) => format!("={}", big(s)),
    }
}
fn onum<T: std::fmt::Display>(o: Option<T>) -> String {
    match o {
        None => "~".into(),
        Some(s) => format!("={}", s),
    }
}
fn ups(u: &UserProperties) -> String {
    let pairs: Vec<(&str, &str)> = u.iter().collect();
    let v: Vec<String> = pairs
        .iter()
        .map(|(k, v)| format!("{}:{}", big(k.as_bytes()), big(v.as_bytes())))
        .collect();
    // every other accessor of the collection must agree with the list of pairs, in order
    let mut bad: Vec<String> = Vec::new();
    if u.len() != pairs.len() {
        bad.push(format!("len={}", u.len()));
    }
    if u.is_empty() != pairs.is_empty() {
        bad.push("is_empty".into());
    }
    if u.keys().collect::<Vec<_>>() != pairs.iter().map(|p| p.0).collect::<Vec<_>>() {
        bad.push("keys".into());
    }
    if u.values().collect::<Vec<_>>() != pairs.iter().map(|p| p.1).collect::<Vec<_>>() {
        bad.push("values".into());
    }
    for (k, _) in pairs.iter() {
        let want: Vec<&str> = pairs.iter().filter(|p| p.0 == *k).map(|p| p.1).collect();
        let got: Vec<&str> = u.get(k).collect();
        if got != want {
            bad.push(format!("get({})={}of{}", big(k.as_bytes()), got.len(), want.len()));
        }
        if !u.contains_key(k) {
            bad.push(format!("contains_key({})", big(k.as_bytes())));
        }
    }
    if u.contains_key("\u{1}never-a-key") || u.get("\u{1}never-a-key").next().is_some() {
        bad.push("absent-key".into());
    }
    let mut out = if v.is_empty() { "-".to_string() } else { v.join(",") };
    if !bad.is_empty() {
        bad.dedup();
        out.push_str(&format!("!ACCESSORS[{}]", bad.join(";")));
    }
    out
}
fn b(x: bool) -> u8 {
    x as u8
}
fn connect_rsp(r: &ConnectRsp) -> String {
    format!(
        "ok sp={} r={} wsa={} sia={} ssa={} mq={} ra={} ska={} rm={} tam={} sei={} mps={} aci={} rs={} ri={} sr={} am={} ad={} up={}",
        b(r.session_present()),
        r.reason() as u8,
        b(r.wildcard_subscription_available()),
        b(r.subscription_identifier_available()),
        b(r.shared_subscription_available()),
        r.maximum_qos() as u8,
        b(r.retain_available()),
        onum(r.server_keep_alive().map(|d| d.as_secs())),
        r.receive_maximum(),
        r.topic_alias_maximum(),
        onum(r.session_expiry_interval().map(|d| d.as_secs())),
        onum(r.maximum_packet_size()),
        ostr(r.assigned_client_identifier()),
        ostr(r.reason_string()),
        ostr(r.response_information()),
        ostr(r.server_reference()),
        ostr(r.authentication_method()),
        obin(r.authentication_data()),
        ups(r.user_properties())
    )
}
fn auth_rsp(r: &AuthRsp) -> String {
    format!(
        "auth r={} rs={} am={} ad={} up={}",
        r.reason() as u8,
        ostr(r.reason_string()),
        ostr(r.authentication_method()),
        obin(r.authentication_data()),
        ups(r.user_properties())
    )
}
fn mqtt_err(e: &MqttError) -> String {
    match e {
        MqttError::InternalError(_) => "err Internal".into(),
        MqttError::ConnectError(e) => format!(
            "err Connect r={} rs={} sr={} up={}",
            e.reason() as u8,
            ostr(e.reason_string()),
            ostr(e.server_reference()),
            ups(e.user_properties())
        ),
        MqttError::AuthError(e) => format!(
            "err Auth r={} rs={} up={}",
            e.reason() as u8,
            ostr(e.reason_string()),
            ups(e.user_properties())
        ),
        MqttError::PubackError(e) => format!(
            "err Puback r={} rs={} up={}",
            e.reason() as u8,
            ostr(e.reason_string()),
            ups(e.user_properties())
        ),
        MqttError::PubrecError(e) => format!(
            "err Pubrec r={} rs={} up={}",
            e.reason() as u8,
            ostr(e.reason_string()),
            ups(e.user_properties())
        ),
        MqttError::PubcompError(e) => format!(
            "err Pubcomp r={} rs={} up={}",
            e.reason() as u8,
            ostr(e.reason_string()),
            ups(e.user_properties())
        ),
        MqttError::SocketClosed(_) => "err SocketClosed".into(),
        MqttError::HandleClosed(_) => "err HandleClosed".into(),
        MqttError::ContextExited(_) => "err ContextExited".into(),
        MqttError::Disconnected(e) => format!(
            "err Disconnected r={} sei={} rs={} sr={} up={}",
            e.reason() as u8,
            e.session_expiry_interval().as_secs(),
            ostr(e.reason_string()),
            ostr(e.server_reference()),
            ups(e.user_properties())
        ),
        MqttError::CodecError(_) => "err Codec".into(),
        MqttError::QuotaExceeded(_) => "err QuotaExceeded".into(),
        MqttError::MaximumPacketSizeExceeded(_) => "err MaximumPacketSizeExceeded".into(),
    }
}
fn publish_data(p: &PublishData) -> String {
    format!(
        "dup={} ret={} q={} t={} pfi={} ta={} mei={} cd={} rt={} ct={} pl={} up={}",
        b(p.dup()),
        b(p.retain()),
        p.qos() as u8,
        big(p.topic_name().as_bytes()),
        onum(p.payload_format_indicator().map(b)),
        onum(p.topic_alias()),
        onum(p.message_expiry_interval().map(|d| d.as_secs())),
        obin(p.correlation_data()),
        ostr(p.response_topic()),
        ostr(p.content_type()),
        big(p.payload()),
        ups(p.user_properties())
    )
}

// ---------------------------------------------------------------------------------------------
// values of the case language

fn unhex(s: &str) -> Vec<u8> {
    // value := part ('+' part)* ; part := '-' | hex | 'r' count 'x' hexbyte
    let mut out = Vec::new();
    for part in s.split('+') {
        if part == "-" || part.is_empty() {
            continue;
        }
        if let Some(rest) = part.strip_prefix('r') {
            let (cnt, byte) = rest.split_once('x').expect("rNxBB");
            let cnt: usize = cnt.parse().expect("count");
            let byte = u8::from_str_radix(byte, 16).expect("byte");
            out.extend(std::iter::repeat(byte).take(cnt));
        } else {
            assert!(part.len() % 2 == 0, "odd hex {}", part);
            for i in (0..part.len()).step_by(2) {
                out.push(u8::from_str_radix(&part[i..i + 2], 16).expect("hex"));
            }
        }
    }
    out
}

struct Arena {
    strs: Vec<Box<str>>,
    bins: Vec<Box<[u8]>>,
}
impl Arena {
    // The references handed out are only used by option builders / futures that are dropped
    // before the arena (the World drops tasks first).
    fn s(&mut self, v: &str) -> &'static str {
        let st = String::from_utf8(unhex(v)).expect("generator must produce valid UTF-8");
        self.strs.push(st.into_boxed_str());
        let r: &str = self.strs.last().unwrap();
        unsafe { std::mem::transmute::<&str, &'static str>(r) }
    }
    fn b(&mut self, v: &str) -> &'static [u8] {
        self.bins.push(unhex(v).into_boxed_slice());
        let r: &[u8] = self.bins.last().unwrap();
        unsafe { std::mem::transmute::<&[u8], &'static [u8]>(r) }
    }
}

fn kvs<'a>(toks: &'a [&'a str]) -> Vec<(&'a str, &'a str)> {
    toks.iter()
        .map(|t| t.split_once('=').unwrap_or_else(|| panic!("k=v expected: {}", t)))
        .collect()
}
fn num<T: std::str::FromStr>(v: &str) -> T
where
    T::Err: std::fmt::Debug,
{
    v.parse().expect("number")
}
fn qos(v: &str) -> QoS {
    match v {
        "0" => QoS::AtMostOnce,
        "1" => QoS::AtLeastOnce,
        _ => QoS::ExactlyOnce,
    }
}
fn pair(ar: &mut Arena, v: &str) -> (&'static str, &'static str) {
    let (k, val) = v.split_once(':').expect("k:v");
    (ar.s(k), ar.s(val))
}

fn connect_opts(ar: &mut Arena, toks: &[&str]) -> ConnectOpts<'static> {
    let mut o = ConnectOpts::new();
    for (k, v) in kvs(toks) {
        o = match k {
            "cid" => o.client_identifier(ar.s(v)),
            "ka" => o.keep_alive(Duration::from_secs(num(v))),
            "sei" => o.session_expiry_interval(Duration::from_secs(num(v))),
            "rm" => o.receive_maximum(num(v)),
            "mps" => o.maximum_packet_size(num(v)),
            "tam" => o.topic_alias_maximum(num(v)),
            "rri" => o.request_response_information(v == "1"),
            "rpi" => o.request_problem_information(v == "1"),
            "am" => o.authentication_method(ar.s(v)),
            "ad" => o.authentication_data(ar.b(v)),
            "up" => o.user_property(pair(ar, v)),
            "wq" => o.will_qos(qos(v)),
            "wr" => o.will_retain(v == "1"),
            "cs" => o.clean_start(v == "1"),
            "wdi" => o.will_delay_interval(Duration::from_secs(num(v))),
            "wpfi" => o.will_payload_format_indicator(v == "1"),
            "wmei" => o.will_message_expiry_interval(Duration::from_secs(num(v))),
            "wct" => o.will_content_type(ar.s(v)),
            "wrt" => o.will_response_topic(ar.s(v)),
            "wcd" => o.will_correlation_data(ar.b(v)),
            "wup" => o.will_user_property(pair(ar, v)),
            "wt" => o.will_topic(ar.s(v)),
            "wp" => o.will_payload(ar.b(v)),
            "un" => o.username(ar.s(v)),
            "pw" => o.password(ar.b(v)),
            _ => panic!("connect key {}", k),
        };
    }
    o
}
fn auth_opts(ar: &mut Arena, toks: &[&str]) -> AuthOpts<'static> {
    let mut o = AuthOpts::new();
    for (k, v) in kvs(toks) {
        o = match k {
            "r" => o.reason(AuthReason::try_from(num::<u8>(v)).expect("auth reason")),
            "am" => o.authentication_method(ar.s(v)),
            "ad" => o.authentication_data(ar.b(v)),
            "up" => o.user_property(pair(ar, v)),
            _ => panic!("auth key {}", k),
        };
    }
    o
}
fn disconnect_opts(ar: &mut Arena, toks: &[&str]) -> DisconnectOpts<'static> {
    let mut o = DisconnectOpts::new();
    for (k, v) in kvs(toks) {
        o = match k {
            "r" => o.reason(DisconnectReason::try_from(num::<u8>(v)).expect("disconnect reason")),
            "sei" => o.session_expiry_interval(Duration::from_secs(num(v))),
            "rs" => o.reason_string(ar.s(v)),
            "up" => o.user_property(pair(ar, v)),
            _ => panic!("disconnect key {}", k),
        };
    }
    o
}
fn publish_opts(ar: &mut Arena, toks: &[&str]) -> PublishOpts<'static> {
    let mut o = PublishOpts::new();
    for (k, v) in kvs(toks) {
        o = match k {
            "q" => o.qos(qos(v)),
            "ret" => o.retain(v == "1"),
            "t" => o.topic_name(ar.s(v)),
            "pl" => o.payload(ar.b(v)),
            "pfi" => o.payload_format_indicator(v == "1"),
            "ta" => o.topic_alias(num(v)),
            "mei" => o.message_expiry_interval(Duration::from_secs(num(v))),
            "cd" => o.correlation_data(ar.b(v)),
            "rt" => o.response_topic(ar.s(v)),
            "ct" => o.content_type(ar.s(v)),
            "up" => o.user_property(pair(ar, v)),
            _ => panic!("publish key {}", k),
        };
    }
    o
}
fn subscribe_opts(ar: &mut Arena, toks: &[&str]) -> SubscribeOpts<'static> {
    let mut o = SubscribeOpts::new();
    for (k, v) in kvs(toks) {
        o = match k {
            "f" => {
                // f=<topic>:<q><nl><rap><rh>  (four digits)
                let (t, fl) = v.split_once(':').expect("f=topic:flags");
                let fl = fl.as_bytes();
                let so = SubscriptionOpts::new()
                    .maximum_qos(qos(&(fl[0] as char).to_string()))
                    .no_local(fl[1] == b'1')
                    .retain_as_published(fl[2] == b'1')
                    .retain_handling(match fl[3] {
                        b'0' => RetainHandling::SendOnSubscribe,
                        b'1' => RetainHandling::SendIfNoSubscription,
                        _ => RetainHandling::NoSendOnSubscribe,
                    });
                o.subscription(ar.s(t), so)
            }
            "up" => o.user_property(pair(ar, v)),
            _ => panic!("subscribe key {}", k),
        };
    }
    o
}
fn unsubscribe_opts(ar: &mut Arena, toks: &[&str]) -> UnsubscribeOpts<'static> {
    let mut o = UnsubscribeOpts::new();
    for (k, v) in kvs(toks) {
        o = match k {
            "f" => o.topic_filter(ar.s(v)),
            "up" => o.user_property(pair(ar, v)),
            _ => panic!("unsubscribe key {}", k),
        };
    }
    o
}

// ---------------------------------------------------------------------------------------------
// tasks

enum OpOut {
    Unit(Result<(), MqttError>),
    Sub(Result<SubscribeRsp, MqttError>),
    Unsub(Result<UnsubscribeRsp, MqttError>),
}
type OpFut = Pin<Box<dyn Future<Output = OpOut>>>;
/// a future of the library together with the handle clone it borrows: the future is dropped first, then the handle
struct HeldFut {
    fut: Option<OpFut>,
    hd: *mut ContextHandle,
    owned: bool, // false: `hd` points at the handle stored in World.handles (startown), which outlives the future
}
impl Future for HeldFut {
    type Output = OpOut;
    fn poll(mut self: Pin<&mut Self>, cx: &mut TaskCx<'_>) -> Poll<OpOut> {
        self.fut.as_mut().expect("polled after drop").as_mut().poll(cx)
    }
}
impl Drop for HeldFut {
    fn drop(&mut self) {
        self.fut = None;
        if self.owned {
            unsafe { drop(Box::from_raw(self.hd)) };
        }
    }
}
struct OpTask {
    fut: Option<OpFut>,
    flag: Arc<Flag>,
    polled: bool,
    sub: Option<SubscribeRsp>,
}
struct StreamTask {
    st: Pin<Box<dyn Stream<Item = PublishData>>>,
    flag: Arc<Flag>,
    polled: bool,
}
type ConnOut = Result<Either<ConnectRsp, AuthRsp>, MqttError>;
enum CtxFut {
    None,
    Conn(Pin<Box<dyn Future<Output = ConnOut>>>),
    Run(Pin<Box<dyn Future<Output = Result<(), MqttError>>>>),
}

struct World {
    // declaration order = drop order: tasks before the context, the arena last
    ctx_fut: CtxFut,
    ops: BTreeMap<usize, OpTask>,
    streams: BTreeMap<usize, StreamTask>,
    handles: BTreeMap<usize, Box<ContextHandle>>, // boxed: `startown` borrows a handle in place
    ctx: Option<Box<Ctx>>,
    rd: MockRead,
    wr: MockWrite,
    ctx_flag: Arc<Flag>,
    ctx_polled: bool,
    hold: bool,
    wmark: usize,
    ev: usize,
    out: Vec<String>,
    tail: Vec<String>,
    stalled: bool,
    arena: Arena,
}

enum Polled<T> {
    Pending,
    Ready(T),
    Panicked,
}

fn poll_fut<T>(fut: &mut Pin<Box<dyn Future<Output = T>>>, flag: &Arc<Flag>) -> Polled<T> {
    let waker = Waker::from(flag.clone());
    let mut cx = TaskCx::from_waker(&waker);
    match catch_unwind(AssertUnwindSafe(|| fut.as_mut().poll(&mut cx))) {
        Ok(Poll::Pending) => Polled::Pending,
        Ok(Poll::Ready(v)) => Polled::Ready(v),
        Err(_) => Polled::Panicked,
    }
}

impl World {
    fn new() -> Self {
        let (mut ctx, handle) = Ctx::new();
        let rd = MockRead::default();
        let wr = MockWrite::default();
        ctx.set_up((rd.clone(), wr.clone()));
        let mut handles = BTreeMap::new();
        handles.insert(0, Box::new(handle));
        World {
            ctx_fut: CtxFut::None,
            ops: BTreeMap::new(),
            streams: BTreeMap::new(),
            handles,
            ctx: Some(Box::new(ctx)),
            rd,
            wr,
            ctx_flag: new_flag(),
            ctx_polled: false,
            hold: false,
            wmark: 0,
            ev: 0,
            out: Vec::new(),
            tail: Vec::new(),
            stalled: false,
            arena: Arena { strs: Vec::new(), bins: Vec::new() },
        }
    }

    fn emit(&mut self, s: String) {
        self.out.push(format!("{} {}", self.ev, s));
    }

    fn flush_wire(&mut self) {
        let (s, len) = {
            let w = self.wr.0.borrow();
            let fresh = &w.out[self.wmark..];
            if fresh.len() > (64 << 20) {
                // packets near the protocol's maximum (256 MiB): length, digest and head instead of half a gigabyte of hex
                (format!("L{}:{:08x}:{}", fresh.len(), fnv(fresh), hex(&fresh[..16])), w.out.len())
            } else {
                (hex(fresh), w.out.len())
            }
        };
        if len > self.wmark {
            self.wmark = len;
            self.emit(format!("W {}", s));
        }
    }

    fn ctx_mut(&mut self) -> Option<&'static mut Ctx> {
        // The futures created from this reference are stored in `ctx_fut` and always dropped
        // before the box (see `drop_ctx` and the field order of World).
        self.ctx
            .as_mut()
            .map(|bx| unsafe { &mut *(bx.as_mut() as *mut Ctx) })
    }

    // poll the context task once; returns true when something observable happened
    fn poll_ctx_once(&mut self) -> bool {
        take(&self.ctx_flag);
        self.ctx_polled = true;
        let flag = self.ctx_flag.clone();
        let before = self.wr.0.borrow().out.len();
        let mut progressed = false;
        let mut fut = std::mem::replace(&mut self.ctx_fut, CtxFut::None);
        match &mut fut {
            CtxFut::None => {}
            CtxFut::Conn(f) => match poll_fut(f, &flag) {
                Polled::Pending => {}
                Polled::Ready(r) => {
                    let line = match &r {
                        Ok(Either::Left(c)) => connect_rsp(c),
                        Ok(Either::Right(a)) => auth_rsp(a),
                        Err(e) => mqtt_err(e),
                    };
                    self.tail.push(format!("{} C {}", self.ev, line));
                    fut = CtxFut::None;
                    progressed = true;
                }
                Polled::Panicked => {
                    self.tail.push(format!("{} X ctx", self.ev));
                    fut = CtxFut::None;
                    progressed = true;
                }
            },
            CtxFut::Run(f) => match poll_fut(f, &flag) {
                Polled::Pending => {}
                Polled::Ready(r) => {
                    let line = match &r {
                        Ok(()) => "ok".to_string(),
                        Err(e) => mqtt_err(e),
                    };
                    self.tail.push(format!("{} R {}", self.ev, line));
                    fut = CtxFut::None;
                    progressed = true;
                }
                Polled::Panicked => {
                    self.tail.push(format!("{} X ctx", self.ev));
                    fut = CtxFut::None;
                    progressed = true;
                }
            },
        }
        self.ctx_fut = fut;
        if self.wr.0.borrow().out.len() != before {
            progressed = true;
        }
        progressed
    }

    fn ctx_active(&self) -> bool {
        !matches!(self.ctx_fut, CtxFut::None)
    }

    fn settle(&mut self) {
        if self.hold {
            return;
        }
        let mut n = 0;
        while self.ctx_active() && (is_set(&self.ctx_flag) || !self.ctx_polled) {
            self.poll_ctx_once();
            n += 1;
            if n > 20_000_000 {
                self.stalled = true;
                break;
            }
        }
        // stall: context task pending, not woken, yet the transport has something for it
        // (not while the write half has blocked the task in the middle of a packet: it cannot read before that write is done)
        let write_blocked = {
            let w = self.wr.0.borrow();
            w.block_after == Some(0) && w.wwaker.is_some()
        };
        if self.ctx_active() && self.ctx_polled && !is_set(&self.ctx_flag) && !write_blocked {
            let r = self.rd.0.borrow();
            if !r.segs.is_empty() || r.eof || r.err {
                drop(r);
                self.stalled = true;
            }
        }
    }

    fn wake_reader(&mut self) {
        let w = self.rd.0.borrow_mut().waker.take();
        if let Some(w) = w {
            w.wake();
        }
    }

    fn poll_op(&mut self, i: usize, force: bool) {
        let Some(task) = self.ops.get_mut(&i) else {
            self.emit(format!("? op {}", i));
            return;
        };
        if task.fut.is_none() {
            self.emit(format!("? op {}", i));
            return;
        }
        if !(force || !task.polled || is_set(&task.flag)) {
            self.emit(format!("P {}", i));
            return;
        }
        take(&task.flag);
        task.polled = true;
        let flag = task.flag.clone();
        let r = poll_fut(task.fut.as_mut().unwrap(), &flag);
        match r {
            Polled::Pending => self.emit(format!("P {}", i)),
            Polled::Panicked => {
                self.ops.get_mut(&i).unwrap().fut = None;
                self.emit(format!("X op {}", i));
            }
            Polled::Ready(out) => {
                let task = self.ops.get_mut(&i).unwrap();
                task.fut = None;
                let line = match out {
                    OpOut::Unit(Ok(())) => "ok".to_string(),
                    OpOut::Unit(Err(e)) | OpOut::Sub(Err(e)) | OpOut::Unsub(Err(e)) => mqtt_err(&e),
                    OpOut::Sub(Ok(rsp)) => {
                        let codes: Vec<u8> = rsp.payload().iter().map(|c| *c as u8).collect();
                        let l = format!(
                            "ok sub rs={} up={} codes={}",
                            ostr(rsp.reason_string()),
                            ups(rsp.user_properties()),
                            hex(&codes)
                        );
                        task.sub = Some(rsp);
                        l
                    }
                    OpOut::Unsub(Ok(rsp)) => {
                        let codes: Vec<u8> = rsp.payload().iter().map(|c| *c as u8).collect();
                        format!(
                            "ok unsub rs={} up={} codes={}",
                            ostr(rsp.reason_string()),
                            ups(rsp.user_properties()),
                            hex(&codes)
                        )
                    }
                };
                self.emit(format!("D {} {}", i, line));
            }
        }
    }

    fn poll_stream(&mut self, j: usize, force: bool) {
        let Some(task) = self.streams.get_mut(&j) else {
            self.emit(format!("? stream {}", j));
            return;
        };
        if !(force || !task.polled || is_set(&task.flag)) {
            self.emit(format!("N {}", j));
            return;
        }
        take(&task.flag);
        task.polled = true;
        let waker = Waker::from(task.flag.clone());
        let mut cx = TaskCx::from_waker(&waker);
        let r = catch_unwind(AssertUnwindSafe(|| task.st.as_mut().poll_next(&mut cx)));
        match r {
            Ok(Poll::Pending) => self.emit(format!("N {}", j)),
            Ok(Poll::Ready(Some(p))) => {
                // a stream with an item stays runnable (more may be buffered)
                task.flag.0.store(true, Ordering::SeqCst);
                let l = publish_data(&p);
                self.emit(format!("I {} {}", j, l))
            }
            Ok(Poll::Ready(None)) => {
                self.streams.remove(&j);
                self.emit(format!("E {}", j))
            }
            Err(_) => {
                self.streams.remove(&j);
                self.emit(format!("X stream {}", j))
            }
        }
    }

    // poll every live task whose wake flag is NOT set; any progress is a lost wakeup
    fn sweep(&mut self) {
        if self.ctx_active() && self.ctx_polled && !is_set(&self.ctx_flag) {
            let mark = self.out.len();
            if self.poll_ctx_once() {
                self.out.insert(mark, format!("{} L ctx", self.ev));
            }
            // a sweep poll may legitimately leave the flag set (self-waking writer): settle
            self.settle();
        }
        let ids: Vec<usize> = self.ops.keys().copied().collect();
        for i in ids {
            let t = &self.ops[&i];
            if t.fut.is_some() && t.polled && !is_set(&t.flag) {
                let mark = self.out.len();
                self.poll_op(i, true);
                let last = self.out.pop().unwrap();
                if last != format!("{} P {}", self.ev, i) {
                    self.out.insert(mark, format!("{} L op {}", self.ev, i));
                    self.out.push(last);
                }
            }
        }
        let ids: Vec<usize> = self.streams.keys().copied().collect();
        for j in ids {
            let t = &self.streams[&j];
            if t.polled && !is_set(&t.flag) {
                let mark = self.out.len();
                self.poll_stream(j, true);
                let last = self.out.pop().unwrap();
                if last != format!("{} N {}", self.ev, j) {
                    self.out.insert(mark, format!("{} L stream {}", self.ev, j));
                    self.out.push(last);
                }
            }
        }
        self.settle();
    }

    fn drop_ctx(&mut self) {
        self.ctx_fut = CtxFut::None;
        self.ctx = None;
    }

    fn event(&mut self, toks: &[&str]) {
        let cmd = toks[0];
        let args = &toks[1..];
        match cmd {
            "connect" => {
                let o = connect_opts(&mut self.arena, args);
                if let Some(c) = self.ctx_mut() {
                    self.ctx_fut = CtxFut::Conn(Box::pin(c.connect(o)));
                    self.ctx_polled = false;
                    take(&self.ctx_flag);
                }
                self.settle();
            }
            "auth" => {
                let o = auth_opts(&mut self.arena, args);
                if let Some(c) = self.ctx_mut() {
                    self.ctx_fut = CtxFut::Conn(Box::pin(c.authorize(o)));
                    self.ctx_polled = false;
                    take(&self.ctx_flag);
                }
                self.settle();
            }
            "run" => {
                if let Some(c) = self.ctx_mut() {
                    self.ctx_fut = CtxFut::Run(Box::pin(c.run()));
                    self.ctx_polled = false;
                    take(&self.ctx_flag);
                }
                self.settle();
            }
            "deliver" => {
                let bytes = unhex(args[0]);
                if !bytes.is_empty() {
                    self.rd.0.borrow_mut().segs.push_back(bytes);
                    self.wake_reader();
                }
                self.settle();
            }
            "eof" => {
                self.rd.0.borrow_mut().eof = true;
                self.wake_reader();
                self.settle();
            }
            "rerr" => {
                self.rd.0.borrow_mut().err = true;
                self.wake_reader();
                self.settle();
            }
            "werr" => {
                self.wr.0.borrow_mut().budget = Some(num(args[0]));
            }
            "werr0" => {
                // like werr, but the write half reports Ok(0) instead of an error once the budget is used up
                let mut w = self.wr.0.borrow_mut();
                w.budget = Some(num(args[0]));
                w.zero_writes = true;
            }
            "wintr" => {
                // like werr, but the fault is ONE poll_write failing with ErrorKind::Interrupted; later writes succeed
                self.wr.0.borrow_mut().intr_after = Some(num(args[0]));
            }
            "cfault" => {
                // poll_close of the write half fails (1) or stays Pending (2); the library never closes the transport
                self.wr.0.borrow_mut().close_fault = num::<usize>(args[0]) as u8;
            }
            "rintr" => {
                // the transport's next read (after what is queued) fails once with ErrorKind::Interrupted
                self.rd.0.borrow_mut().intr = true;
                self.wake_reader();
                self.settle();
            }
            "wblock" => {
                // wblock <n>: accept n more bytes, then stay Pending (a congested socket) until `wunblock`
                self.wr.0.borrow_mut().block_after = Some(num(args[0]));
            }
            "wunblock" => {
                let w = {
                    let mut w = self.wr.0.borrow_mut();
                    w.block_after = None;
                    w.wwaker.take()
                };
                if let Some(w) = w {
                    w.wake();
                }
                self.settle();
            }
            "wmode" => {
                // wmode <pend_every> <chunk sizes...>
                let mut w = self.wr.0.borrow_mut();
                w.pend_every = num(args[0]);
                w.chunks = args[1..].iter().map(|a| num(a)).collect();
                w.chunk_idx = 0;
            }
            "start" | "startown" => {
                let i: usize = num(args[0]);
                let h: usize = num(args[1]);
                let own = cmd == "startown";
                let Some(handle) = self.handles.get_mut(&h) else {
                    self.emit(format!("? handle {}", h));
                    return;
                };
                // The future stored is the one the library's method itself returns, created here and now (an `async fn`
                // does nothing before its first poll; a method that did part of its work eagerly would show). It borrows
                // its own clone of the handle, which HeldFut keeps alive exactly as long as the future.
                // `startown`: the method is called on the stored handle itself, no clone is made (the script keeps the handle
                // alive and starts no other operation on it until this one is over - what `&mut self` enforces for callers)
                let hd: *mut ContextHandle = if own { &mut **handle as *mut ContextHandle } else { Box::into_raw(Box::new((**handle).clone())) };
                let h: &'static mut ContextHandle = unsafe { &mut *hd };
                let kind = args[2];
                let rest = &args[3..];
                let inner: OpFut = match kind {
                    "pub" => {
                        let o = publish_opts(&mut self.arena, rest);
                        let f = h.publish(o);
                        Box::pin(async move { OpOut::Unit(f.await) })
                    }
                    "sub" => {
                        let o = subscribe_opts(&mut self.arena, rest);
                        let f = h.subscribe(o);
                        Box::pin(async move { OpOut::Sub(f.await) })
                    }
                    "unsub" => {
                        let o = unsubscribe_opts(&mut self.arena, rest);
                        let f = h.unsubscribe(o);
                        Box::pin(async move { OpOut::Unsub(f.await) })
                    }
                    "ping" => {
                        let f = h.ping();
                        Box::pin(async move { OpOut::Unit(f.await) })
                    }
                    "disc" => {
                        let o = disconnect_opts(&mut self.arena, rest);
                        let f = h.disconnect(o);
                        Box::pin(async move { OpOut::Unit(f.await) })
                    }
                    _ => panic!("op kind {}", kind),
                };
                let fut: OpFut = Box::pin(HeldFut { fut: Some(inner), hd, owned: !own });
                self.ops.insert(i, OpTask { fut: Some(fut), flag: new_flag(), polled: false, sub: None });
            }
            "poll" | "fpoll" => {
                self.poll_op(num(args[0]), cmd == "fpoll");
                self.settle();
            }
            "dropop" => {
                let i: usize = num(args[0]);
                if let Some(t) = self.ops.get_mut(&i) {
                    t.fut = None;
                    t.sub = None;
                }
                self.settle();
            }
            "tostream" => {
                let i: usize = num(args[0]);
                match self.ops.get_mut(&i).and_then(|t| t.sub.take()) {
                    Some(rsp) => {
                        self.streams.insert(
                            i,
                            StreamTask { st: Box::pin(rsp.stream()), flag: new_flag(), polled: false },
                        );
                    }
                    None => self.emit(format!("? tostream {}", i)),
                }
            }
            "pollstream" | "fpollstream" => {
                self.poll_stream(num(args[0]), cmd == "fpollstream");
                self.settle();
            }
            "dropstream" => {
                let j: usize = num(args[0]);
                self.streams.remove(&j);
                if let Some(t) = self.ops.get_mut(&j) {
                    t.sub = None;
                }
                self.settle();
            }
            "clone" => {
                let h: usize = num(args[0]);
                let h2: usize = num(args[1]);
                if let Some(hd) = self.handles.get(&h).cloned() {
                    self.handles.insert(h2, hd);
                }
            }
            "drophandle" => {
                let h: usize = num(args[0]);
                self.handles.remove(&h);
                self.settle();
            }
            "dropctx" => {
                self.drop_ctx();
            }
            "hold" => self.hold = true,
            "release" => {
                self.hold = false;
                self.settle();
            }
            "markdisc" => {
                if let Some(c) = self.ctx_mut() {
                    c.verif_mark_disconnected(num(args[0]));
                }
            }
            "reconnect" => {
                // new transport for the same Context (its session state survives)
                self.ctx_fut = CtxFut::None;
                self.flush_wire();
                self.rd = MockRead::default();
                self.wr = MockWrite::default();
                self.wmark = 0;
                let pair = (self.rd.clone(), self.wr.clone());
                if let Some(c) = self.ctx_mut() {
                    c.set_up(pair);
                }
            }
            "sweep" => self.sweep(),
            "spin" => {
                // batch: <count> operations of one kind started, polled and (optionally) acknowledged
                self.spin(args);
            }
            "pub0s" => {
                // pub0s <n>: n QoS 0 publishes through handle 0, each polled to completion; prints nothing
                let n: usize = num(args[0]);
                for _ in 0..n {
                    let Some(mut hd) = self.handles.get(&0).cloned() else { break };
                    let o = publish_opts(&mut self.arena, &["q=0", "t=61"]);
                    let fut: OpFut = Box::pin(async move { OpOut::Unit(hd.publish(o).await) });
                    let i = 900_000usize;
                    self.ops.insert(i, OpTask { fut: Some(fut), flag: new_flag(), polled: false, sub: None });
                    let mark = self.out.len();
                    self.poll_op(i, false);
                    self.settle();
                    self.poll_op(i, false);
                    self.settle();
                    self.out.truncate(mark);
                    self.ops.remove(&i);
                    self.wmark = self.wr.0.borrow().out.len();
                    if self.arena.strs.len() > 4096 {
                        self.arena.strs.clear();
                        self.arena.bins.clear();
                    }
                }
            }
            "flood" => {
                // flood <n> <hex>: the same inbound packet n times, one read each (implementation only)
                let n: usize = num(args[0]);
                let b = unhex(args[1]);
                for k in 0..n {
                    self.rd.0.borrow_mut().segs.push_back(b.clone());
                    if k % 64 == 63 {
                        self.wake_reader();
                        self.settle();
                    }
                }
                self.wake_reader();
                self.settle();
            }
            "drain" => {
                // drain <stream> <n>: n polls of the stream; one digest line (implementation only)
                let j: usize = num(args[0]);
                let n: usize = num(args[1]);
                let (mut items, mut pend, mut ended) = (0usize, 0usize, 0usize);
                let mut first_gap: Option<usize> = None;
                for k in 0..n {
                    let mark = self.out.len();
                    self.poll_stream(j, false);
                    let l = self.out[mark..].join(" ");
                    self.out.truncate(mark);
                    if l.contains(" I ") {
                        items += 1;
                    } else if l.contains(" N ") {
                        pend += 1;
                        first_gap.get_or_insert(k);
                    } else {
                        ended += 1;
                        first_gap.get_or_insert(k);
                    }
                }
                self.emit(format!(
                    "Z {} polls={} yielded={} pending={} ended={}{}",
                    j,
                    n,
                    items,
                    pend,
                    ended,
                    first_gap.map(|k| format!(" firstgap={}", k)).unwrap_or_default()
                ));
            }
            // implementation-only batches (no counterpart in the model; judged by the spec monitors):
            "spinsub" => self.spinsub(args),
            "threads" => self.threads(args),
            _ => panic!("unknown event {}", cmd),
        }
        self.end_event();
    }

    fn end_event(&mut self) {
        self.flush_wire();
        let t = std::mem::take(&mut self.tail);
        self.out.extend(t);
        if std::mem::take(&mut self.stalled) {
            self.emit("S".into());
        }
    }

    // spin <n> <first-op-index> <kind pub1|pub2|sub|unsub> <ack 0|1>: n operations, each started, polled,
    // acknowledged by the packet a broker would send for the identifier read off the wire, and
    // polled to completion; prints only a digest line per identifier-bearing packet (C11).
    fn spin(&mut self, args: &[&str]) {
        let n: usize = num(args[0]);
        let base: usize = num(args[1]);
        let kind = args[2];
        let ack = args[3] == "1";
        for k in 0..n {
            let i = base + k;
            let toks: Vec<&str> = match kind {
                "pub1" => vec!["q=1", "t=61"],
                "pub2" => vec!["q=2", "t=61"],
                "sub" => vec!["f=61:0000"],
                _ => vec!["f=61"],
            };
            let hd = self.handles.get(&0).cloned();
            let Some(mut hd) = hd else { return };
            let fut: OpFut = match kind {
                "pub1" | "pub2" => {
                    let o = publish_opts(&mut self.arena, &toks);
                    Box::pin(async move { OpOut::Unit(hd.publish(o).await) })
                }
                "sub" => {
                    let o = subscribe_opts(&mut self.arena, &toks);
                    Box::pin(async move { OpOut::Sub(hd.subscribe(o).await) })
                }
                _ => {
                    let o = unsubscribe_opts(&mut self.arena, &toks);
                    Box::pin(async move { OpOut::Unsub(hd.unsubscribe(o).await) })
                }
            };
            self.ops.insert(i, OpTask { fut: Some(fut), flag: new_flag(), polled: false, sub: None });
            let mark = self.out.len();
            let wbefore = self.wr.0.borrow().out.len();
            self.poll_op(i, false);
            self.settle();
            let written: Vec<u8> = self.wr.0.borrow().out[wbefore..].to_vec();
            self.wmark = self.wr.0.borrow().out.len();
            // packet identifier position: PUBLISH q>0 with topic "a": 30|flags, len, 00 01 61, pid
            let pid = match kind {
                "pub1" | "pub2" if written.len() >= 7 => Some(((written[5] as u16) << 8) | written[6] as u16),
                "sub" | "unsub" if written.len() >= 4 => Some(((written[2] as u16) << 8) | written[3] as u16),
                _ => None,
            };
            let panicked = self.out[mark..].iter().any(|l| l.contains(" X "));
            self.out.truncate(mark);
            match pid {
                Some(p) => self.emit(format!("K {} pid={}", i, p)),
                None => self.emit(format!("K {} none{}", i, if panicked { " panic" } else { "" })),
            }
            if let (true, Some(p)) = (ack, pid) {
                let (hi, lo) = ((p >> 8) as u8, p as u8);
                let pk: Vec<Vec<u8>> = match kind {
                    "pub1" => vec![vec![0x40, 2, hi, lo]],
                    "pub2" => vec![vec![0x50, 2, hi, lo], vec![0x70, 2, hi, lo]],
                    "sub" => vec![vec![0x90, 4, hi, lo, 0, 0]],
                    _ => vec![vec![0xb0, 4, hi, lo, 0, 0]],
                };
                for bytes in pk {
                    self.rd.0.borrow_mut().segs.push_back(bytes);
                    self.wake_reader();
                    self.settle();
                    let mark = self.out.len();
                    self.poll_op(i, false);
                    self.settle();
                    self.out.truncate(mark);
                }
                self.wmark = self.wr.0.borrow().out.len();
                let done = self.ops.get(&i).map(|t| t.fut.is_none()).unwrap_or(false);
                if !done {
                    self.emit(format!("K {} incomplete", i));
                }
                self.ops.remove(&i);
                // keep the arena small over long runs
                if self.ops.is_empty() && self.arena.strs.len() > 4096 {
                    self.arena.strs.clear();
                    self.arena.bins.clear();
                }
            }
        }
    }
}

// (packet type, packet identifier, subscription identifier) of every identifier-bearing client packet in `w`
fn id_packets(w: &[u8]) -> Vec<(u8, u16, Option<u32>)> {
    fn varint(b: &[u8], mut i: usize) -> Option<(u32, usize)> {
        let (mut v, mut sh) = (0u32, 0);
        loop {
            let x = *b.get(i)?;
            v |= ((x & 0x7f) as u32) << sh;
            i += 1;
            if x & 0x80 == 0 {
                return Some((v, i));
            }
            sh += 7;
            if sh > 21 {
                return None;
            }
        }
    }
    let mut out = Vec::new();
    let mut i = 0;
    while i < w.len() {
        let Some((n, j)) = varint(w, i + 1) else { break };
        let end = j + n as usize;
        if end > w.len() {
            break;
        }
        let (h, body) = (w[i], &w[j..end]);
        match h >> 4 {
            3 if (h >> 1) & 3 > 0 && body.len() >= 2 => {
                let tl = ((body[0] as usize) << 8) | body[1] as usize;
                if body.len() >= 4 + tl {
                    out.push((3, ((body[2 + tl] as u16) << 8) | body[3 + tl] as u16, None));
                }
            }
            8 | 10 if body.len() >= 3 => {
                let pid = ((body[0] as u16) << 8) | body[1] as u16;
                let mut sid = None;
                if let Some((pl, k)) = varint(body, 2) {
                    let (mut q, pend) = (k, k + pl as usize);
                    while q < pend && q < body.len() {
                        if body[q] == 0x0b {
                            if let Some((v, _)) = varint(body, q + 1) {
                                sid = Some(v);
                            }
                            break;
                        } else if body[q] == 0x26 && q + 2 < body.len() {
                            let kl = ((body[q + 1] as usize) << 8) | body[q + 2] as usize;
                            let vo = q + 3 + kl;
                            if vo + 1 >= body.len() {
                                break;
                            }
                            let vl = ((body[vo] as usize) << 8) | body[vo + 1] as usize;
                            q = vo + 2 + vl;
                        } else {
                            break;
                        }
                    }
                }
                out.push((h >> 4, pid, if h >> 4 == 8 { sid } else { None }));
            }
            _ => {}
        }
        i = end;
    }
    out
}

impl World {
    // spinsub <n>: n subscribe() calls, each acknowledged and its response dropped; one digest line:
    // how many SUBSCRIBE packets were written, how many distinct subscription identifiers they carry, how many carry 0
    // or none.  (C11: every subscribe() gets its own subscription identifier, also after more than 65535 of them.)
    fn spinsub(&mut self, args: &[&str]) {
        let n: usize = num(args[0]);
        let mut seen = std::collections::HashSet::new();
        let (mut total, mut zero, mut dup, mut incomplete) = (0usize, 0usize, 0usize, 0usize);
        let mut first_dup: Option<(usize, u32)> = None;
        for k in 0..n {
            let i = 900_000_000 + k;
            let Some(mut hd) = self.handles.get(&0).cloned() else { return };
            let o = subscribe_opts(&mut self.arena, &["f=61:0000"]);
            let fut: OpFut = Box::pin(async move { OpOut::Sub(hd.subscribe(o).await) });
            self.ops.insert(i, OpTask { fut: Some(fut), flag: new_flag(), polled: false, sub: None });
            let mark = self.out.len();
            let wbefore = self.wr.0.borrow().out.len();
            self.poll_op(i, false);
            self.settle();
            let written: Vec<u8> = self.wr.0.borrow().out[wbefore..].to_vec();
            for (t, pid, sid) in id_packets(&written) {
                if t != 8 {
                    continue;
                }
                total += 1;
                match sid {
                    None | Some(0) => zero += 1,
                    Some(v) => {
                        if !seen.insert(v) {
                            dup += 1;
                            first_dup.get_or_insert((k, v));
                        }
                    }
                }
                let (hi, lo) = ((pid >> 8) as u8, pid as u8);
                self.rd.0.borrow_mut().segs.push_back(vec![0x90, 4, hi, lo, 0, 0]);
                self.wake_reader();
                self.settle();
            }
            self.poll_op(i, false);
            self.settle();
            if !self.ops.get(&i).map(|t| t.fut.is_none()).unwrap_or(false) {
                incomplete += 1;
            }
            self.ops.remove(&i);
            self.out.truncate(mark);
            self.wmark = self.wr.0.borrow().out.len();
            if self.arena.strs.len() > 4096 {
                self.arena.strs.clear();
                self.arena.bins.clear();
            }
        }
        self.emit(format!(
            "U calls={} subscribes={} distinct={} zero={} dup={} incomplete={}{}",
            n,
            total,
            seen.len(),
            zero,
            dup,
            incomplete,
            first_dup.map(|(k, v)| format!(" firstdup=call{}:id{}", k, v)).unwrap_or_default()
        ));
    }

    // threads <t> <n>: t OS threads, each with its own clone of the handle, start n identifier-bearing operations each
    // (QoS 1 publish / subscribe / unsubscribe in turn; polled once, never acknowledged) while this thread drives run().
    // One digest line: identifier-bearing packets written, duplicates among their packet identifiers, zeros.
    // (C11: identifiers unique among outstanding operations, also when issued concurrently from different clones.)
    fn threads(&mut self, args: &[&str]) {
        let t: usize = num(args[0]);
        let n: usize = num(args[1]);
        let Some(hd) = self.handles.get(&0).cloned() else { return };
        let wbefore = self.wr.0.borrow().out.len();
        let start = Arc::new(std::sync::Barrier::new(t));
        let mut joins = Vec::new();
        for k in 0..t {
            let h = hd.clone();
            let start = start.clone();
            joins.push(std::thread::spawn(move || {
                let waker = futures::task::noop_waker();
                let mut cx = std::task::Context::from_waker(&waker);
                start.wait();
                for j in 0..n {
                    let mut hd = h.clone();
                    match (k + j) % 3 {
                        0 => {
                            let o = PublishOpts::new().topic_name("a").qos(QoS::AtLeastOnce);
                            let mut f = Box::pin(async move { hd.publish(o).await.map(|_| ()) });
                            let _ = f.as_mut().poll(&mut cx);
                        }
                        1 => {
                            let o = SubscribeOpts::new().subscription("a", SubscriptionOpts::new());
                            let mut f = Box::pin(async move { hd.subscribe(o).await.map(|_| ()) });
                            let _ = f.as_mut().poll(&mut cx);
                        }
                        _ => {
                            let o = UnsubscribeOpts::new().topic_filter("a");
                            let mut f = Box::pin(async move { hd.unsubscribe(o).await.map(|_| ()) });
                            let _ = f.as_mut().poll(&mut cx);
                        }
                    }
                }
            }));
        }
        drop(hd);
        let mark = self.out.len();
        while joins.iter().any(|j| !j.is_finished()) {
            self.poll_ctx_once();
        }
        for j in joins {
            let _ = j.join();
        }
        for _ in 0..3 {
            self.poll_ctx_once();
            self.settle();
        }
        let written: Vec<u8> = self.wr.0.borrow().out[wbefore..].to_vec();
        self.wmark = self.wr.0.borrow().out.len();
        self.out.truncate(mark);
        let ids = id_packets(&written);
        let mut seen = std::collections::HashSet::new();
        let (mut dup, mut zero) = (0usize, 0usize);
        for (_, pid, _) in &ids {
            if *pid == 0 {
                zero += 1;
            } else if !seen.insert(*pid) {
                dup += 1;
            }
        }
        self.emit(format!("T threads={} each={} packets={} dup={} zero={}", t, n, ids.len(), dup, zero));
    }
}

fn run_case(line: &str) -> Vec<String> {
    let mut w = World::new();
    for (k, ev) in line.split(';').enumerate() {
        let toks: Vec<&str> = ev.split_whitespace().collect();
        if toks.is_empty() {
            continue;
        }
        w.ev = k;
        let r = catch_unwind(AssertUnwindSafe(|| w.event(&toks)));
        if r.is_err() {
            w.emit("X harness".into());
            break;
        }
    }
    std::mem::take(&mut w.out)
}

fn main() {
    if std::env::var("HARNESS_PANIC_MSG").is_err() {
        std::panic::set_hook(Box::new(|_| {}));
    }
    let stdin = io::stdin();
    let stdout = io::stdout();
    let mut out = io::BufWriter::new(stdout.lock());
    for line in stdin.lock().lines() {
        let line = line.unwrap();
        let line = line.trim();
        if line.is_empty() || line.starts_with('#') {
            continue;
        }
        // "<case-id> | ev ; ev ; ..."
        let (id, body) = line.split_once('|').expect("case-id | events");
        writeln!(out, "CASE {}", id.trim()).unwrap();
        for l in run_case(body) {
            writeln!(out, "{}", l).unwrap();
        }
        writeln!(out, "END").unwrap();
        // (a later case may wedge or abort the process: what is finished must not be lost with the buffer)
        out.flush().unwrap();
    }
}
