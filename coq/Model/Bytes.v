(* Byte-level primitives of poster's codec (src/core/base_types.rs, src/core/utils.rs), as
   executable Gallina.  No proofs here: the model must keep running when a proof breaks. *)
From Coq Require Export List NArith Bool Lia.
Export ListNotations.
Open Scope N_scope.

Definition byte := N.
Definition bytes := list byte.

(* Outcome of a fallible Rust expression: a value, an error value (Err(_) of any variant), or a
   panic (unwrap, unreachable!, Bytes::advance past the end, arithmetic overflow in debug). *)
Inductive res (A : Type) : Type := Ok (a : A) | Err | Panic.
Arguments Ok {A} a.
Arguments Err {A}.
Arguments Panic {A}.

Definition bind {A B} (r : res A) (f : A -> res B) : res B :=
  match r with Ok a => f a | Err => Err | Panic => Panic end.
Notation "'let*' x ':=' r 'in' k" := (bind r (fun x => k))
  (at level 200, x pattern, r at level 100, k at level 200, right associativity).

Definition lenN {A} (l : list A) : N := N.of_nat (List.length l).
Definition takeN {A} (n : N) (l : list A) : list A := firstn (N.to_nat n) l.
Definition dropN {A} (n : N) (l : list A) : list A := skipn (N.to_nat n) l.

(* --- integers, big endian -------------------------------------------------------------- *)
(* BufMut::put_u16(x as u16) etc.: the cast truncates, the model says so with mod. *)
Definition enc_u8 (n : N) : bytes := [n mod 256].
Definition enc_u16 (n : N) : bytes := [(n / 256) mod 256; n mod 256].
Definition enc_u32 (n : N) : bytes :=
  [(n / 16777216) mod 256; (n / 65536) mod 256; (n / 256) mod 256; n mod 256].

(* TryDecode for u8/u16/u32 (after the length check added by "fix: u16/u32 decoding ...").
   Each decoder returns the value; Decoder::try_decode then advances by byte_len(value). *)
Definition dec_u8 (bs : bytes) : res N :=
  match bs with b :: _ => Ok b | [] => Err end.
Definition dec_u16 (bs : bytes) : res N :=
  match bs with a :: b :: _ => Ok (a * 256 + b) | _ => Err end.
Definition dec_u32 (bs : bytes) : res N :=
  match bs with
  | a :: b :: c :: d :: _ => Ok (((a * 256 + b) * 256 + c) * 256 + d)
  | _ => Err
  end.
Definition dec_bool (bs : bytes) : res bool :=
  match bs with 0 :: _ => Ok false | 1 :: _ => Ok true | _ => Err end.
Definition dec_qos (bs : bytes) : res N :=
  match bs with b :: _ => if b <=? 2 then Ok b else Err | [] => Err end.
Definition nonzero (r : res N) : res N :=
  let* n := r in if n =? 0 then Err else Ok n.

(* Decoder::try_decode::<T>: decode from a clone of the buffer, then advance_by(byte_len).
   Bytes::advance panics when asked to go past the end. *)
Definition try_dec {A} (dec : bytes -> res A) (blen : A -> N) (bs : bytes) : res (A * bytes) :=
  let* a := dec bs in
  if blen a <=? lenN bs then Ok (a, dropN (blen a) bs) else Panic.

(* --- UTF-8 (what core::str::from_utf8 accepts: Unicode well-formed byte sequences) -------- *)
Definition cont (b : byte) : bool := (128 <=? b) && (b <=? 191).
Definition inr (lo hi b : N) : bool := (lo <=? b) && (b <=? hi).

Fixpoint utf8_valid (bs : bytes) : bool :=
  match bs with
  | [] => true
  | b0 :: r0 =>
    if b0 <? 128 then utf8_valid r0
    else if inr 194 223 b0 then
      match r0 with b1 :: r => cont b1 && utf8_valid r | _ => false end
    else if b0 =? 224 then
      match r0 with b1 :: b2 :: r => inr 160 191 b1 && cont b2 && utf8_valid r | _ => false end
    else if inr 225 236 b0 || inr 238 239 b0 then
      match r0 with b1 :: b2 :: r => cont b1 && cont b2 && utf8_valid r | _ => false end
    else if b0 =? 237 then
      match r0 with b1 :: b2 :: r => inr 128 159 b1 && cont b2 && utf8_valid r | _ => false end
    else if b0 =? 240 then
      match r0 with
      | b1 :: b2 :: b3 :: r => inr 144 191 b1 && cont b2 && cont b3 && utf8_valid r
      | _ => false end
    else if inr 241 243 b0 then
      match r0 with
      | b1 :: b2 :: b3 :: r => cont b1 && cont b2 && cont b3 && utf8_valid r
      | _ => false end
    else if b0 =? 244 then
      match r0 with
      | b1 :: b2 :: b3 :: r => inr 128 143 b1 && cont b2 && cont b3 && utf8_valid r
      | _ => false end
    else false
  end.

(* --- length-prefixed data --------------------------------------------------------------- *)
Definition enc_bin (b : bytes) : bytes := enc_u16 (lenN b) ++ b.

(* Binary::try_decode: 2-byte size, then that many bytes. *)
Definition dec_bin (bs : bytes) : res bytes :=
  match bs with
  | a :: b :: r =>
    let n := a * 256 + b in
    if n <=? lenN r then Ok (takeN n r) else Err
  | _ => Err
  end.
Definition blen_bin (b : bytes) : N := lenN b + 2.

(* UTF8String::try_decode: same layout plus from_utf8. *)
Definition dec_str (bs : bytes) : res bytes :=
  let* s := dec_bin bs in if utf8_valid s then Ok s else Err.

(* UTF8StringPair::try_decode *)
Definition dec_pair (bs : bytes) : res (bytes * bytes) :=
  let* k := dec_str bs in
  let* v := dec_str (dropN (blen_bin k) bs) in
  Ok (k, v).
Definition blen_pair (p : bytes * bytes) : N := 4 + lenN (fst p) + lenN (snd p).
Definition enc_pair (p : bytes * bytes) : bytes := enc_bin (fst p) ++ enc_bin (snd p).
