(* C05 - each operation completes exactly once, with the acknowledgement addressed to it. *)
From Poster Require Import Model.Client Proofs.ClientP.

(* the key under which an operation waits - (expected acknowledgement type << 24) | (id << 8) -
   identifies type and identifier uniquely *)
Theorem C05_aid_injective : forall t1 p1 t2 p2 : N,
  p1 < 65536 -> p2 < 65536 -> aid t1 p1 = aid t2 p2 -> t1 = t2 /\ p1 = p2.
Proof. exact aid_inj. Qed.
Print Assumptions C05_aid_injective.

(* an acknowledgement nobody waits for is absorbed without any effect *)
Theorem C05_stray_ack : forall (s : sys) (a : N) (p : rxpkt),
  alookup a (awaiting (c s)) = None -> ack_waiter s a p = s.
Proof. exact ack_waiter_none. Qed.
Print Assumptions C05_stray_ack.

(* an acknowledgement completes the operation registered under its key with that very packet,
   and the registration is consumed (exactly once) *)
Theorem C05_own_ack : forall (s : sys) (a : N) (p : rxpkt) (i ph : N),
  alookup a (awaiting (c s)) = Some (i, ph) ->
  ops (ack_waiter s a p) = ops (complete s i ph (CPkt p)) /\
  awaiting (c (ack_waiter s a p)) = aremove a (awaiting (c s)).
Proof. exact ack_waiter_some. Qed.
Print Assumptions C05_own_ack.

(* completing one operation touches no other operation *)
Theorem C05_others_untouched : forall (s : sys) (i ph : N) (v : cval) (j : N),
  j <> i -> alookup j (ops (complete s i ph v)) = alookup j (ops s).
Proof. exact complete_other. Qed.
Print Assumptions C05_others_untouched.

(* operations whose acknowledgement has not arrived stay pending *)
Theorem C05_stays_pending : forall (s : sys) (i : N) (o : op),
  alookup i (ops s) = Some o ->
  (o_phase o = Wait1 /\ o_ch1 o = CEmpty) \/ (o_phase o = Wait2 /\ o_ch2 o = CEmpty) ->
  poll_op s i = (s, [OPend i]).
Proof. exact spurious_op_poll. Qed.
Print Assumptions C05_stays_pending.

(* a filled oneshot is never overwritten: the first completion stands *)
Theorem C05_at_most_once : forall (ch : chan) (v w : cval), ch = CFull w -> fill_chan ch v = CFull w.
Proof. exact fill_chan_full. Qed.
Print Assumptions C05_at_most_once.
