(* C16 for whole runs: an executor that additionally polls tasks whose waker has not fired - anywhere, any number of
   times - reaches the same observations, in the same order, and the same final state as the wake-only one. *)
From Poster Require Import Model.Sim Proofs.BytesP Proofs.ClientP Proofs.SimInvP Proofs.SettleP.
Arguments N.add : simpl never. Arguments N.mul : simpl never. Arguments N.sub : simpl never.
Arguments N.ltb : simpl never. Arguments N.leb : simpl never. Arguments N.eqb : simpl never.

(* ---- the Context task is at rest in every state a script reaches --------------------------------------------------------
   at rest: polling it again does nothing - it is being held back by the script (hold), it is gone, or it has
   stopped (C16_pending_only_when_idle: finished, or queue empty and the transport's last answer Pending). *)
Definition AtRest (s : sys) : Prop := hold s = true \/ ctx_alive s = false \/ Stopped s.

Lemma at_rest_fix s : AtRest s -> settle s = s.
Proof.
  intros [H|[H|H]]; [unfold settle; rewrite H; reflexivity|unfold settle; rewrite H, Bool.orb_true_r; reflexivity|].
  apply settle_stopped_fix. exact H.
Qed.
Lemma AtRest_keep s s' : hold s' = hold s -> ctx_alive s' = ctx_alive s -> cph s' = cph s -> msgq s' = msgq s ->
  fr s' = fr s -> rd s' = rd s -> (live_senders s <> 0 -> live_senders s' <> 0) -> AtRest s -> AtRest s'.
Proof.
  intros H1 H2 H3 H4 H5 H6 H7 [H|[H|H]]; [left; congruence|right; left; congruence|right; right].
  unfold Stopped, Asleep, AsleepConn in *. rewrite H3, H4, H5, H6. destruct (cph s); [exact I|exact H|].
  destruct H as (Ha & Hb & Hc). split; [exact Ha|]. split; [apply H7; exact Hb|exact Hc].
Qed.
Lemma AtRest_idle s : cph s = CIdle -> AtRest s.
Proof. intros H. right. right. unfold Stopped. rewrite H. exact I. Qed.
Lemma AtRest_settle s : FInv s -> SZs s -> AtRest (settle s).
Proof.
  intros HF Hs. unfold settle. destruct (hold s) eqn:Hh; cbn [orb]; [left; exact Hh|].
  destruct (ctx_alive s) eqn:Ha; cbn [negb]; [|right; left; exact Ha].
  right. right. apply settle_loop_adequate; assumption.
Qed.
Lemma AtRest_settle_io s0 s : io s = io s0 -> FInv s0 -> SZs s0 -> AtRest (settle s).
Proof.
  intros Hio HF Hs. apply AtRest_settle.
  - unfold io in Hio. inversion Hio as [[H1 H2 H3]]. eapply FInv_io; [exact H1|exact H2|exact HF].
  - eapply SZs_io; [exact Hio|exact Hs].
Qed.

Lemma start_conn_rest s pkt sei : FInv s -> SZs s -> AtRest (start_conn s pkt sei).
Proof.
  intros HF Hs. unfold start_conn. cbv zeta. destruct pkt as [b| |]; try (apply AtRest_idle; reflexivity).
  set (s1 := match sei with Some v => set_c s (with_sei_ts (c s) v (disc_ts (c s))) | None => s end).
  assert (H1 : io s1 = io s) by (subst s1; destruct sei; reflexivity).
  assert (H2 : io (fst (write s1 b)) = io s) by (rewrite io_write; exact H1).
  destruct (snd (write s1 b)); [|apply AtRest_idle; reflexivity].
  eapply AtRest_settle_io; [|exact HF|exact Hs]. rewrite <- H2. reflexivity.
Qed.
Lemma start_run_rest s : FInv s -> SZs s -> AtRest (start_run s).
Proof.
  intros HF Hs. unfold start_run. cbv zeta.
  destruct (disc_ts (c (set_cph s CIdle))) as [t|]; [|eapply AtRest_settle_io; [|exact HF|exact Hs]; reflexivity].
  set (s1 := if session_expired (c (set_cph s CIdle)) t then reset_session (set_cph s CIdle) else set_cph s CIdle).
  assert (H1 : io s1 = io s) by (subst s1; destruct (session_expired _ _); [rewrite io_reset_session|]; reflexivity).
  set (s2 := set_c s1 (with_sei_ts (c s1) (sei (c s1)) None)).
  pose proof (io_retransmit (retx (c s2)) s2) as Hr.
  destruct (retransmit s2 (retx (c s2))) as [s3 ok]. cbn [fst] in Hr.
  destruct ok; [|apply AtRest_idle; reflexivity].
  eapply AtRest_settle_io; [|exact HF|exact Hs]. change (io s3 = io s). rewrite Hr. exact H1.
Qed.

(* events of the case language other than the harness's batch event *)
Definition ev_ok' (e : event) : Prop := ev_ok e /\ match e with ESpin _ _ _ _ => False | _ => True end.

Lemma lenN_cons_ne {A} (x : A) l : lenN (x :: l) + 0 <> 0.
Proof. rewrite lenN_cons. lia. Qed.
Lemma memN_nonempty h l : memN h l = true -> lenN l <> 0.
Proof. destruct l as [|x l]; [discriminate|]. intros _. rewrite lenN_cons. lia. Qed.

Theorem step_rest s e : FInv s -> SZs s -> AtRest s -> ev_ok' e -> AtRest (fst (step s e)).
Proof.
  intros HF Hs Hr [Hok Hns]. pose proof (Good_begin s HF) as Hg. unfold step. cbv zeta.
  assert (HF0 : FInv (begin_ev s)) by exact HF. assert (Hs0 : SZs (begin_ev s)) by exact Hs.
  assert (Hr0 : AtRest (begin_ev s)) by (eapply AtRest_keep; [..|exact Hr]; auto).
  set (s0 := begin_ev s) in *.
  destruct e; cbn [ev_ok] in Hok; cbn [fst].
  - destruct (negb (ctx_alive s0)); cbn [fst]; [exact Hr0|apply start_conn_rest; assumption].
  - destruct (negb (ctx_alive s0)); cbn [fst]; [exact Hr0|apply start_conn_rest; assumption].
  - destruct (negb (ctx_alive s0)); cbn [fst]; [exact Hr0|apply start_run_rest; assumption].
  - destruct b as [|b0 b]; cbn [fst]; apply AtRest_settle; try assumption.
    apply (Good_deliver s0 (b0 :: b) Hg). discriminate.
  - apply AtRest_settle; [|exact Hs0]. destruct HF0 as [HI Hn]. split; [exact HI|exact Hn].
  - apply AtRest_settle; [|exact Hs0]. destruct HF0 as [HI Hn]. split; [exact HI|exact Hn].
  - eapply AtRest_keep; [..|exact Hr0]; auto.
  - exact Hr0.
  - destruct (memN h (handles s0)) eqn:Hm; cbn [fst]; [|exact Hr0].
    eapply AtRest_keep; [..|exact Hr0]; try reflexivity. intros _. unfold live_senders. cbn [handles put_op set_ops].
    pose proof (memN_nonempty _ _ Hm). lia.
  - pose proof (io_poll_op s0 i) as Hio. destruct (poll_op s0 i) as [s1 o]. cbn [fst] in *.
    eapply AtRest_settle_io; [exact Hio|exact HF0|exact Hs0].
  - eapply AtRest_settle_io; [apply io_drop_op|exact HF0|exact Hs0].
  - destruct (alookup i (streams s0)) as [st|]; [|exact Hr0].
    destruct (op_phase_of s0 i) as [[| | |]|]; try exact Hr0.
    destruct (st_recv st && negb (st_taken st)); cbn [fst]; [|exact Hr0].
    eapply AtRest_keep; [..|exact Hr0]; auto.
  - pose proof (io_poll_stream s0 j) as Hio. destruct (poll_stream s0 j) as [s1 o]. cbn [fst] in *.
    eapply AtRest_settle_io; [exact Hio|exact HF0|exact Hs0].
  - assert (Hio : io (set_streams (drop_recv s0 j) (aremove j (streams (drop_recv s0 j)))) = io s0).
    { pose proof (io_drop_recv s0 j) as H. unfold io in *. inversion H as [[H1 H2 H3]].
      cbn [rd fr tail_ev set_streams]. rewrite H1, H2, H3. reflexivity. }
    destruct (op_phase_of s0 j) as [[| | |]|]; cbn [fst];
      (eapply AtRest_settle_io; [|exact HF0|exact Hs0]); try exact Hio; reflexivity.
  - destruct (memN h (handles s0) && negb (memN h2 (handles s0))); cbn [fst]; [|exact Hr0].
    eapply AtRest_keep; [..|exact Hr0]; try reflexivity. intros _. unfold live_senders. cbn [handles set_handles ops].
    rewrite lenN_cons. lia.
  - eapply AtRest_settle_io; [|exact HF0|exact Hs0]. reflexivity.
  - right. left. reflexivity.
  - left. reflexivity.
  - eapply AtRest_settle_io; [|exact HF0|exact Hs0]. reflexivity.
  - destruct (ctx_alive s0); cbn [fst]; [|exact Hr0]. eapply AtRest_keep; [..|exact Hr0]; auto.
  - apply AtRest_idle. reflexivity.
  - contradiction.
Qed.

Definition RI (s : sys) : Prop := FInv s /\ SZs s /\ AtRest s.
Lemma RI_init : RI sys_init.
Proof. split; [apply FInv_init|]. split; [apply SZs_init|]. apply AtRest_idle. reflexivity. Qed.
Lemma RI_step s e : RI s -> ev_ok' e -> RI (fst (step s e)).
Proof.
  intros (HF & Hs & Hr) He. split; [apply (step_good s e HF (proj1 He))|]. split; [apply step_SZ; exact Hs|].
  apply step_rest; assumption.
Qed.
Theorem reachable_at_rest evs : Forall ev_ok' evs -> forall s, RI s -> RI (final_state s evs).
Proof. induction 1 as [|e evs He _ IH]; intros s H; cbn [final_state]; [exact H|]. apply IH. apply RI_step; assumption. Qed.

(* ---- spurious polls ------------------------------------------------------------------------------------------------------
   "its waker has not fired": an operation future waits on a oneshot nothing was sent to and whose sender is alive;
   a stream has nothing buffered and its sender is alive. *)
Definition Spur (s : sys) (e : event) : Prop :=
  (exists i o, e = EPoll i /\ alookup i (ops s) = Some o /\
     ((o_phase o = Wait1 /\ o_ch1 o = CEmpty) \/ (o_phase o = Wait2 /\ o_ch2 o = CEmpty))) \/
  (exists j st, e = EPollStream j /\ alookup j (streams s) = Some st /\
     st_taken st = true /\ st_buf st = [] /\ st_sender st = true).
Definition pending_obs (e : event) : list obs :=
  match e with EPoll i => [OPend i] | EPollStream j => [ONone j] | _ => [] end.

Theorem spur_event s e : AtRest s -> Spur s e -> step s e = (begin_ev s, pending_obs e).
Proof.
  intros Hr Hsp.
  assert (Hr0 : AtRest (begin_ev s)) by (eapply AtRest_keep; [..|exact Hr]; auto).
  destruct Hsp as [(i & o & -> & Hl & Hw)|(j & st & -> & Hl & H1 & H2 & H3)]; unfold step; cbv zeta; cbn [pending_obs].
  - rewrite (spurious_op_poll (begin_ev s) i o Hl Hw), (at_rest_fix _ Hr0). reflexivity.
  - rewrite (spurious_stream_poll (begin_ev s) j st Hl H1 H2 H3), (at_rest_fix _ Hr0). reflexivity.
Qed.

(* ---- whole runs ------------------------------------------------------------------------------------------------------------
   Sweep s es l: l is the script es with extra polls inserted (label true), each of a task whose waker has not fired
   in the state it is inserted in. *)
Inductive Sweep : sys -> list event -> list (bool * event) -> Prop :=
| Sw_nil s : Sweep s [] []
| Sw_real s e es l : Sweep (fst (step s e)) es l -> Sweep s (e :: es) ((false, e) :: l)
| Sw_extra s e es l : Spur s e -> Sweep s es l -> Sweep s es ((true, e) :: l).

Fixpoint run_obs (s : sys) (evs : list event) : list (list obs) :=
  match evs with [] => [] | e :: r => snd (step s e) :: run_obs (fst (step s e)) r end.
(* the observations of a labelled run: (inserted?, event, what the event printed) *)
Fixpoint run_lab (s : sys) (l : list (bool * event)) : list (bool * event * list obs) :=
  match l with [] => [] | (b, e) :: r => (b, e, snd (step s e)) :: run_lab (fst (step s e)) r end.
Definition real_obs (l : list (bool * event * list obs)) : list (list obs) :=
  map snd (filter (fun x => negb (fst (fst x))) l).
Definition extra_pending (x : bool * event * list obs) : Prop :=
  fst (fst x) = true -> snd x = pending_obs (snd (fst x)).

Lemma run_lab_begin l s : run_lab (begin_ev s) l = run_lab s l.
Proof. destruct l as [|[b e] l]; cbn [run_lab]; [reflexivity|]. rewrite step_begin. reflexivity. Qed.
Lemma final_begin evs s : begin_ev (final_state (begin_ev s) evs) = begin_ev (final_state s evs).
Proof. destruct evs as [|e evs]; cbn [final_state]; [reflexivity|]. rewrite step_begin. reflexivity. Qed.
Lemma Spur_begin s e : Spur s e -> Spur (begin_ev s) e.
Proof. exact (fun H => H). Qed.

Theorem sweep_same s es l : Sweep s es l -> RI s -> Forall ev_ok' es ->
  real_obs (run_lab s l) = run_obs s es /\
  Forall extra_pending (run_lab s l) /\
  begin_ev (final_state s (map snd l)) = begin_ev (final_state s es).
Proof.
  induction 1 as [s|s e es l Hsw IH|s e es l Hsp Hsw IH]; intros HR Hok.
  - split; [reflexivity|]. split; [constructor|reflexivity].
  - inversion Hok as [|? ? He Hes]; subst. destruct (IH (RI_step s e HR He) Hes) as (H1 & H2 & H3).
    cbn [run_lab run_obs map snd final_state]. unfold real_obs in *. cbn [filter fst negb map snd].
    split; [rewrite H1; reflexivity|]. split; [|exact H3]. constructor; [intros H; discriminate H|exact H2].
  - destruct (IH HR Hok) as (H1 & H2 & H3). destruct HR as (HF & Hs & Hr).
    pose proof (spur_event s e Hr Hsp) as E.
    cbn [run_lab map snd final_state]. rewrite E. cbn [fst snd]. rewrite run_lab_begin.
    unfold real_obs in *. cbn [filter fst negb]. split; [exact H1|]. split.
    + constructor; [intros _; reflexivity|exact H2].
    + rewrite final_begin. exact H3.
Qed.

(* from the initial state: every script, every set of insertions *)
Corollary sweep_same_reachable pre es l : Forall ev_ok' pre -> Forall ev_ok' es ->
  let s := final_state sys_init pre in Sweep s es l ->
  real_obs (run_lab s l) = run_obs s es /\ Forall extra_pending (run_lab s l) /\
  begin_ev (final_state s (map snd l)) = begin_ev (final_state s es).
Proof.
  intros Hp He s Hsw. apply sweep_same; [exact Hsw| |exact He]. apply reachable_at_rest; [exact Hp|exact RI_init].
Qed.
