(* C12 - the server's Maximum Packet Size is honoured exactly. *)
From Poster Require Import Model.Client Proofs.CodecP Proofs.ClientP Proofs.QuotaP Proofs.ResumeP Proofs.WireP Proofs.MaxPktP.
From Coq Require Import Lia.

(* M is the value announced by the CONNACK of this connection; a CONNACK that announces none leaves no limit, whatever
   an earlier connection of the same Context had announced (finding F20, fixed in f454533) *)
Theorem C12_from_connack : forall (x : ctx) (p : rxpkt),
  maxpkt (handle_connack x p) = pnum 39 (r_props p).
Proof. reflexivity. Qed.
Print Assumptions C12_from_connack.

Theorem C12_size_ok_spec : forall (x : ctx) (pkt : bytes),
  size_ok x pkt = true <-> (maxpkt x = None \/ exists m, maxpkt x = Some m /\ lenN pkt <= m).
Proof. exact size_ok_spec. Qed.
Print Assumptions C12_size_ok_spec.

(* L > M: for every request kind and every state, only the request's own oneshot is filled, with
   MaximumPacketSizeExceeded; the run loop continues; the whole Context state (quota, awaiting
   acknowledgements, subscriptions, retransmit queue), the wire, the transport and the queue
   are exactly as before *)
Theorem C12_reject : forall (s : sys) (m : cmsg),
  size_ok (c s) (msg_pkt m) = false ->
  let s' := fst (handle_message s m) in
  snd (handle_message s m) = Continue /\ c s' = c s /\ wire_ev s' = wire_ev s /\
  wbudget s' = wbudget s /\ msgq s' = msgq s /\
  ops s' = ops (complete s (fst (msg_op m)) (snd (msg_op m)) CTooBig).
Proof. exact too_big_rejected. Qed.
Print Assumptions C12_reject.

(* L <= M or no M: the packet is written in full (QoS>0 PUBLISH: if the send quota allows) *)
Theorem C12_accept : forall (s : sys) (m : cmsg),
  size_ok (c s) (msg_pkt m) = true -> wbudget s = None ->
  (forall i ph a p, m = MAwait i ph a p -> ptype_of p = 3 -> quota (c s) <> 0) ->
  wire_ev (fst (handle_message s m)) = wire_ev s ++ msg_pkt m.
Proof. exact fits_written. Qed.
Print Assumptions C12_accept.

(* over every history of Context steps (WireP; refused = too big for M, or a QoS>0 PUBLISH at quota 0): the wire is the
   concatenation of exactly the packets that are not refused, each in full, and of the acknowledgements due - so not
   one byte of a refused request is ever written, and every accepted one is written whole, exactly once *)
Theorem C12_wire_history : forall (evs : list qev) (s : sys), wbudget s = None ->
  wire_ev (run_q s evs) = wire_ev s ++ spec_wire s evs.
Proof. exact wire_history. Qed.
Print Assumptions C12_wire_history.

Example C12_nonvacuous :
  let s := set_c sys_init (mkctx [] [] [] [] 5 5 (Some 3) 0 None) in
  size_ok (c s) [192; 0] = true /\ size_ok (c s) [48; 2; 0; 0] = false.
Proof. vm_compute. auto. Qed.

(* the top of the range (Proofs/MaxPktP.v): every packet the encoders build is `enc_packet hdr fields` (or one of the constant
   2- and 4-byte packets); none is longer than 1 + 4 + 268 435 455 = 268 435 460 bytes, so a Maximum Packet Size at or above
   that refuses nothing - and in general the limit is compared with the length of the WHOLE packet, fixed header byte and
   remaining-length field included, and with nothing else. (Seeded defect C12-9B clamped M to 268 435 455.) *)
Theorem C12_protocol_maximum : forall (x : ctx) (hdr : N) (fs : list fld) (b : bytes) (m : N),
  Forall wf_fld fs -> enc_packet hdr fs = Ok b -> maxpkt x = Some m -> 268435460 <= m ->
  lenN b <= 268435460 /\ size_ok x b = true.
Proof.
  intros x hdr fs b m Hw He Hm Hle. split; [exact (packet_le_pmax hdr fs b Hw He)|exact (big_limit_refuses_nothing x hdr fs b m Hw He Hm Hle)].
Qed.
Print Assumptions C12_protocol_maximum.
Theorem C12_limit_exact : forall (x : ctx) (b : bytes) (m : N), maxpkt x = Some m -> size_ok x b = (lenN b <=? m).
Proof. exact size_ok_exact. Qed.
Print Assumptions C12_limit_exact.
Example C12_protocol_maximum_nonvacuous :
  let x := mkctx [] [] [] [] 5 5 (Some 268435460) 0 None in
  Forall wf_fld [F16 7; FProps []] /\ enc_packet 162 [F16 7; FProps []] = Ok [162; 3; 0; 7; 0] /\ size_ok x [162; 3; 0; 7; 0] = true.
Proof. split; [repeat constructor; cbn; try lia|vm_compute; auto]. Qed.
