(* MQTT 5 wire format of the packets a CLIENT sends (sections 3.1, 3.3, 3.8, 3.10, 3.12, 3.14, 3.15
   of the standard), as encoders from the abstract content of a packet, independent of the field
   lists of Model/Tx.v.  PUBLISH and the acknowledgements are in Spec/Mqtt.v (same format both ways). *)
From Poster Require Export Spec.Mqtt.

Definition spec_u16 (n : N) : bytes := [n / 256; n mod 256].
Definition spec_bin (b : bytes) : bytes := spec_u16 (lenN b) ++ b.       (* two-byte length, then the data *)
Definition opt_bytes (f : bytes -> bytes) (o : option bytes) : bytes := match o with Some b => f b | None => [] end.

(* 3.1 CONNECT *)
Record will_value := { wv_qos : N; wv_retain : bool; wv_props : list prop; wv_topic : bytes; wv_payload : bytes }.
Record connect_value := {
  cv_clean_start : bool; cv_keep_alive : N; cv_props : list prop; cv_client_id : bytes;
  cv_will : option will_value; cv_user_name : option bytes; cv_password : option bytes }.
(* 3.1.2.3 connect flags: bit 7 User Name, 6 Password, 5 Will Retain, 4-3 Will QoS, 2 Will Flag,
   1 Clean Start, 0 reserved (zero) *)
Definition spec_connect_flags (v : connect_value) : N :=
  (match cv_user_name v with Some _ => 128 | None => 0 end) +
  (match cv_password v with Some _ => 64 | None => 0 end) +
  (match cv_will v with Some w => (if wv_retain w then 32 else 0) + wv_qos w * 8 + 4 | None => 0 end) +
  (if cv_clean_start v then 2 else 0).
Definition spec_connect (v : connect_value) : bytes :=
  spec_packet 16
    ([0; 4; 77; 81; 84; 84]                       (* protocol name "MQTT" *)
     ++ [5]                                        (* protocol version *)
     ++ [spec_connect_flags v]
     ++ spec_u16 (cv_keep_alive v)
     ++ spec_props (cv_props v)
     ++ spec_bin (cv_client_id v)
     ++ (match cv_will v with
         | Some w => spec_props (wv_props w) ++ spec_bin (wv_topic w) ++ spec_bin (wv_payload w)
         | None => [] end)
     ++ opt_bytes spec_bin (cv_user_name v)
     ++ opt_bytes spec_bin (cv_password v)).
Definition connect_tx_ids : list N := [17; 33; 39; 34; 25; 23; 38; 21; 22].
Definition will_ids : list N := [24; 1; 2; 3; 8; 9; 38].

(* 3.8 SUBSCRIBE: packet identifier, properties, then (topic filter, options byte)+ ;
   3.8.3.1 options: bits 0-1 QoS, 2 No Local, 3 Retain As Published, 4-5 Retain Handling, 6-7 zero *)
Record filter_value := { fv_topic : bytes; fv_qos : N; fv_no_local : bool; fv_rap : bool; fv_retain_handling : N }.
Definition spec_sub_options (f : filter_value) : N :=
  fv_qos f + (if fv_no_local f then 4 else 0) + (if fv_rap f then 8 else 0) + fv_retain_handling f * 16.
Definition spec_subscribe (pid : N) (ps : list prop) (fs : list filter_value) : bytes :=
  spec_packet 130 (spec_u16 pid ++ spec_props ps ++ concat (map (fun f => spec_bin (fv_topic f) ++ [spec_sub_options f]) fs)).

(* 3.10 UNSUBSCRIBE *)
Definition spec_unsubscribe (pid : N) (ps : list prop) (fs : list bytes) : bytes :=
  spec_packet 162 (spec_u16 pid ++ spec_props ps ++ concat (map spec_bin fs)).

(* 3.12 PINGREQ *)
Definition spec_pingreq : bytes := [192; 0].

(* 3.14 DISCONNECT, 3.15 AUTH as the client sends them *)
Definition spec_disconnect_tx (reason : N) (ps : list prop) : bytes := spec_packet 224 ([reason] ++ spec_props ps).
Definition spec_auth_tx (reason : N) (ps : list prop) (short : bool) : bytes :=
  if short then [240; 0] else spec_packet 240 ([reason] ++ spec_props ps).
