(* The lazily padded buffer of Model/Framing.v denotes the byte list `zbytes`; every operation on
   it is the corresponding list operation. *)
From Poster Require Import Model.Framing Proofs.BytesP Proofs.ListP.
From Coq Require Import ZArith ZifyN ZifyBool ZifyNat.
Ltac Zify.zify_post_hook ::= Z.div_mod_to_equations.
Arguments N.add : simpl never. Arguments N.mul : simpl never. Arguments N.sub : simpl never.
Arguments N.ltb : simpl never. Arguments N.leb : simpl never. Arguments N.eqb : simpl never.
Arguments N.min : simpl never.

Lemma zbytes_zeros b : zbytes b = zd b ++ zeros (zp b).
Proof. reflexivity. Qed.
Lemma zlen_zbytes b : zlen b = lenN (zbytes b).
Proof. unfold zlen. rewrite zbytes_zeros, lenN_app, lenN_zeros. reflexivity. Qed.

Lemma ztake_spec n b : ztake n b = takeN n (zbytes b).
Proof.
  unfold ztake. rewrite zbytes_zeros. destruct (n <=? lenN (zd b)) eqn:E.
  - apply N.leb_le in E. rewrite takeN_app_le by exact E. reflexivity.
  - apply N.leb_gt in E. rewrite takeN_app_ge by lia. rewrite takeN_zeros. reflexivity.
Qed.
Lemma zdrop_spec n b : zbytes (zdrop n b) = dropN n (zbytes b).
Proof.
  unfold zdrop. rewrite (zbytes_zeros b). destruct (n <=? lenN (zd b)) eqn:E.
  - apply N.leb_le in E. rewrite dropN_app_le by exact E. reflexivity.
  - apply N.leb_gt in E. rewrite dropN_app_ge by lia. rewrite dropN_zeros. reflexivity.
Qed.

(* canonical form: W are the bytes received and not yet handed out, followed by k zero bytes *)
Definition canon (b : zbuf) (W : bytes) (k : N) : Prop := zbytes b = W ++ zeros k.

Lemma canon_resize b W k n : canon b W k -> lenN W <= n -> canon (zresize n b) W (n - lenN W).
Proof.
  unfold canon. intros Hc Hn.
  assert (Hlen : lenN (zd b) + zp b = lenN W + k).
  { rewrite <- (lenN_zeros (zp b)), <- (lenN_zeros k), <- !lenN_app, <- zbytes_zeros, Hc. reflexivity. }
  unfold zresize. destruct (n <=? lenN (zd b)) eqn:E.
  - apply N.leb_le in E. unfold zbytes. cbn [zd zp]. change (repeat 0 (N.to_nat 0)) with (@nil byte).
    rewrite app_nil_r.
    assert (H1 : takeN n (zbytes b) = takeN n (zd b)) by (rewrite zbytes_zeros; apply takeN_app_le; exact E).
    rewrite <- H1, Hc. rewrite takeN_app_ge by exact Hn. rewrite takeN_zeros. f_equal. f_equal. lia.
  - apply N.leb_gt in E. rewrite zbytes_zeros. cbn [zd zp].
    (* zd b ++ zeros (n - |zd|)  vs  W ++ zeros (n - |W|) *)
    assert (H2 : zd b ++ zeros (n - lenN (zd b)) = takeN n (zbytes b) ++ zeros (n - (lenN (zd b) + zp b))).
    { rewrite zbytes_zeros, takeN_app_ge by lia. rewrite takeN_zeros, <- app_assoc, <- zeros_add. f_equal. f_equal. lia. }
    rewrite H2, Hc, takeN_app_ge by exact Hn. rewrite takeN_zeros, <- app_assoc, <- zeros_add. f_equal. f_equal. lia.
Qed.

Lemma zfill_spec at_ d b : at_ + lenN d <= zlen b ->
  zbytes (zfill at_ d b) = takeN at_ (zbytes b) ++ d ++ dropN (at_ + lenN d) (zbytes b).
Proof.
  unfold zlen. intros Hl. unfold zfill. rewrite (zbytes_zeros b). destruct (at_ <=? lenN (zd b)) eqn:E.
  - apply N.leb_le in E. rewrite zbytes_zeros. cbn [zd zp]. rewrite takeN_app_le by exact E.
    rewrite <- !app_assoc. f_equal. f_equal.
    destruct (N.le_gt_cases (at_ + lenN d) (lenN (zd b))) as [H|H].
    + rewrite dropN_app_le by exact H. f_equal. f_equal. lia.
    + rewrite dropN_app_ge by lia. rewrite (dropN_all _ (zd b)) by lia. rewrite dropN_zeros. cbn [app]. f_equal; lia.
  - apply N.leb_gt in E. rewrite zbytes_zeros. cbn [zd zp].
    rewrite takeN_app_ge by lia. rewrite takeN_zeros. rewrite dropN_app_ge by lia. rewrite dropN_zeros.
    rewrite <- !app_assoc. f_equal. unfold zeros at 1.
    replace (N.to_nat (at_ - lenN (zd b))) with (N.to_nat (N.min (at_ - lenN (zd b)) (zp b))) by lia.
    unfold zeros. f_equal. f_equal. f_equal. lia.
Qed.

Lemma canon_fill b W k d : canon b W k -> lenN d <= k ->
  canon (zfill (lenN W) d b) (W ++ d) (k - lenN d).
Proof.
  unfold canon. intros Hc Hd.
  rewrite zfill_spec by (rewrite zlen_zbytes, Hc, lenN_app, lenN_zeros; lia).
  rewrite Hc. rewrite takeN_app_le by lia. rewrite takeN_all by lia.
  rewrite dropN_app_ge by lia. rewrite dropN_zeros. rewrite <- app_assoc. f_equal. f_equal. f_equal. lia.
Qed.
Lemma canon_take b W k n : canon b W k -> ztake n b = takeN n (W ++ zeros k).
Proof. unfold canon. intros Hc. rewrite ztake_spec, Hc. reflexivity. Qed.
Lemma canon_drop b W k n : canon b W k -> n <= lenN W -> canon (zdrop n b) (dropN n W) k.
Proof. unfold canon. intros Hc Hn. rewrite zdrop_spec, Hc. apply dropN_app_le. exact Hn. Qed.
Lemma canon_init : canon (mkz [] 0) [] 0.
Proof. reflexivity. Qed.
