#!/bin/bash
# usage: coqdbg.sh <file.v> <line>   -- compile the file up to <line> and show the goals there
f=$1; n=$2
head -n $n "$f" > /tmp/dbg_$$.v
echo "Show. " >> /tmp/dbg_$$.v
(cd /verif/coq && coqc -Q . Poster /tmp/dbg_$$.v 2>&1 | grep -v "pending proofs\|^Error: There are" | head -${3:-60})
rm -f /tmp/dbg_$$.v /tmp/dbg_$$.vo /tmp/dbg_$$.glob /tmp/.dbg_$$.aux
