(* C10 / C12: the Context tells request kinds apart by the packet type in the first byte of the encoded request (`ptype_of`).
   Every PUBLISH the encoder builds - any QoS, RETAIN set or not, any other option - has type 3, so the send-quota guard sees
   every QoS>0 publish; no other request has type 3, PUBREL alone has type 6, DISCONNECT alone type 14.
   (Seeded defect C10-9B tested the header with a mask that keeps the RETAIN bit, so retained publishes slipped past the guard.) *)
From Poster Require Import Model.Client Proofs.BytesP.
From Coq Require Import Lia.
Arguments N.add : simpl never. Arguments N.mul : simpl never. Arguments N.sub : simpl never.
Arguments N.leb : simpl never. Arguments N.eqb : simpl never.

Lemma enc_packet_head hdr fs b : enc_packet hdr fs = Ok b -> exists t, b = hdr :: t.
Proof.
  unfold enc_packet. destruct (venc_checked (blen_flds fs)) as [rl| |]; cbn; try discriminate.
  destruct (enc_flds fs) as [body| |]; cbn; try discriminate. intros H. inversion H. eexists. reflexivity.
Qed.

Lemma hdr_type3 q r : q <= 2 -> r <= 1 -> N.shiftr (48 + 0 * 8 + q * 2 + r) 4 = 3.
Proof.
  intros Hq Hr. rewrite N.shiftr_div_pow2. change (2 ^ 4) with 16.
  assert (H : 48 + 0 * 8 + q * 2 + r = 3 * 16 + (q * 2 + r)) by lia. rewrite H.
  rewrite N.div_add_l by lia. rewrite (N.div_small (q * 2 + r) 16) by lia. reflexivity.
Qed.

Theorem publish_type o pid b : po_qos o <= 2 -> enc_publish o pid = Ok b -> ptype_of b = 3.
Proof.
  intros Hq. unfold enc_publish. destruct (po_topic o) as [t|]; [|discriminate]. intros H.
  destruct (enc_packet_head _ _ _ H) as [tl ->]. cbn [ptype_of]. unfold publish_hdr. cbn [b2n].
  apply hdr_type3; [exact Hq|destruct (po_retain o); cbn [b2n]; lia].
Qed.
Theorem subscribe_type o pid sid b : enc_subscribe o pid sid = Ok b -> ptype_of b = 8.
Proof.
  unfold enc_subscribe. destruct (so_filters o); [discriminate|]. destruct (vlen sid); [|discriminate]. intros H.
  destruct (enc_packet_head _ _ _ H) as [tl ->]. reflexivity.
Qed.
Theorem unsubscribe_type o pid b : enc_unsubscribe o pid = Ok b -> ptype_of b = 10.
Proof.
  unfold enc_unsubscribe. destruct (uo_filters o); [discriminate|]. intros H.
  destruct (enc_packet_head _ _ _ H) as [tl ->]. reflexivity.
Qed.
Theorem disconnect_type o b : enc_disconnect o = Ok b -> ptype_of b = 14.
Proof. unfold enc_disconnect. intros H. destruct (enc_packet_head _ _ _ H) as [tl ->]. reflexivity. Qed.
Theorem pingreq_type : ptype_of enc_pingreq = 12. Proof. reflexivity. Qed.
Theorem pubrel_type pid : ptype_of (enc_pubrel pid) = 6. Proof. reflexivity. Qed.
