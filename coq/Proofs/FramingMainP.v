(* C03: RxPacketStream::poll_next emits exactly the reference frames of the byte stream, for every
   chunking of the stream; it returns Pending only with everything consumed and emitted. *)
From Poster Require Import Model.Framing Spec.Frames Proofs.BytesP Proofs.ListP Proofs.VarintP
  Proofs.VarintExtP Proofs.ZbufP Proofs.FramingP.
From Coq Require Import ZArith ZifyN ZifyBool ZifyNat.
Ltac Zify.zify_post_hook ::= Z.div_mod_to_equations.
Arguments N.add : simpl never. Arguments N.mul : simpl never. Arguments N.sub : simpl never.
Arguments N.ltb : simpl never. Arguments N.leb : simpl never. Arguments N.eqb : simpl never.
Arguments N.min : simpl never. Arguments N.div : simpl never.

(* ---- the reference framer ---------------------------------------------------------------------- *)
Lemma noframe_short s : lenN s <= 1 -> noframe s.
Proof.
  destruct s as [|h r]; [intros _; unfold noframe, frame1; exact I|]. rewrite lenN_cons. intros H.
  assert (r = []) by (destruct r; [reflexivity|rewrite lenN_cons in H; lia]). subst r.
  unfold noframe, frame1. change (vdec []) with VInsufficient. exact I.
Qed.

Lemma frame1_ext a e p r : frame1 a = Frame p r -> frame1 (a ++ e) = Frame p (r ++ e).
Proof.
  destruct a as [|h T]; [discriminate|]. unfold frame1. cbn [app].
  destruct (vdec T) as [v l| | |] eqn:Ev; try discriminate.
  destruct (1 + l + v <=? lenN (h :: T)) eqn:El; [|discriminate]. apply N.leb_le in El.
  intros H. inversion H; subst. rewrite (vdec_ext_ok _ e _ _ Ev).
  change (h :: T ++ e) with ((h :: T) ++ e). rewrite lenN_app.
  replace (1 + l + v <=? lenN (h :: T) + lenN e) with true by (symmetry; apply N.leb_le; lia).
  rewrite takeN_app_le, dropN_app_le by exact El. reflexivity.
Qed.

Section Relate.
  (* W = h :: T are the received bytes; the code parses the length over T ++ zero padding *)
  Variables (h : byte) (T : bytes) (k : N).
  Let W := h :: T.

  Lemma rel_emit v l : vdec (T ++ zeros k) = VOk v l -> 1 + l + v <= lenN W ->
    frame1 W = Frame (takeN (1 + l + v) W) (dropN (1 + l + v) W).
  Proof.
    intros Hv Hl. subst W. rewrite lenN_cons in Hl.
    assert (Hr : vdec T = VOk v l) by (eapply vdec_restrict; [exact Hv|lia]).
    unfold frame1. rewrite Hr. rewrite lenN_cons.
    replace (1 + l + v <=? lenN T + 1) with true by (symmetry; apply N.leb_le; lia). reflexivity.
  Qed.
  Lemma rel_wait v l : vdec (T ++ zeros k) = VOk v l -> lenN W < 1 + l + v -> noframe W.
  Proof.
    intros Hv Hl. subst W. unfold noframe, frame1.
    destruct (vdec T) as [v' l'| | |] eqn:E; auto.
    rewrite (vdec_ext_ok _ (zeros k) _ _ E) in Hv. inversion Hv; subst.
    replace (1 + l + v <=? lenN (h :: T)) with false by (symmetry; apply N.leb_gt; exact Hl). exact I.
  Qed.
  Lemma rel_insufficient : vdec (T ++ zeros k) = VInsufficient -> noframe W.
  Proof.
    intros Hv. subst W. unfold noframe, frame1. rewrite (vdec_prefix_insufficient _ _ Hv). exact I.
  Qed.
  Lemma rel_bad e0 : vdec (T ++ zeros k) = VBad -> dead (W ++ e0).
  Proof.
    intros Hv e. subst W. unfold noframe, frame1. cbn [app]. rewrite <- !app_assoc.
    pose proof (vdec_bad_pad _ _ Hv (e0 ++ e)) as Hn.
    destruct (vdec (T ++ e0 ++ e)) as [v l| | |]; auto. exfalso. exact (Hn v l eq_refl).
  Qed.
End Relate.

(* ---- the transport ------------------------------------------------------------------------------ *)
Definition avail (rd : reader) : bytes := concat (segs rd).
Definition nonempty_segs (rd : reader) : Prop := Forall (fun s : bytes => s <> []) (segs rd).
Definition ended (rd : reader) : Prop := r_eof rd = true \/ r_err rd = true.
Definition Phi (rd : reader) : N := lenN (segs rd) + total_len (segs rd) / 512.
Definition need (st : fst8) (rd : reader) : N :=
  4 * Phi rd + match st with Idle => 1 | RData => 2 | RLen => 3 end.

Lemma read_spec cap rd : 512 <= cap -> nonempty_segs rd ->
  match read cap rd with
  | (RGot d, rd') => 1 <= lenN d /\ lenN d <= cap /\ avail rd = d ++ avail rd' /\ nonempty_segs rd' /\
                     r_eof rd' = r_eof rd /\ r_err rd' = r_err rd /\ Phi rd' + 1 <= Phi rd
  | (RPending, rd') => rd' = rd /\ segs rd = [] /\ ~ ended rd
  | (REnd, rd') => rd' = rd /\ segs rd = [] /\ ended rd
  end.
Proof.
  intros Hc Hne. unfold read, avail, nonempty_segs, Phi, ended in *.
  destruct (segs rd) as [|s rest] eqn:Es.
  - destruct (r_err rd) eqn:E1; cbn [orb]; [auto|]. destruct (r_eof rd) eqn:E2; [auto|].
    repeat split; auto. intros [H|H]; discriminate.
  - inversion Hne as [|? ? Hs Hrest]; subst.
    assert (Hpos : 1 <= lenN s) by (destruct s; [contradiction|rewrite lenN_cons; lia]).
    cbn [segs r_eof r_err]. rewrite lenN_takeN.
    replace (N.min (N.min cap (lenN s)) (lenN s)) with (N.min cap (lenN s)) by lia.
    split; [lia|]. split; [lia|].
    destruct (N.min cap (lenN s) <? lenN s) eqn:El.
    + apply N.ltb_lt in El. assert (Hn : N.min cap (lenN s) = cap) by lia. rewrite Hn.
      cbn [concat]. split; [rewrite app_assoc, take_drop; reflexivity|].
      split.
      { constructor; [|exact Hrest]. intros H0. assert (lenN (dropN cap s) = 0) by (rewrite H0; reflexivity).
        rewrite lenN_dropN in H. lia. }
      split; [reflexivity|]. split; [reflexivity|].
      rewrite !lenN_cons. cbn [total_len fold_right]. rewrite lenN_dropN.
      fold (total_len rest). lia.
    + apply N.ltb_ge in El. assert (Hn : N.min cap (lenN s) = lenN s) by lia. rewrite Hn.
      rewrite takeN_all by lia. cbn [concat]. split; [reflexivity|]. split; [exact Hrest|].
      split; [reflexivity|]. split; [reflexivity|].
      rewrite lenN_cons. cbn [total_len fold_right]. fold (total_len rest). lia.
Qed.

(* ---- the invariant -------------------------------------------------------------------------------- *)
Definition Inv (x : rx) (W : bytes) : Prop :=
  exists k, canon (buf x) W k /\ lenN W = size x /\
  match fstate x with
  | Idle => noframe W
  | RLen => 1 <= size x
  | RData => 1 <= size x /\ exists v l, vdec (tl (W ++ zeros k)) = VOk v l /\ pend x = 1 + l + v
  end.

Lemma Inv_init : Inv rx_init [].
Proof. exists 0. split; [apply canon_init|]. split; [reflexivity|]. cbn. exact I. Qed.

Lemma chunk_ge x : 512 <= chunk_of x.
Proof. unfold chunk_of. destruct (pend x - size x <? 512) eqn:E; [lia|]. apply N.ltb_ge in E. lia. Qed.

Lemma tl_takeN {A} n (l : list A) : 1 <= n -> tl (takeN n l) = takeN (n - 1) (tl l).
Proof.
  intros Hn. unfold takeN. destruct (N.to_nat n) as [|m] eqn:E; [lia|].
  replace (N.to_nat (n - 1)) with m by lia. destruct l; [rewrite !firstn_nil; reflexivity|reflexivity].
Qed.
(* what the code parses in ReadPacketLen *)
Lemma rlen_parse b W k : canon b W k -> vdec (tl (ztake 6 b)) = vdec (tl (W ++ zeros k)).
Proof.
  intros Hc. rewrite (canon_take _ _ _ _ Hc). rewrite tl_takeN by lia. change (6 - 1) with 5.
  apply vdec_firstn5.
Qed.

Definition flags_same (rd rd' : reader) : Prop := r_eof rd' = r_eof rd /\ r_err rd' = r_err rd.

Lemma poll_spec fuel : forall x rd W, Inv x W -> nonempty_segs rd -> need (fstate x) rd <= N.of_nat fuel ->
  match fpoll fuel x rd with
  | (FItem p, x', rd') =>
      exists W', Inv x' W' /\ nonempty_segs rd' /\ flags_same rd rd' /\
                 frame1 (W ++ avail rd) = Frame p (W' ++ avail rd')
  | (FPending, x', rd') =>
      Inv x' (W ++ avail rd) /\ fstate x' = Idle /\ segs rd' = [] /\ ~ ended rd' /\ flags_same rd rd'
  | (FEnd, x', rd') =>
      (Inv x' (W ++ avail rd) /\ fstate x' = Idle /\ segs rd' = [] /\ ended rd' /\ flags_same rd rd') \/
      (dead (W ++ avail rd) /\ flags_same rd rd' /\ nonempty_segs rd' /\ exists W', Inv x' W')
  | _ => False
  end.
Proof.
  induction fuel as [|fuel IH]; intros x rd W HI Hne Hf.
  { unfold need in Hf. destruct (fstate x); lia. }
  destruct HI as [k [Hc [Hl Hst]]]. cbn [fpoll].
  destruct (fstate x) eqn:Est.
  - (* Idle *)
    fold (chunk_of x). pose proof (chunk_ge x) as Hch.
    assert (Hcb : canon (zresize (size x + chunk_of x) (buf x)) W (chunk_of x)).
    { replace (chunk_of x) with (size x + chunk_of x - lenN W) at 2 by lia. apply (canon_resize _ _ k); [exact Hc|lia]. }
    pose proof (read_spec (chunk_of x) rd Hch Hne) as Hr.
    destruct (read (chunk_of x) rd) as [[d| |] rd1].
    + destruct Hr as [Hd1 [Hd2 [Hav [Hne1 [He1 [He2 HPhi]]]]]].
      replace (lenN d =? 0) with false by (symmetry; apply N.eqb_neq; lia).
      set (x1 := mkfr (zfill (size x) d (zresize (size x + chunk_of x) (buf x))) (size x + lenN d) (pend x)
                      (if 2 <=? size x + lenN d then RLen else Idle)).
      assert (HI1 : Inv x1 (W ++ d)).
      { exists (chunk_of x - lenN d). subst x1. cbn [buf size fstate]. split.
        - pose proof (canon_fill _ _ _ d Hcb Hd2) as Hfill. rewrite Hl in Hfill. exact Hfill.
        - split; [rewrite lenN_app; lia|]. destruct (2 <=? size x + lenN d) eqn:E2; [lia|].
          apply N.leb_gt in E2. apply noframe_short. rewrite lenN_app. lia. }
      assert (Hf1 : need (fstate x1) rd1 <= N.of_nat fuel).
      { unfold need in *. subst x1. cbn [fstate]. destruct (2 <=? size x + lenN d); lia. }
      specialize (IH x1 rd1 (W ++ d) HI1 Hne1 Hf1).
      rewrite Hav, app_assoc.
      destruct (fpoll fuel x1 rd1) as [[o x'] rd']. destruct o; try exact IH.
      * destruct IH as [W' [H1 [H2 [[H3 H4] H5]]]]. exists W'. unfold flags_same. rewrite H3, H4. auto.
      * destruct IH as [H1 [H2 [H3 [H4 [H5 H6]]]]]. unfold flags_same. rewrite H5, H6. auto 10.
      * destruct IH as [[H1 [H2 [H3 [H4 [H5 H6]]]]]|[H [[H5 H6] H7]]]; [left|right]; unfold flags_same; rewrite H5, H6; auto 10.
    + destruct Hr as [-> [Hs Hen]]. unfold avail. rewrite Hs. cbn [concat]. rewrite app_nil_r.
      split; [|unfold flags_same; auto]. exists (chunk_of x). cbn [buf size fstate]. auto.
    + destruct Hr as [-> [Hs Hen]]. left. unfold avail. rewrite Hs. cbn [concat]. rewrite app_nil_r.
      split; [|unfold flags_same; auto]. exists (chunk_of x). cbn [buf size fstate]. auto.
  - (* ReadPacketLen *)
    rewrite (rlen_parse _ _ _ Hc).
    assert (HW : exists h T, W = h :: T).
    { destruct W as [|h T]; [rewrite lenN_nil in Hl; lia|eauto]. }
    destruct HW as [h [T ->]]. cbn [app tl].
    destruct (vdec (T ++ zeros k)) as [v l| | |] eqn:Ev.
    + set (x1 := mkfr (buf x) (size x) (1 + l + v) RData).
      assert (HI1 : Inv x1 (h :: T)).
      { exists k. subst x1. cbn [buf size fstate pend]. repeat split; try assumption.
        exists v, l. cbn [app tl]. auto. }
      assert (Hf1 : need (fstate x1) rd <= N.of_nat fuel) by (unfold need in *; subst x1; cbn [fstate]; lia).
      exact (IH x1 rd (h :: T) HI1 Hne Hf1).
    + set (x1 := mkfr (buf x) (size x) (pend x) Idle).
      assert (HI1 : Inv x1 (h :: T)).
      { exists k. subst x1. cbn [buf size fstate]. repeat split; try assumption.
        apply (rel_insufficient h T k Ev). }
      assert (Hf1 : need (fstate x1) rd <= N.of_nat fuel) by (unfold need in *; subst x1; cbn [fstate]; lia).
      exact (IH x1 rd (h :: T) HI1 Hne Hf1).
    + right. split; [apply (rel_bad h T k (avail rd) Ev)|]. split; [unfold flags_same; auto|]. split; [exact Hne|].
      exists (h :: T), k. rewrite Est. auto.
    + exact (vdec_no_panic _ Ev).
  - (* ReadPacketData *)
    destruct Hst as [Hs1 [v [l [Hv Hp]]]].
    assert (HW : exists h T, W = h :: T).
    { destruct W as [|h T]; [rewrite lenN_nil in Hl; lia|eauto]. }
    destruct HW as [h [T ->]]. cbn [app tl] in Hv.
    destruct (size x <? pend x) eqn:Esp.
    + apply N.ltb_lt in Esp.
      set (x1 := mkfr (buf x) (size x) (pend x) Idle).
      assert (HI1 : Inv x1 (h :: T)).
      { exists k. subst x1. cbn [buf size fstate]. repeat split; try assumption.
        apply (rel_wait h T k v l Hv). lia. }
      assert (Hf1 : need (fstate x1) rd <= N.of_nat fuel) by (unfold need in *; subst x1; cbn [fstate]; lia).
      exact (IH x1 rd (h :: T) HI1 Hne Hf1).
    + apply N.ltb_ge in Esp.
      exists (dropN (pend x) (h :: T)). split.
      { exists k. cbn [buf size fstate]. split; [apply canon_drop; [exact Hc|lia]|].
        split; [rewrite lenN_dropN; lia|].
        destruct (size x - pend x =? 0) eqn:E0.
        - apply N.eqb_eq in E0. rewrite dropN_all by lia. apply noframe_short. rewrite lenN_nil. lia.
        - apply N.eqb_neq in E0. lia. }
      split; [exact Hne|]. split; [unfold flags_same; auto|].
      rewrite (canon_take _ _ _ _ Hc). rewrite takeN_app_le by lia.
      rewrite Hp. apply frame1_ext. apply (rel_emit h T k v l Hv). lia.
Qed.

(* ---- draining: successive polls until the stream stops yielding ----------------------------------- *)
Fixpoint drain (n : nat) (x : rx) (rd : reader) : list bytes * option (fout * rx * reader) :=
  match n with
  | O => ([], None)
  | S n =>
    match fpoll (poll_fuel rd) x rd with
    | (FItem p, x', rd') => let (ps, e) := drain n x' rd' in (p :: ps, e)
    | other => ([], Some other)
    end
  end.

Lemma poll_fuel_enough st rd : need st rd <= N.of_nat (poll_fuel rd).
Proof. unfold need, poll_fuel, Phi. rewrite N2Nat.id. destruct st; lia. Qed.

Lemma Frames_det s ps r : Frames s ps r -> forall ps' r', Frames s ps' r' -> ps = ps' /\ r = r'.
Proof.
  induction 1 as [s Hn|s p r ps rest Hf Hr IH]; intros ps' r' H'.
  - inversion H' as [s0 Hn'|s0 p' r0 ps0 rest0 Hf' Hr']; subst; [auto|].
    unfold noframe in Hn. rewrite Hf' in Hn. contradiction.
  - inversion H' as [s0 Hn'|s0 p' r0 ps0 rest0 Hf' Hr']; subst.
    + unfold noframe in Hn'. rewrite Hf in Hn'. contradiction.
    + rewrite Hf in Hf'. inversion Hf'; subst. destruct (IH _ _ Hr') as [-> ->]. auto.
Qed.

Theorem drain_frames n : forall x rd W ps o x' rd',
  Inv x W -> nonempty_segs rd -> drain n x rd = (ps, Some (o, x', rd')) ->
  exists rest, Frames (W ++ avail rd) ps rest /\ flags_same rd rd' /\
    match o with
    | FPending => Inv x' rest /\ segs rd' = [] /\ ~ ended rd'
    | FEnd => (Inv x' rest /\ segs rd' = [] /\ ended rd') \/ dead rest
    | _ => False
    end.
Proof.
  induction n as [|n IH]; intros x rd W ps o x' rd' HI Hne Hd; cbn [drain] in Hd; [discriminate|].
  pose proof (poll_spec (poll_fuel rd) x rd W HI Hne (poll_fuel_enough _ _)) as Hp.
  destruct (fpoll (poll_fuel rd) x rd) as [[o1 x1] rd1]. destruct o1 as [p| | | |]; try contradiction.
  - destruct Hp as [W1 [HI1 [Hne1 [[Hf1 Hf2] Hfr]]]].
    destruct (drain n x1 rd1) as [ps1 e1] eqn:Ed. inversion Hd; subst.
    destruct (IH _ _ _ _ _ _ _ HI1 Hne1 Ed) as [rest [HF [[Hg1 Hg2] Ho]]].
    exists rest. split; [eapply FramesCons; eassumption|]. split; [|exact Ho].
    unfold flags_same. rewrite Hg1, Hg2. auto.
  - inversion Hd; subst. destruct Hp as [HI1 [Hst [Hs [Hen Hfl]]]].
    exists (W ++ avail rd). split; [|auto].
    apply FramesStop. destruct HI1 as [k [_ [_ Hm]]]. rewrite Hst in Hm. exact Hm.
  - inversion Hd; subst. destruct Hp as [[HI1 [Hst [Hs [Hen Hfl]]]]|Hdead].
    + exists (W ++ avail rd). split; [|auto].
      apply FramesStop. destruct HI1 as [k [_ [_ Hm]]]. rewrite Hst in Hm. exact Hm.
    + destruct Hdead as [Hdead [Hfl _]]. exists (W ++ avail rd).
      split; [apply FramesStop; specialize (Hdead []); rewrite app_nil_r in Hdead; exact Hdead|].
      split; [exact Hfl|right; exact Hdead].
Qed.

(* a frame has at least two bytes and splits its input *)
Lemma frame1_split s p r : frame1 s = Frame p r -> s = p ++ r /\ 2 <= lenN p.
Proof.
  destruct s as [|h T]; [discriminate|]. unfold frame1.
  destruct (vdec T) as [v l| | |] eqn:Ev; try discriminate.
  destruct (1 + l + v <=? lenN (h :: T)) eqn:El; [|discriminate]. apply N.leb_le in El.
  intros H. inversion H; subst. split; [symmetry; apply take_drop|].
  rewrite lenN_takeN. apply vdec_len in Ev. lia.
Qed.

(* enough polls always reach Pending or End: every item takes at least two bytes of the stream *)
Theorem drain_terminates n : forall x rd W, Inv x W -> nonempty_segs rd ->
  lenN (W ++ avail rd) < 2 * N.of_nat n -> snd (drain n x rd) <> None.
Proof.
  induction n as [|n IH]; intros x rd W HI Hne Hn; [lia|]. cbn [drain].
  pose proof (poll_spec (poll_fuel rd) x rd W HI Hne (poll_fuel_enough _ _)) as Hp.
  destruct (fpoll (poll_fuel rd) x rd) as [[o1 x1] rd1]. destruct o1 as [p| | | |]; try (cbn; discriminate).
  destruct Hp as [W1 [HI1 [Hne1 [_ Hfr]]]]. apply frame1_split in Hfr. destruct Hfr as [Hs Hp2].
  specialize (IH x1 rd1 W1 HI1 Hne1).
  destruct (drain n x1 rd1) as [ps1 e1]. cbn [snd] in *. apply IH.
  rewrite Hs, lenN_app in Hn. lia.
Qed.

(* C03: the packets observed depend on the byte stream only, not on how it is chunked *)
Theorem chunk_independent rd1 rd2 n1 n2 ps1 ps2 e1 e2 :
  nonempty_segs rd1 -> nonempty_segs rd2 -> avail rd1 = avail rd2 ->
  drain n1 rx_init rd1 = (ps1, Some e1) -> drain n2 rx_init rd2 = (ps2, Some e2) -> ps1 = ps2.
Proof.
  intros H1 H2 Ha D1 D2. destruct e1 as [[o1 x1] r1]. destruct e2 as [[o2 x2] r2].
  destruct (drain_frames _ _ _ _ _ _ _ _ Inv_init H1 D1) as [t1 [F1 _]].
  destruct (drain_frames _ _ _ _ _ _ _ _ Inv_init H2 D2) as [t2 [F2 _]].
  cbn [app] in F1, F2. rewrite Ha in F1. destruct (Frames_det _ _ _ F1 _ _ F2) as [E _]. exact E.
Qed.

(* the reference chunking of the property: each packet in a read of its own *)
Lemma Frames_whole ps : Forall whole_packet ps -> Frames (concat ps) ps [].
Proof.
  induction 1 as [|p ps Hp Hps IH]; cbn [concat].
  - apply FramesStop. unfold noframe, frame1. exact I.
  - eapply FramesCons; [|exact IH]. unfold whole_packet in Hp.
    rewrite (frame1_ext p (concat ps) p [] Hp). reflexivity.
Qed.
Theorem same_as_packet_per_read ps rd n qs e :
  Forall whole_packet ps -> nonempty_segs rd -> avail rd = concat ps ->
  drain n rx_init rd = (qs, Some e) -> qs = ps.
Proof.
  intros Hw Hne Ha D. destruct e as [[o x] r].
  destruct (drain_frames _ _ _ _ _ _ _ _ Inv_init Hne D) as [t [F _]]. cbn [app] in F. rewrite Ha in F.
  destruct (Frames_det _ _ _ F _ _ (Frames_whole ps Hw)) as [E _]. exact E.
Qed.
