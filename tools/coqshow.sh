#!/bin/bash
# coqshow.sh <file.v> <line>  : compile a copy of the file truncated after <line> with "Show." appended
f=$1; n=$2; d=$(dirname $f); b=$(basename $f .v)
head -n $n $f > $d/Dbg_$b.v; echo "Show." >> $d/Dbg_$b.v
cd /verif/coq; timeout 300 coqc -Q . Poster $d/Dbg_$b.v 2>&1 | tail -n ${3:-40}; rm -f $d/Dbg_$b.* $d/.Dbg_$b.aux
