(* C05 / C04 at history level: every value that reaches an operation future is one that future can take -
   the acknowledgement of its own type (keyed by type and identifier), a local refusal, or "written" for a
   fire-and-forget request - so no operation future ever hits unreachable!(), in any history. *)
From Poster Require Import Model.Sim Proofs.BytesP Proofs.ListP Proofs.ClientP Proofs.HandshakeP Proofs.AllocP
  Proofs.SimInvP Proofs.OwnP Proofs.ByteRangeP.
From Coq Require Import ZArith ZifyN ZifyBool ZifyNat.
Ltac Zify.zify_post_hook ::= Z.div_mod_to_equations.
Arguments N.add : simpl never. Arguments N.mul : simpl never. Arguments N.sub : simpl never.
Arguments N.ltb : simpl never. Arguments N.leb : simpl never. Arguments N.eqb : simpl never.
Arguments N.div : simpl never.

(* the acknowledgement type a key stands for: the top byte of (type << 24) | (id << 8) *)
Definition key_kind (a : N) : option rxkind :=
  match a / 16777216 with
  | 4 => Some KPuback | 5 => Some KPubrec | 7 => Some KPubcomp | 9 => Some KSuback | 11 => Some KUnsuback
  | 13 => Some KPingresp | _ => None
  end.
Lemma aid_div t pid : pid < 65536 -> aid t pid / 16777216 = t.
Proof. intros H. unfold aid. lia. Qed.

(* what an operation of a given kind waits for in its first / second phase *)
Definition expect (k : opkind) (ph : N) : option rxkind :=
  match k, ph with
  | OPing, 1 => Some KPingresp
  | OUnsub _, 1 => Some KUnsuback
  | OSub _, 1 => Some KSuback
  | OPub po, 1 => if po_qos po =? 0 then None else if po_qos po =? 1 then Some KPuback else Some KPubrec
  | OPub _, 2 => Some KPubcomp
  | _, _ => None
  end.
Definition fire_kind (k : opkind) : Prop := match k with ODisc _ | OPub _ => True | _ => False end.
(* a value an operation of kind k can take on the oneshot of phase ph *)
Definition vok (k : opkind) (ph : N) (v : cval) : Prop :=
  match v with
  | CQuota | CTooBig => True
  | CUnit => ph = 1 /\ fire_kind k
  | CPkt p => expect k ph = Some (rk p) /\ r_pid p < 65536
  end.
Definition chan_ok (k : opkind) (ph : N) (ch : chan) : Prop := match ch with CFull v => vok k ph v | _ => True end.
Definition key_ok (k : opkind) (ph a : N) : Prop := exists r, expect k ph = Some r /\ key_kind a = Some r.
Definition msg_ok (k : opkind) (m : cmsg) : Prop :=
  match m with
  | MFire _ _ => fire_kind k
  | MAwait _ ph a _ => key_ok k ph a
  | MSub _ a _ _ => key_ok k 1 a
  end.

Definition Typed (s : sys) : Prop :=
  (forall i o, alookup i (ops s) = Some o -> chan_ok (o_kind o) 1 (o_ch1 o) /\ chan_ok (o_kind o) 2 (o_ch2 o)) /\
  (forall m i o, In m (msgq s) -> fst (msg_op m) = i -> alookup i (ops s) = Some o -> msg_ok (o_kind o) m) /\
  (forall a i ph o, In (a, (i, ph)) (awaiting (c s)) -> alookup i (ops s) = Some o -> key_ok (o_kind o) ph a).

(* ---- a future never panics on a value it can take -------------------------------------------------------------- *)
Lemma poll_wait1_no_panic s i o : chan_ok (o_kind o) 1 (o_ch1 o) -> ~ In (ODone i RPanic) (snd (poll_wait1 s i o)).
Proof.
  unfold poll_wait1, chan_ok. destruct (o_ch1 o) as [|v|]; [intros _ [H|[]]; discriminate| |].
  - unfold vok. destruct (o_kind o) as [po|so|uo| |d]; destruct v as [|p| |]; cbn [expect fire_kind];
      try (intros _ [H|[]]; discriminate); try (intros [_ []]; fail); try (intros [H _]; discriminate).
    + intros [He Hp]. destruct (po_qos po =? 0); [discriminate|]. destruct (po_qos po =? 1).
      * inversion He as [Hr]; try rewrite <- Hr. destruct (128 <=? r_reason p); intros [H|[]]; discriminate.
      * inversion He as [Hr]; try rewrite <- Hr. destruct (128 <=? r_reason p); [intros [H|[]]; discriminate|].
        destruct (send s _); intros [H|[]]; discriminate.
    + intros [He _]. inversion He as [Hr]; try rewrite <- Hr. intros [H|[]]; discriminate.
    + intros [He _]. inversion He as [Hr]; try rewrite <- Hr. intros [H|[]]; discriminate.
    + intros [He _]. inversion He as [Hr]; try rewrite <- Hr. intros [H|[]]; discriminate.
  - intros _. destruct (o_kind o); intros [H|[]]; discriminate.
Qed.
Lemma poll_wait2_no_panic s i o : chan_ok (o_kind o) 2 (o_ch2 o) -> ~ In (ODone i RPanic) (snd (poll_wait2 s i o)).
Proof.
  unfold poll_wait2, chan_ok. destruct (o_ch2 o) as [|v|]; try (intros _ [H|[]]; discriminate).
  unfold vok. destruct v as [|p| |]; try (intros _ [H|[]]; discriminate).
  - intros [H _]. discriminate.
  - intros [He _]. destruct (o_kind o) as [po|so|uo| |d]; cbn [expect] in He; try discriminate.
    inversion He as [Hr]; try rewrite <- Hr. destruct (128 <=? r_reason p); intros [H|[]]; discriminate.
Qed.

(* ---- preservation --------------------------------------------------------------------------------------------------- *)
Lemma Typed_core s s' : core s' = core s -> Typed s -> Typed s'.
Proof.
  unfold core. intros H. assert (H1 : ops s' = ops s) by congruence. assert (H2 : msgq s' = msgq s) by congruence.
  assert (H3 : awaiting (c s') = awaiting (c s)) by congruence. unfold Typed. rewrite H1, H2, H3. auto.
Qed.

Lemma expect_ph k ph r : expect k ph = Some r -> ph = 1 \/ ph = 2.
Proof.
  destruct (N.eq_dec ph 1) as [->|H1]; [auto|]. destruct (N.eq_dec ph 2) as [->|H2]; [auto|].
  intros H. exfalso. destruct k; cbn [expect] in H; try discriminate H;
    repeat match type of H with context [match ?x with _ => _ end] => is_var x; destruct x; try discriminate H; try (exfalso; lia) end.
Qed.
Lemma expect_nph k ph r : expect k ph = Some r -> nph ph = ph.
Proof. intros H. destruct (expect_ph k ph r H) as [-> | ->]; reflexivity. Qed.

Lemma complete_typed s i ph v : Typed s -> (forall o, alookup i (ops s) = Some o -> vok (o_kind o) (nph ph) v) ->
  Typed (complete s i ph v).
Proof.
  intros [T1 [T2 T3]] Hv. unfold complete. destruct (alookup i (ops s)) as [o0|] eqn:E0; [|exact (conj T1 (conj T2 T3))].
  specialize (Hv o0 eq_refl). destruct (T1 i o0 E0) as [C1 C2].
  assert (Hk : forall j o, alookup j (aset i (if ph =? 1 then mkop (o_kind o0) (o_phase o0) (fill_chan (o_ch1 o0) v) (o_ch2 o0) (o_pid o0)
                                                else mkop (o_kind o0) (o_phase o0) (o_ch1 o0) (fill_chan (o_ch2 o0) v) (o_pid o0)) (ops s)) = Some o ->
                 exists o', alookup j (ops s) = Some o' /\ o_kind o = o_kind o').
  { intros j o Hl. rewrite alookup_aset in Hl. destruct (i =? j) eqn:Ei.
    - apply N.eqb_eq in Ei. subst j. inversion Hl. exists o0. split; [exact E0|]. destruct (ph =? 1); reflexivity.
    - exists o. auto. }
  unfold Typed. cbn [ops msgq c set_ops]. split; [|split].
  - intros j o Hl. rewrite alookup_aset in Hl. destruct (i =? j) eqn:Ei; [|apply T1 with j; exact Hl].
    inversion Hl; subst o. unfold nph in Hv. destruct (ph =? 1); cbn [o_kind o_ch1 o_ch2];
      (split; [|]); try assumption; unfold chan_ok, fill_chan; [destruct (o_ch1 o0)|destruct (o_ch2 o0)]; auto.
  - intros m j o Hin Hj Hl. destruct (Hk j o Hl) as [o' [Hl' Hkk]]. rewrite Hkk. eapply T2; eassumption.
  - intros a j ph' o Hin Hl. destruct (Hk j o Hl) as [o' [Hl' Hkk]]. rewrite Hkk. eapply T3; eassumption.
Qed.
Lemma cancel_typed s i ph : Typed s -> Typed (cancel s i ph).
Proof.
  intros [T1 [T2 T3]]. unfold cancel. destruct (alookup i (ops s)) as [o0|] eqn:E0; [|exact (conj T1 (conj T2 T3))].
  destruct (T1 i o0 E0) as [C1 C2].
  assert (Hk : forall j o, alookup j (aset i (if ph =? 1 then mkop (o_kind o0) (o_phase o0) (gone_chan (o_ch1 o0)) (o_ch2 o0) (o_pid o0)
                                                else mkop (o_kind o0) (o_phase o0) (o_ch1 o0) (gone_chan (o_ch2 o0)) (o_pid o0)) (ops s)) = Some o ->
                 exists o', alookup j (ops s) = Some o' /\ o_kind o = o_kind o').
  { intros j o Hl. rewrite alookup_aset in Hl. destruct (i =? j) eqn:Ei.
    - apply N.eqb_eq in Ei. subst j. inversion Hl. exists o0. split; [exact E0|]. destruct (ph =? 1); reflexivity.
    - exists o. auto. }
  unfold Typed. cbn [ops msgq c set_ops]. split; [|split].
  - intros j o Hl. rewrite alookup_aset in Hl. destruct (i =? j) eqn:Ei; [|apply T1 with j; exact Hl].
    inversion Hl; subst o. destruct (ph =? 1); cbn [o_kind o_ch1 o_ch2];
      (split; [|]); try assumption; unfold chan_ok, gone_chan; [destruct (o_ch1 o0)|destruct (o_ch2 o0)]; auto.
  - intros m j o Hin Hj Hl. destruct (Hk j o Hl) as [o' [Hl' Hkk]]. rewrite Hkk. eapply T2; eassumption.
  - intros a j ph' o Hin Hl. destruct (Hk j o Hl) as [o' [Hl' Hkk]]. rewrite Hkk. eapply T3; eassumption.
Qed.
(* registering an awaited acknowledgement *)
Lemma await_typed s a i ph s' : Typed s -> (forall o, alookup i (ops s) = Some o -> key_ok (o_kind o) ph a) ->
  ops s' = ops s -> msgq s' = msgq s -> awaiting (c s') = awaiting (c s) ++ [(a, (i, ph))] -> Typed s'.
Proof.
  intros [T1 [T2 T3]] Hk H1 H2 H3. unfold Typed. rewrite H1, H2, H3. split; [exact T1|]. split; [exact T2|].
  intros a' j ph' o Hin Hl. apply in_app_or in Hin. destruct Hin as [Hin|[Hin|[]]]; [eapply T3; eassumption|].
  inversion Hin; subst. apply Hk. exact Hl.
Qed.
Lemma Typed_pop s m q : Typed s -> msgq s = m :: q -> Typed (set_msgq s q).
Proof.
  intros [T1 [T2 T3]] Hq. unfold Typed. cbn [ops msgq c set_msgq]. split; [exact T1|]. split; [|exact T3].
  intros m' i o Hin. apply T2. rewrite Hq. right. exact Hin.
Qed.

Lemma key_kind_aid t pid : pid < 65536 ->
  key_kind (aid t pid) = match t with 4 => Some KPuback | 5 => Some KPubrec | 7 => Some KPubcomp | 9 => Some KSuback
                                    | 11 => Some KUnsuback | 13 => Some KPingresp | _ => None end.
Proof. intros H. unfold key_kind. rewrite aid_div by exact H. reflexivity. Qed.

(* ---- the context's handlers ----------------------------------------------------------------------------------------- *)
Lemma handle_message_typed s m : Typed s ->
  (forall o, alookup (fst (msg_op m)) (ops s) = Some o -> msg_ok (o_kind o) m) ->
  Typed (fst (handle_message s m)).
Proof.
  intros HT Hm. unfold handle_message. cbv zeta.
  assert (Hw : forall s0 p, Typed s0 -> Typed (fst (write s0 p))) by (intros s0 p H; eapply Typed_core; [apply core_write|exact H]).
  destruct m as [i p|i ph a p|i a sid p]; cbn [msg_op fst snd msg_ok] in Hm.
  - destruct (negb (size_ok (c s) p)); cbn [fst]; [apply complete_typed; [exact HT|intros; exact I]|].
    destruct (negb (snd (write s p))); cbn [fst]; [apply cancel_typed; apply Hw; exact HT|].
    apply complete_typed; [apply Hw; exact HT|]. intros o Hl. cbn [nph vok]. split; [reflexivity|].
    apply Hm. pose proof (core_write s p) as Hc. unfold core in Hc. assert (ops (fst (write s p)) = ops s) by congruence. congruence.
  - destruct (negb (size_ok (c s) p)); cbn [fst]; [apply complete_typed; [exact HT|intros; exact I]|].
    assert (Hreg : forall s0 x, core s0 = core s -> ops (set_c s0 x) = ops s0 -> msgq (set_c s0 x) = msgq s0 ->
                   awaiting x = awaiting (c s0) ++ [(a, (i, ph))] -> Typed (set_c s0 x)).
    { intros s0 x Hc _ _ Hx. assert (HT0 : Typed s0) by (eapply Typed_core; eassumption).
      unfold core in Hc. assert (Ho : ops s0 = ops s) by congruence.
      eapply (await_typed s0 a i ph); [exact HT0| |reflexivity|reflexivity|exact Hx].
      intros o Hl. apply Hm. rewrite <- Ho. exact Hl. }
    destruct (ptype_of p =? 3).
    + destruct (quota (c s) =? 0); cbn [fst]; [apply complete_typed; [exact HT|intros; exact I]|].
      set (s0 := set_c s (with_quota (c s) (quota (c s) - 1))).
      assert (Hc0 : core (fst (write s0 p)) = core s) by (rewrite core_write; reflexivity).
      destruct (negb (snd (write s0 p))); cbn [fst]; [apply cancel_typed; eapply Typed_core; eassumption|].
      apply Hreg; try reflexivity. exact Hc0.
    + destruct (ptype_of p =? 6); (assert (Hc0 : core (fst (write s p)) = core s) by apply core_write);
        destruct (negb (snd (write s p))); cbn [fst]; try (apply cancel_typed; eapply Typed_core; eassumption);
        apply Hreg; try reflexivity; exact Hc0.
  - destruct (negb (size_ok (c s) p)); cbn [fst].
    + eapply Typed_core; [apply core_close|]. apply complete_typed; [exact HT|intros; exact I].
    + eapply Typed_core; [apply core_write|].
      eapply (await_typed s a i 1); [exact HT| |reflexivity|reflexivity|reflexivity]. exact Hm.
Qed.

Lemma in_aremove_sub' {A} (x : N * A) k l : In x (aremove k l) -> In x l.
Proof.
  induction l as [|[k' a'] l IH]; cbn [aremove]; [auto|]. destruct (k' =? k); [intros H; right; exact H|].
  intros [H|H]; [left; exact H|right; apply IH; exact H].
Qed.
Lemma ack_waiter_typed s0 a p r : Typed s0 -> key_kind a = Some r -> rk p = r -> r_pid p < 65536 -> Typed (ack_waiter s0 a p).
Proof.
  intros HT Hk Hr Hp. unfold ack_waiter. destruct (alookup a (awaiting (c s0))) as [[i ph]|] eqn:El; [|exact HT].
  destruct HT as [T1 [T2 T3]].
  set (s1 := set_c s0 (with_awaiting (c s0) (aremove a (awaiting (c s0))))).
  assert (HT1 : Typed s1).
  { unfold Typed. cbn [ops msgq c set_c awaiting with_awaiting s1]. split; [exact T1|]. split; [exact T2|].
    intros a' j ph' o Hin. apply T3. eapply in_aremove_sub'. exact Hin. }
  apply complete_typed; [exact HT1|]. intros o Hl. cbn [ops set_c s1] in Hl.
  destruct (T3 a i ph o (alookup_in _ _ _ El) Hl) as [r' [He Hk']]. rewrite Hk in Hk'. inversion Hk'; subst r'.
  rewrite (expect_nph _ _ _ He). cbn [vok]. rewrite Hr. auto.
Qed.

Lemma handle_packet_typed s p : Typed s -> r_pid p < 65536 -> Typed (fst (handle_packet s p)).
Proof.
  intros HT Hp. unfold handle_packet. cbv zeta.
  assert (Hc : forall s0, core s0 = core s -> Typed s0) by (intros s0 H; eapply Typed_core; eassumption).
  assert (Hpid0 : (0 : N) < 65536) by lia.
  destruct (rk p) eqn:K; cbn [fst]; try exact HT.
  - (* publish *)
    apply Hc. destruct (r_qos p =? 0); cbn [fst]; rewrite ?core_write;
      repeat match goal with
      | |- context [if ?b then _ else _] => destruct b
      | |- context [match pub_subid p with _ => _ end] => destruct (pub_subid p)
      end; rewrite ?core_dispatch; reflexivity.
  - eapply (ack_waiter_typed _ _ p KPuback); [apply Hc; unfold core, bump_quota; destruct (quota (c s) =? rmax (c s)); reflexivity| |exact K|exact Hp].
    apply key_kind_aid. exact Hp.
  - eapply (ack_waiter_typed _ _ p KPubrec); [apply Hc; unfold core, bump_quota; destruct (128 <=? r_reason p); [destruct (quota (c s) =? rmax (c s))|]; reflexivity| |exact K|exact Hp].
    apply key_kind_aid. exact Hp.
  - apply Hc. rewrite core_write. reflexivity.
  - eapply (ack_waiter_typed _ _ p KPubcomp); [apply Hc; unfold core, bump_quota; destruct (quota (c s) =? rmax (c s)); reflexivity| |exact K|exact Hp].
    apply key_kind_aid. exact Hp.
  - eapply (ack_waiter_typed _ _ p KSuback); [exact HT| |exact K|exact Hp]. apply key_kind_aid. exact Hp.
  - eapply (ack_waiter_typed _ _ p KUnsuback); [exact HT| |exact K|exact Hp]. apply key_kind_aid. exact Hp.
  - eapply (ack_waiter_typed _ _ p KPingresp); [exact HT| |exact K|exact Hp]. apply (key_kind_aid 13 0). exact Hpid0.
Qed.

(* ---- the handle side --------------------------------------------------------------------------------------------------- *)
Lemma put_same_kind s s1 i o o' : Typed s -> alookup i (ops s) = Some o -> o_kind o' = o_kind o ->
  o_ch1 o' = o_ch1 o -> o_ch2 o' = o_ch2 o ->
  ops s1 = ops s -> awaiting (c s1) = awaiting (c s) ->
  (forall m, In m (msgq s1) -> In m (msgq s) \/ (fst (msg_op m) = i /\ msg_ok (o_kind o) m)) ->
  Typed (put_op s1 i o').
Proof.
  intros [T1 [T2 T3]] Hl Hk Hc1 Hc2 Ho Ha Hm. unfold Typed, put_op. cbn [ops msgq c set_ops]. rewrite Ho, Ha.
  assert (Hkk : forall j oj, alookup j (aset i o' (ops s)) = Some oj -> exists o0, alookup j (ops s) = Some o0 /\ o_kind oj = o_kind o0 /\
                 o_ch1 oj = o_ch1 o0 /\ o_ch2 oj = o_ch2 o0).
  { intros j oj H. rewrite alookup_aset in H. destruct (i =? j) eqn:E.
    - apply N.eqb_eq in E. subst j. inversion H; subst oj. exists o. auto.
    - exists oj. auto. }
  split; [|split].
  - intros j oj H. destruct (Hkk j oj H) as [o0 [H0 [K [C1 C2]]]]. rewrite K, C1, C2. apply T1 with j. exact H0.
  - intros m j oj Hin Hj H. destruct (Hkk j oj H) as [o0 [H0 [K _]]]. rewrite K.
    destruct (Hm m Hin) as [Hin0|[Hi Hok]]; [eapply T2; eassumption|].
    assert (Hji : j = i) by congruence. rewrite Hji in H0. rewrite Hl in H0. inversion H0; subst o0. exact Hok.
  - intros a j ph oj Hin H. destruct (Hkk j oj H) as [o0 [H0 [K _]]]. rewrite K. eapply T3; eassumption.
Qed.

Lemma finish_typed s s1 i o r : Typed s -> alookup i (ops s) = Some o -> core s1 = core s -> Typed (fst (finish s1 i o r)).
Proof.
  intros HT Hl Hc. unfold finish. cbn [fst]. unfold core in Hc.
  eapply (put_same_kind s s1 i o); try reflexivity; try eassumption; try congruence.
  intros m Hin. left. assert (msgq s1 = msgq s) by congruence. congruence.
Qed.
Lemma enqueue_typed s s1 i o ph' pid m : Typed s -> alookup i (ops s) = Some o ->
  ops s1 = ops s -> msgq s1 = msgq s -> awaiting (c s1) = awaiting (c s) ->
  fst (msg_op m) = i -> msg_ok (o_kind o) m ->
  Typed (fst (match send s1 m with Some s2 => pending s2 i o ph' pid | None => finish s1 i o RErrExited end)).
Proof.
  intros HT Hl H1 H2 H3 Hi Hok. unfold send. destruct (ctx_alive s1).
  - unfold pending. cbn [fst]. eapply (put_same_kind s _ i o); try reflexivity; try eassumption.
    intros m0 Hin. cbn [msgq set_msgq] in Hin. apply in_app_or in Hin. destruct Hin as [Hin|[<-|[]]]; [left; congruence|right; auto].
  - unfold finish. cbn [fst]. eapply (put_same_kind s s1 i o); try reflexivity; try eassumption.
    intros m0 Hin. left. congruence.
Qed.

Lemma first_poll_typed s i o : Typed s -> alookup i (ops s) = Some o -> pid_ctr s < 65536 -> Typed (fst (first_poll s i o)).
Proof.
  intros HT Hl Hctr. unfold first_poll. cbv zeta.
  assert (Hfin : forall s1 r, core s1 = core s -> Typed (fst (finish s1 i o r))) by (intros; eapply finish_typed; eassumption).
  assert (Hpid : fst (alloc_pid (pid_ctr s)) < 65536).
  { destruct (alloc_pid_spec (pid_ctr s) Hctr) as [H1 _]. rewrite H1. unfold norm. destruct (pid_ctr s =? 0); lia. }
  destruct (o_kind o) as [po|so|uo| |d] eqn:K.
  - destruct (po_qos po =? 0) eqn:Q0.
    + destruct (enc_publish po 0); [|apply Hfin; reflexivity|apply Hfin; reflexivity].
      eapply (enqueue_typed s s i o); try reflexivity; try eassumption. rewrite K. exact I.
    + destruct (alloc_pid (pid_ctr s)) as [pid ctr] eqn:Ea. cbn [fst] in Hpid.
      destruct (enc_publish po pid); [|apply Hfin; reflexivity|apply Hfin; reflexivity].
      eapply (enqueue_typed s _ i o); try reflexivity; try eassumption. rewrite K. cbn [msg_ok]. unfold key_ok. cbn [expect]. rewrite Q0.
      destruct (po_qos po =? 1); eexists; (split; [reflexivity|]); rewrite key_kind_aid by exact Hpid; reflexivity.
  - destruct (alloc_pid (pid_ctr s)) as [pid ctr] eqn:Ea. cbn [fst] in Hpid. destruct (alloc_subid (sub_ctr s)) as [sid sctr].
    destruct (enc_subscribe so pid sid); [|apply Hfin; reflexivity|apply Hfin; reflexivity].
    match goal with |- context [send ?s1 ?m] =>
      pose proof (enqueue_typed s s1 i o Wait1 pid m HT Hl eq_refl eq_refl eq_refl eq_refl) as He;
      destruct (send s1 m) as [s2|] eqn:Es end.
    + apply He. rewrite K. cbn [msg_ok]. exists KSuback. split; [reflexivity|]. rewrite key_kind_aid by exact Hpid. reflexivity.
    + apply Hfin. reflexivity.
  - destruct (alloc_pid (pid_ctr s)) as [pid ctr] eqn:Ea. cbn [fst] in Hpid.
    destruct (enc_unsubscribe uo pid); [|apply Hfin; reflexivity|apply Hfin; reflexivity].
    eapply (enqueue_typed s _ i o); try reflexivity; try eassumption. rewrite K. cbn [msg_ok].
    exists KUnsuback. split; [reflexivity|]. rewrite key_kind_aid by exact Hpid. reflexivity.
  - eapply (enqueue_typed s s i o); try reflexivity; try eassumption. rewrite K. cbn [msg_ok].
    exists KPingresp. split; [reflexivity|]. apply (key_kind_aid 13 0). lia.
  - destruct (enc_disconnect d); [|apply Hfin; reflexivity|apply Hfin; reflexivity].
    eapply (enqueue_typed s s i o); try reflexivity; try eassumption. rewrite K. exact I.
Qed.

Lemma poll_wait1_typed s i o : Typed s -> alookup i (ops s) = Some o -> Typed (fst (poll_wait1 s i o)).
Proof.
  intros HT Hl. unfold poll_wait1.
  assert (Hfin : forall s1 r, core s1 = core s -> Typed (fst (finish s1 i o r))) by (intros; eapply finish_typed; eassumption).
  destruct (o_ch1 o) as [|v|] eqn:Ec; [exact HT| |].
  - destruct (o_kind o) as [po|so|uo| |d] eqn:K; destruct v as [|p| |];
      try (apply Hfin; rewrite ?core_drop_recv; reflexivity);
      try (destruct (rk p); apply Hfin; reflexivity).
    destruct (po_qos po =? 1) eqn:Q1; destruct (rk p) eqn:R; try (apply Hfin; reflexivity);
      try (destruct (128 <=? r_reason p); apply Hfin; reflexivity).
    destruct (128 <=? r_reason p); [apply Hfin; reflexivity|].
    destruct HT as [T1 T23]. destruct (T1 i o Hl) as [C1 _]. rewrite Ec, K in C1. cbn [chan_ok vok] in C1. destruct C1 as [_ Hp].
    eapply (enqueue_typed s s i o); try reflexivity; try eassumption; [exact (conj T1 T23)|].
    rewrite K. cbn [msg_ok]. exists KPubcomp. split; [reflexivity|]. rewrite key_kind_aid by exact Hp. reflexivity.
  - destruct (o_kind o); apply Hfin; rewrite ?core_drop_recv; reflexivity.
Qed.
Lemma poll_wait2_typed s i o : Typed s -> alookup i (ops s) = Some o -> Typed (fst (poll_wait2 s i o)).
Proof.
  intros HT Hl. unfold poll_wait2.
  assert (Hfin : forall r, Typed (fst (finish s i o r))) by (intros; eapply finish_typed; try eassumption; reflexivity).
  destruct (o_ch2 o) as [|v|]; [exact HT| |apply Hfin].
  destruct v as [|p| |]; try apply Hfin. destruct (rk p); apply Hfin.
Qed.
Lemma poll_op_typed s i : Typed s -> pid_ctr s < 65536 -> Typed (fst (poll_op s i)).
Proof.
  intros HT Hc. unfold poll_op. destruct (alookup i (ops s)) as [o|] eqn:El; [|exact HT].
  destruct (o_phase o); [apply first_poll_typed|apply poll_wait1_typed|apply poll_wait2_typed|]; assumption.
Qed.
(* and no poll of a typed state reports an unreachable!() of the operation futures (encoders aside) *)
Lemma poll_op_no_unreachable s i o : Typed s -> alookup i (ops s) = Some o -> o_phase o <> NotStarted ->
  ~ In (ODone i RPanic) (snd (poll_op s i)).
Proof.
  intros [T1 _] Hl Hp. unfold poll_op. rewrite Hl. destruct (T1 i o Hl) as [C1 C2].
  destruct (o_phase o); [contradiction|apply poll_wait1_no_panic; exact C1|apply poll_wait2_no_panic; exact C2|].
  intros [H|[]]; discriminate.
Qed.

(* ---- the combined invariant over script events --------------------------------------------------------------------- *)
Definition TI (s : sys) : Prop :=
  Typed s /\ pid_ctr s < 65536 /\ ZB (buf (fr s)) /\ RB (rd s).

(* pid counter: only the first poll of an operation touches it *)
Lemma ctr_complete s i ph v : pid_ctr (complete s i ph v) = pid_ctr s.
Proof. unfold complete. destruct (alookup i (ops s)); reflexivity. Qed.
Lemma ctr_cancel s i ph : pid_ctr (cancel s i ph) = pid_ctr s.
Proof. unfold cancel. destruct (alookup i (ops s)); reflexivity. Qed.
Lemma ctr_write s p : pid_ctr (fst (write s p)) = pid_ctr s.
Proof. unfold write. destruct (wbudget s); [destruct (_ <=? _)|]; reflexivity. Qed.
Lemma ctr_close s j : pid_ctr (close_stream_sender s j) = pid_ctr s.
Proof. unfold close_stream_sender. destruct (alookup j (streams s)); reflexivity. Qed.
Lemma ctr_ack_waiter s a p : pid_ctr (ack_waiter s a p) = pid_ctr s.
Proof. unfold ack_waiter. destruct (alookup a (awaiting (c s))) as [[i ph]|]; [|reflexivity]. rewrite ctr_complete. reflexivity. Qed.
Lemma ctr_dispatch s sid p : pid_ctr (dispatch s sid p) = pid_ctr s.
Proof.
  unfold dispatch. destruct (alookup sid (subs (c s))) as [j|]; [|reflexivity].
  destruct (alookup j (streams s)) as [st|]; [destruct (st_recv st)|]; rewrite ?ctr_close; reflexivity.
Qed.
Lemma ctr_handle_packet s p : pid_ctr (fst (handle_packet s p)) = pid_ctr s.
Proof.
  unfold handle_packet. cbv zeta. destruct (rk p); cbn [fst]; rewrite ?ctr_ack_waiter, ?ctr_write; try reflexivity.
  destruct (r_qos p =? 0); cbn [fst]; rewrite ?ctr_write;
    repeat match goal with
    | |- context [if ?b then _ else _] => destruct b
    | |- context [match pub_subid p with _ => _ end] => destruct (pub_subid p)
    end; rewrite ?ctr_dispatch; reflexivity.
Qed.
Lemma ctr_handle_message s m : pid_ctr (fst (handle_message s m)) = pid_ctr s.
Proof.
  unfold handle_message. cbv zeta. destruct m as [i p|i ph a p|i a sid p].
  - destruct (negb (size_ok (c s) p)); cbn [fst]; [apply ctr_complete|].
    destruct (negb (snd (write s p))); cbn [fst]; rewrite ?ctr_cancel, ?ctr_complete, ?ctr_write; reflexivity.
  - destruct (negb (size_ok (c s) p)); cbn [fst]; [apply ctr_complete|].
    destruct (ptype_of p =? 3).
    + destruct (quota (c s) =? 0); cbn [fst]; [apply ctr_complete|].
      destruct (negb (snd (write _ p))); cbn [fst]; rewrite ?ctr_cancel; cbn [pid_ctr set_c]; rewrite ?ctr_write; reflexivity.
    + destruct (ptype_of p =? 6); destruct (negb (snd (write s p))); cbn [fst]; rewrite ?ctr_cancel; cbn [pid_ctr set_c];
        rewrite ?ctr_write; reflexivity.
  - destruct (negb (size_ok (c s) p)); cbn [fst]; rewrite ?ctr_close, ?ctr_complete, ?ctr_write; reflexivity.
Qed.

Lemma TI_same s s' : core s' = core s -> pid_ctr s' = pid_ctr s -> rd s' = rd s -> fr s' = fr s -> TI s -> TI s'.
Proof.
  intros Hc Hp Hr Hf [T [P [Z R]]]. unfold TI. rewrite Hp, Hr, Hf.
  split; [eapply Typed_core; eassumption|auto].
Qed.

Lemma TI_run_turn s : TI s -> TI (fst (run_turn s)).
Proof.
  intros [T [P [Z R]]]. unfold run_turn. pose proof (fpoll_B256 (poll_fuel (rd s)) (fr s) (rd s) Z R) as Hf.
  destruct (fpoll (poll_fuel (rd s)) (fr s) (rd s)) as [[o f] r].
  assert (Hset : ZB (buf f) /\ RB r -> TI (set_io s r f)).
  { intros [Z' R']. unfold TI. cbn [pid_ctr fr rd set_io]. split; [eapply Typed_core; [|exact T]; reflexivity|]. split; [exact P|]. split; assumption. }
  assert (Hexit : forall s0 res, TI s0 -> TI (exit_run s0 res)) by (intros s0 res H; eapply TI_same; [| | | |exact H]; reflexivity).
  destruct o as [bs| | | |]; try (cbn [fst]; apply Hexit; apply Hset; exact Hf).
  - destruct Hf as [Hb [Z' R']]. pose proof (Hset (conj Z' R')) as HT1.
    destruct (dec_packet bs) as [p| |] eqn:Ed; try (cbn [fst]; apply Hexit; exact HT1).
    assert (HT2 : TI (fst (handle_packet (set_io s r f) p))).
    { destruct HT1 as [T1 [P1 [Z1 R1]]]. pose proof (io_handle_packet (set_io s r f) p) as Hio. unfold io in Hio.
      assert (I1 : rd (fst (handle_packet (set_io s r f) p)) = rd (set_io s r f)) by congruence.
      assert (I2 : fr (fst (handle_packet (set_io s r f) p)) = fr (set_io s r f)) by congruence.
      unfold TI. rewrite ctr_handle_packet, I1, I2.
      split; [apply handle_packet_typed; [exact T1|exact (dec_packet_pid bs p Hb Ed)]|]. auto. }
    destruct (handle_packet (set_io s r f) p) as [s1 a]. cbn [fst] in *. destruct a; cbn [fst]; [exact HT2|apply Hexit; exact HT2].
  - pose proof (Hset Hf) as HT1. destruct (msgq (set_io s r f)) as [|m q] eqn:Eq.
    + destruct (live_senders (set_io s r f) =? 0); cbn [fst]; [apply Hexit|]; exact HT1.
    + assert (HT2 : TI (fst (handle_message (set_msgq (set_io s r f) q) m))).
      { destruct HT1 as [T1 [P1 [Z1 R1]]]. pose proof (io_handle_message (set_msgq (set_io s r f) q) m) as Hio. unfold io in Hio.
        assert (I1 : rd (fst (handle_message (set_msgq (set_io s r f) q) m)) = rd (set_msgq (set_io s r f) q)) by congruence.
        assert (I2 : fr (fst (handle_message (set_msgq (set_io s r f) q) m)) = fr (set_msgq (set_io s r f) q)) by congruence.
        unfold TI. rewrite ctr_handle_message, I1, I2.
        split; [|auto].
        apply handle_message_typed; [eapply Typed_pop; eassumption|].
        intros o Hl. destruct T1 as [_ [T2 _]]. apply (T2 m (fst (msg_op m)) o); [rewrite Eq; left; reflexivity|reflexivity|exact Hl]. }
      destruct (handle_message (set_msgq (set_io s r f) q) m) as [s1 a]. cbn [fst] in *.
      destruct a; cbn [fst]; [exact HT2|apply Hexit; exact HT2].
Qed.
Lemma TI_conn_turn s : TI s -> TI (conn_turn s).
Proof.
  intros [T [P [Z R]]]. unfold conn_turn. pose proof (fpoll_B256 (poll_fuel (rd s)) (fr s) (rd s) Z R) as Hf.
  destruct (fpoll (poll_fuel (rd s)) (fr s) (rd s)) as [[o f] r].
  assert (Hset : ZB (buf f) /\ RB r -> TI (set_io s r f)).
  { intros [Z' R']. unfold TI. cbn [pid_ctr fr rd set_io]. split; [eapply Typed_core; [|exact T]; reflexivity|]. split; [exact P|]. split; assumption. }
  destruct o as [bs| | | |]; try (eapply TI_same; [| | | |apply Hset; exact Hf]; reflexivity).
  destruct Hf as [Hb Hf]. destruct (dec_packet bs) as [p| |]; try (eapply TI_same; [| | | |apply Hset; exact Hf]; reflexivity).
  destruct (rk p); eapply TI_same; try (apply Hset; exact Hf); reflexivity.
Qed.
Lemma TI_settle_loop fuel : forall s, TI s -> TI (settle_loop fuel s).
Proof.
  induction fuel as [|fuel IH]; intros s H; cbn [settle_loop]; [exact H|].
  destruct (cph s); [exact H|apply TI_conn_turn; exact H|].
  pose proof (TI_run_turn s H) as H1. destruct (run_turn s) as [s1 t]. cbn [fst] in H1. destruct t; [exact H1|apply IH; exact H1].
Qed.
Lemma TI_settle s : TI s -> TI (settle s).
Proof. intros H. unfold settle. destruct (hold s || negb (ctx_alive s)); [exact H|apply TI_settle_loop; exact H]. Qed.

(* ---- every script event ------------------------------------------------------------------------------------------------- *)
(* well-formedness of a script, checked along the run: operations are started under indices nothing refers
   to (the model identifies an operation future with its index), the transport delivers bytes, and the
   harness's batch event is not used *)
Definition ev_typed (s : sys) (e : event) : Prop :=
  match e with
  | EStart i _ _ => (forall a ph, ~ In (a, (i, ph)) (awaiting (c s))) /\ (forall m, In m (msgq s) -> fst (msg_op m) <> i)
  | EDeliver b => B256 b
  | ESpin _ _ _ _ => False
  | _ => True
  end.

Lemma ctr_poll_op s i : pid_ctr s < 65536 -> pid_ctr (fst (poll_op s i)) < 65536.
Proof.
  intros P. unfold poll_op. destruct (alookup i (ops s)) as [o|]; [|exact P].
  destruct (o_phase o); try exact P.
  - unfold first_poll. cbv zeta.
    assert (Ha : snd (alloc_pid (pid_ctr s)) < 65536) by (apply alloc_pid_range; exact P).
    assert (Henq : forall s1 pid m, pid_ctr s1 < 65536 ->
       pid_ctr (fst (match send s1 m with Some s2 => pending s2 i o Wait1 pid | None => finish s1 i o RErrExited end)) < 65536).
    { intros s1 pid m H1. unfold send. destruct (ctx_alive s1); exact H1. }
    destruct (o_kind o) as [po|so|uo| |d].
    + destruct (po_qos po =? 0).
      * destruct (enc_publish po 0); [apply Henq|cbn|cbn]; exact P.
      * destruct (alloc_pid (pid_ctr s)) as [pid ctr]. cbn [snd] in Ha.
        destruct (enc_publish po pid); [apply Henq|cbn|cbn]; exact Ha.
    + destruct (alloc_pid (pid_ctr s)) as [pid ctr]. cbn [snd] in Ha. destruct (alloc_subid (sub_ctr s)) as [sid sctr].
      destruct (enc_subscribe so pid sid); [|exact Ha|exact Ha].
      match goal with |- context [send ?s1 ?m] => unfold send; destruct (ctx_alive s1) end; exact Ha.
    + destruct (alloc_pid (pid_ctr s)) as [pid ctr]. cbn [snd] in Ha.
      destruct (enc_unsubscribe uo pid); [apply Henq|cbn|cbn]; exact Ha.
    + apply Henq. exact P.
    + destruct (enc_disconnect d); [apply Henq|cbn|cbn]; exact P.
  - assert (Hdr : pid_ctr (drop_recv s i) = pid_ctr s) by (unfold drop_recv; destruct (alookup i (streams s)); reflexivity).
    unfold poll_wait1. destruct (o_ch1 o) as [|v|]; [exact P| |destruct (o_kind o); cbn [fst finish pid_ctr put_op set_ops]; rewrite ?Hdr; exact P].
    destruct (o_kind o) as [po|so|uo| |d]; destruct v as [|p| |]; cbn [fst finish pid_ctr put_op set_ops]; rewrite ?Hdr; try exact P;
      try (destruct (rk p); exact P).
    destruct (po_qos po =? 1); destruct (rk p); try exact P; try (destruct (128 <=? r_reason p); exact P).
    destruct (128 <=? r_reason p); [exact P|]. unfold send. destruct (ctx_alive s); exact P.
  - unfold poll_wait2. destruct (o_ch2 o) as [|v|]; try exact P. destruct v as [|p| |]; try exact P. destruct (rk p); exact P.
Qed.
Lemma TI_poll_op s i : TI s -> TI (fst (poll_op s i)).
Proof.
  intros [T [P [Z R]]]. pose proof (io_poll_op s i) as Hio. unfold io in Hio.
  assert (I1 : rd (fst (poll_op s i)) = rd s) by congruence. assert (I2 : fr (fst (poll_op s i)) = fr s) by congruence.
  unfold TI. rewrite I1, I2. split; [apply poll_op_typed; assumption|]. split; [apply ctr_poll_op; exact P|auto].
Qed.

Lemma TI_start_conn s pkt sei : TI s -> TI (start_conn s pkt sei).
Proof.
  intros H. unfold start_conn. cbv zeta. destruct pkt as [b| |]; try (eapply TI_same; [| | | |exact H]; reflexivity).
  set (s1 := match sei with Some v => set_c s (with_sei_ts (c s) v (disc_ts (c s))) | None => s end).
  assert (H1 : TI s1) by (subst s1; destruct sei; [eapply TI_same; [| | | |exact H]; reflexivity|exact H]).
  assert (H2 : TI (fst (write s1 b))).
  { pose proof (io_write s1 b) as Hio. unfold io in Hio.
    eapply TI_same; [apply core_write|apply ctr_write| | |exact H1]; congruence. }
  destruct (snd (write s1 b)); [apply TI_settle|]; eapply TI_same; try exact H2; reflexivity.
Qed.
Lemma Typed_fold_cancel (l : list (N * (N * N))) : forall s, Typed s ->
  Typed (fold_left (fun s e => cancel s (fst (snd e)) (snd (snd e))) l s).
Proof. induction l as [|e l IH]; intros s H; cbn [fold_left]; [exact H|]. apply IH. apply cancel_typed. exact H. Qed.
Lemma Typed_reset_session s : Typed s -> Typed (reset_session s).
Proof.
  intros H. unfold reset_session. cbv zeta.
  set (s1 := fold_left (fun s e => cancel s (fst (snd e)) (snd (snd e))) (awaiting (c s)) s).
  assert (H1 : Typed s1) by (apply Typed_fold_cancel; exact H).
  set (s2 := fold_left (fun s e => close_stream_sender s (snd e)) (subs (c s1)) s1).
  assert (H2 : Typed s2) by (eapply Typed_core; [apply fold_close|exact H1]).
  destruct H2 as [T1 [T2 T3]]. unfold Typed. cbn [ops msgq c set_c awaiting]. split; [exact T1|]. split; [exact T2|]. intros a i ph o [].
Qed.
Lemma io_fold_cancel (l : list (N * (N * N))) s : io (fold_left (fun s e => cancel s (fst (snd e)) (snd (snd e))) l s) = io s.
Proof. apply io_fold. intros. apply io_cancel. Qed.
Lemma ctr_fold {A} (f : sys -> A -> sys) (l : list A) : (forall s a, pid_ctr (f s a) = pid_ctr s) ->
  forall s, pid_ctr (fold_left f l s) = pid_ctr s.
Proof. intros H. induction l as [|a l IH]; intros s; cbn [fold_left]; [reflexivity|]. rewrite IH. apply H. Qed.
Lemma TI_reset_session s : TI s -> TI (reset_session s).
Proof.
  intros [T [P [Z R]]]. pose proof (io_reset_session s) as Hio. unfold io in Hio.
  assert (I1 : rd (reset_session s) = rd s) by congruence. assert (I2 : fr (reset_session s) = fr s) by congruence.
  unfold TI. rewrite I1, I2. split; [apply Typed_reset_session; exact T|]. split; [|auto].
  unfold reset_session. cbv zeta. cbn [pid_ctr set_c]. rewrite ctr_fold by (intros; apply ctr_close).
  rewrite ctr_fold by (intros; apply ctr_cancel). exact P.
Qed.
Lemma TI_start_run s : TI s -> TI (start_run s).
Proof.
  intros H. unfold start_run. cbv zeta.
  assert (H0 : TI (set_cph s CIdle)) by (eapply TI_same; [| | | |exact H]; reflexivity).
  destruct (disc_ts (c (set_cph s CIdle))) as [t|].
  - set (s1 := if session_expired (c (set_cph s CIdle)) t then reset_session (set_cph s CIdle) else set_cph s CIdle).
    assert (H1 : TI s1) by (subst s1; destruct (session_expired _ _); [apply TI_reset_session|]; exact H0).
    set (s2 := set_c s1 (with_sei_ts (c s1) (sei (c s1)) None)).
    assert (H2 : TI s2) by (eapply TI_same; [| | | |exact H1]; reflexivity).
    pose proof (core_retransmit (retx (c s2)) s2) as Hc. pose proof (io_retransmit (retx (c s2)) s2) as Hio. unfold io in Hio.
    assert (Hp : pid_ctr (fst (retransmit s2 (retx (c s2)))) = pid_ctr s2).
    { generalize (retx (c s2)) as l. generalize s2 as s0. intros s0 l. revert s0. induction l as [|[a pkt] l IH]; intros s0; cbn [retransmit]; [reflexivity|].
      destruct (snd (write s0 pkt)); [rewrite IH|cbn [fst]]; apply ctr_write. }
    destruct (retransmit s2 (retx (c s2))) as [s3 ok]. cbn [fst] in *.
    assert (H3 : TI s3) by (eapply TI_same; [exact Hc|exact Hp| | |exact H2]; congruence).
    destruct ok; [apply TI_settle|]; eapply TI_same; try exact H3; reflexivity.
  - apply TI_settle. eapply TI_same; [| | | |exact H0]; reflexivity.
Qed.

Lemma Typed_fold_drop_msg (l : list cmsg) : forall s, Typed s -> Typed (fold_left drop_msg l s).
Proof.
  induction l as [|m l IH]; intros s H; cbn [fold_left]; [exact H|]. apply IH.
  destruct m; cbn [drop_msg]; [apply cancel_typed|apply cancel_typed|eapply Typed_core; [apply core_close|apply cancel_typed]]; exact H.
Qed.
Lemma TI_drop_ctx s : TI s -> TI (drop_ctx s).
Proof.
  intros [T [P [Z R]]]. destruct (drop_ctx_rd s) as [I1 [I2 _]]. unfold TI. rewrite I1, I2.
  split; [|split; [|auto]].
  - unfold drop_ctx. cbv zeta.
    pose proof (Typed_fold_drop_msg (msgq (reset_session s)) (reset_session s) (Typed_reset_session s T)) as [T1 [_ T3]].
    unfold Typed. cbn [ops msgq c]. split; [exact T1|]. split; [intros m i o []|exact T3].
  - unfold drop_ctx. cbv zeta. cbn [pid_ctr].
    rewrite ctr_fold by (intros s0 m; destruct m; cbn [drop_msg]; rewrite ?ctr_close, ?ctr_cancel; reflexivity).
    unfold reset_session. cbv zeta. cbn [pid_ctr set_c]. rewrite ctr_fold by (intros; apply ctr_close).
    rewrite ctr_fold by (intros; apply ctr_cancel). exact P.
Qed.

Lemma Typed_put_fresh s i o : Typed s -> o_ch1 o = CEmpty -> o_ch2 o = CEmpty ->
  (forall a ph, ~ In (a, (i, ph)) (awaiting (c s))) -> (forall m, In m (msgq s) -> fst (msg_op m) <> i) ->
  Typed (put_op s i o).
Proof.
  intros [T1 [T2 T3]] H1 H2 Ha Hm. unfold Typed, put_op. cbn [ops msgq c set_ops]. split; [|split].
  - intros j oj H. rewrite alookup_aset in H. destruct (i =? j); [inversion H; subst oj; rewrite H1, H2; split; exact I|apply T1 with j; exact H].
  - intros m j oj Hin Hj H. rewrite alookup_aset in H. destruct (i =? j) eqn:E.
    + apply N.eqb_eq in E. exfalso. apply (Hm m Hin). congruence.
    + eapply T2; eassumption.
  - intros a j ph oj Hin H. rewrite alookup_aset in H. destruct (i =? j) eqn:E.
    + apply N.eqb_eq in E. exfalso. rewrite <- E in Hin. exact (Ha a ph Hin).
    + eapply T3; eassumption.
Qed.
Lemma Typed_drop_op s i : Typed s -> Uniq s -> Typed (drop_op s i).
Proof.
  intros T U. unfold drop_op. destruct (alookup i (ops s)) as [o|] eqn:El; [|exact T].
  set (s1 := match o_kind o with
             | OSub _ => if match alookup i (streams s) with Some st => negb (st_taken st) | None => false end then drop_recv s i else s
             | _ => s end).
  assert (Hc : core s1 = core s).
  { subst s1. destruct (o_kind o); try reflexivity.
    destruct (match alookup i (streams s) with Some st => negb (st_taken st) | None => false end); [apply core_drop_recv|reflexivity]. }
  assert (T1 : Typed s1) by (eapply Typed_core; eassumption).
  assert (U1 : Uniq s1) by (unfold core in Hc; assert (ops s1 = ops s) by congruence; eapply Uniq_core; eassumption).
  destruct (aremove_keys i (ops s1) U1) as [K1 [K2 K3]]. destruct T1 as [A1 [A2 A3]].
  assert (Hl : forall j oj, alookup j (aremove i (ops s1)) = Some oj -> alookup j (ops s1) = Some oj).
  { intros j oj H. destruct (N.eq_dec j i) as [->|Hne]; [rewrite K2 in H; discriminate|]. rewrite alookup_aremove_other in H by exact Hne. exact H. }
  unfold Typed. cbn [ops msgq c set_ops]. split; [|split].
  - intros j oj H. apply A1 with j. apply Hl. exact H.
  - intros m j oj Hin Hj H. eapply A2; try eassumption. apply Hl. exact H.
  - intros a j ph oj Hin H. eapply A3; try eassumption. apply Hl. exact H.
Qed.

Theorem TI_step s e : TI s -> OI s -> ev_typed s e -> TI (fst (step s e)).
Proof.
  intros HT HO Hev. unfold step. cbv zeta.
  assert (Hg : TI (begin_ev s)) by (eapply TI_same; [| | | |exact HT]; reflexivity).
  assert (HOg : OI (begin_ev s)) by (eapply OI_core; [|exact HO]; reflexivity).
  set (s0 := begin_ev s) in *.
  assert (Hsame : forall s1, core s1 = core s0 -> pid_ctr s1 = pid_ctr s0 -> rd s1 = rd s0 -> fr s1 = fr s0 -> TI s1)
    by (intros; eapply TI_same; eassumption).
  destruct e; cbn [fst ev_typed] in *.
  - destruct (negb (ctx_alive s0)); cbn [fst]; [exact Hg|apply TI_start_conn; exact Hg].
  - destruct (negb (ctx_alive s0)); cbn [fst]; [exact Hg|apply TI_start_conn; exact Hg].
  - destruct (negb (ctx_alive s0)); cbn [fst]; [exact Hg|apply TI_start_run; exact Hg].
  - destruct b as [|b0 b]; cbn [fst]; apply TI_settle; [exact Hg|].
    destruct Hg as [T [P [Z R]]]. unfold TI. cbn [pid_ctr fr rd set_io]. split; [eapply Typed_core; [|exact T]; reflexivity|].
    split; [exact P|]. split; [exact Z|]. unfold RB in *. cbn [segs]. apply Forall_app. split; [exact R|]. constructor; [exact Hev|constructor].
  - apply TI_settle. destruct Hg as [T [P [Z R]]]. unfold TI. cbn [pid_ctr fr rd set_io]. split; [eapply Typed_core; [|exact T]; reflexivity|]. auto.
  - apply TI_settle. destruct Hg as [T [P [Z R]]]. unfold TI. cbn [pid_ctr fr rd set_io]. split; [eapply Typed_core; [|exact T]; reflexivity|]. auto.
  - apply Hsame; reflexivity.
  - exact Hg.
  - destruct (memN h (handles s0)); cbn [fst]; [|exact Hg]. destruct Hg as [T [P [Z R]]]. destruct Hev as [Ha Hm].
    unfold TI. cbn [pid_ctr fr rd put_op set_ops]. split; [|auto]. apply Typed_put_fresh; try reflexivity; assumption.
  - pose proof (TI_poll_op s0 i Hg) as Hp. destruct (poll_op s0 i) as [s1 o]. cbn [fst] in *. apply TI_settle. exact Hp.
  - apply TI_settle. destruct Hg as [T [P [Z R]]]. pose proof (io_drop_op s0 i) as Hio. unfold io in Hio.
    assert (I1 : rd (drop_op s0 i) = rd s0) by congruence. assert (I2 : fr (drop_op s0 i) = fr s0) by congruence.
    unfold TI. rewrite I1, I2. split; [apply Typed_drop_op; [exact T|exact (proj2 HOg)]|]. split; [|auto].
    unfold drop_op. destruct (alookup i (ops s0)) as [o|]; [|exact P]. cbn [pid_ctr set_ops].
    destruct (o_kind o); try exact P. destruct (match alookup i (streams s0) with Some st => negb (st_taken st) | None => false end); [|exact P].
    unfold drop_recv. destruct (alookup i (streams s0)); exact P.
  - destruct (alookup i (streams s0)) as [st|]; [|exact Hg].
    destruct (op_phase_of s0 i) as [[| | |]|]; try exact Hg.
    destruct (st_recv st && negb (st_taken st)); cbn [fst]; [|exact Hg]. apply Hsame; reflexivity.
  - assert (Hp : TI (fst (poll_stream s0 j))).
    { unfold poll_stream. destruct (alookup j (streams s0)) as [st|]; [|exact Hg].
      destruct (negb (st_taken st)); [exact Hg|]. destruct (st_buf st); [destruct (st_sender st)|]; cbn [fst]; try exact Hg; apply Hsame; reflexivity. }
    destruct (poll_stream s0 j) as [s1 o]. cbn [fst] in *. apply TI_settle. exact Hp.
  - assert (Hd : TI (set_streams (drop_recv s0 j) (aremove j (streams (drop_recv s0 j))))).
    { pose proof (core_drop_recv s0 j) as Hc. pose proof (io_drop_recv s0 j) as Hio. unfold io in Hio.
      apply Hsame; [unfold core in *; cbn [ops msgq c ctx_alive set_streams]; exact Hc| | |];
        cbn [pid_ctr rd fr set_streams]; try congruence. unfold drop_recv. destruct (alookup j (streams s0)); reflexivity. }
    destruct (op_phase_of s0 j) as [[| | |]|]; cbn [fst]; apply TI_settle; assumption.
  - destruct (memN h (handles s0) && negb (memN h2 (handles s0))); cbn [fst]; [|exact Hg]. apply Hsame; reflexivity.
  - apply TI_settle. apply Hsame; reflexivity.
  - apply TI_drop_ctx. exact Hg.
  - apply Hsame; reflexivity.
  - apply TI_settle. apply Hsame; reflexivity.
  - destruct (ctx_alive s0); cbn [fst]; [|exact Hg]. apply Hsame; reflexivity.
  - destruct Hg as [T [P [Z R]]]. unfold TI. cbn [pid_ctr fr rd set_wire set_io set_cph]. split; [eapply Typed_core; [|exact T]; reflexivity|].
    split; [exact P|]. split; [constructor|constructor].
  - contradiction.
Qed.

Fixpoint wf_run (s : sys) (evs : list event) : Prop :=
  match evs with [] => True | e :: r => ev_typed s e /\ wf_run (fst (step s e)) r end.
Lemma TI_init : TI sys_init.
Proof.
  unfold TI. split; [|split; [cbn; lia|split; constructor]].
  unfold Typed. cbn. split; [intros i o H; discriminate|]. split; [intros m i o []|intros a i ph o []].
Qed.
Theorem typed_reachable evs : forall s, TI s -> OI s -> wf_run s evs -> TI (final_state s evs) /\ OI (final_state s evs).
Proof.
  induction evs as [|e evs IH]; intros s HT HO Hw; cbn [final_state]; [auto|]. destruct Hw as [He Hw].
  apply IH; [apply TI_step; assumption|apply OI_step; exact HO|exact Hw].
Qed.

(* C05 / C04: in every state reachable by a well-formed script, polling an operation future that has been
   started never hits unreachable!(): whatever reached its oneshot is a value it can take - the
   acknowledgement of its own type, a local refusal, or the "written" signal of a fire-and-forget request *)
Theorem no_unreachable evs i o : wf_run sys_init evs ->
  let s := final_state sys_init evs in
  alookup i (ops s) = Some o -> o_phase o <> NotStarted -> ~ In (ODone i RPanic) (snd (poll_op s i)).
Proof.
  intros Hw. cbv zeta. intros Hl Hp.
  destruct (typed_reachable evs sys_init TI_init OI_init Hw) as [[T _] _]. eapply poll_op_no_unreachable; eassumption.
Qed.
(* and what sits in a filled oneshot is typed: a packet there is the acknowledgement kind that operation
   and phase expect (PINGRESP for ping, SUBACK for subscribe, UNSUBACK for unsubscribe, PUBACK for QoS 1,
   PUBREC then PUBCOMP for QoS 2), never another operation's kind *)
Theorem completion_typed evs i o p : wf_run sys_init evs ->
  let s := final_state sys_init evs in
  alookup i (ops s) = Some o ->
  (o_ch1 o = CFull (CPkt p) -> expect (o_kind o) 1 = Some (rk p)) /\
  (o_ch2 o = CFull (CPkt p) -> expect (o_kind o) 2 = Some (rk p)).
Proof.
  intros Hw. cbv zeta. intros Hl.
  destruct (typed_reachable evs sys_init TI_init OI_init Hw) as [[[T1 _] _] _]. destruct (T1 i o Hl) as [C1 C2].
  split; intros H; [rewrite H in C1; exact (proj1 C1)|rewrite H in C2; exact (proj1 C2)].
Qed.

(* a boolean version of the well-formedness check, for concrete scripts *)
Definition ev_typedb (s : sys) (e : event) : bool :=
  match e with
  | EStart i _ _ => forallb (fun x => negb (fst (snd x) =? i)) (awaiting (c s)) && forallb (fun m => negb (fst (msg_op m) =? i)) (msgq s)
  | EDeliver b => forallb (fun x => x <? 256) b
  | ESpin _ _ _ _ => false
  | _ => true
  end.
Fixpoint wf_runb (s : sys) (evs : list event) : bool :=
  match evs with [] => true | e :: r => ev_typedb s e && wf_runb (fst (step s e)) r end.
Lemma ev_typedb_ok s e : ev_typedb s e = true -> ev_typed s e.
Proof.
  destruct e; cbn [ev_typedb ev_typed]; try (intros; exact I); try discriminate.
  - intros H. unfold B256. apply Forall_forall. intros x Hx. rewrite forallb_forall in H. apply N.ltb_lt. apply H. exact Hx.
  - intros H. apply andb_prop in H. destruct H as [H1 H2]. rewrite forallb_forall in H1, H2. split.
    + intros a ph Hin. specialize (H1 _ Hin). cbn [fst snd] in H1. rewrite N.eqb_refl in H1. discriminate.
    + intros m Hin Heq. specialize (H2 _ Hin). rewrite Heq, N.eqb_refl in H2. discriminate.
Qed.
Lemma wf_runb_ok evs : forall s, wf_runb s evs = true -> wf_run s evs.
Proof.
  induction evs as [|e evs IH]; intros s H; cbn [wf_runb wf_run] in *; [exact I|].
  apply andb_prop in H. destruct H as [H1 H2]. split; [apply ev_typedb_ok; exact H1|apply IH; exact H2].
Qed.
